(* Facts about the element types of Backends/Dtype.v:
     - the common element type of several arrays does not depend on their order;
     - it holds the values of every argument (one named exception: 64-bit integers meeting a
       float or uint64 meeting a signed type go to float64, which rounds above 2^53);
     - converting a value to a type that holds it changes nothing, hence on such data the typed
       reference is the exact reference of Backends/Ops.v;
     - taking the element type from the first argument is observably different. *)
From Coq Require Import List NArith ZArith QArith Qcanon String Bool Lia Permutation.
From EKW Require Import Backends.Tensor Backends.Ops Backends.Dtype.
Import ListNotations.
Open Scope string_scope.

(* ------------------------------------------------------------------ order independence *)
Lemma merge_comm : forall a b, merge a b = merge b a.
Proof.
  intros [[s u] f] [[s' u'] f']. unfold merge.
  rewrite (N.max_comm s), (N.max_comm u), (N.max_comm f). reflexivity.
Qed.

Lemma merge_assoc : forall a b c, merge a (merge b c) = merge (merge a b) c.
Proof.
  intros [[s u] f] [[s' u'] f'] [[s'' u''] f'']. unfold merge.
  rewrite !N.max_assoc. reflexivity.
Qed.

Lemma merge_zero : forall a, merge a (0, 0, 0)%N = a.
Proof. intros [[s u] f]. unfold merge. rewrite !N.max_0_r. reflexivity. Qed.

Lemma summ_list_perm : forall ds ds', Permutation ds ds' -> summ_list ds = summ_list ds'.
Proof.
  intros ds ds' H. induction H as [|x l l' _ IH|x y l|l l' l'' _ IH1 _ IH2]; simpl.
  - reflexivity.
  - rewrite IH. reflexivity.
  - rewrite !merge_assoc, (merge_comm (summ_of y)). reflexivity.
  - congruence.
Qed.

Theorem promote_list_perm : forall ds ds', Permutation ds ds' -> promote_list ds = promote_list ds'.
Proof.
  intros ds ds' H. pose proof (summ_list_perm _ _ H) as E.
  destruct ds as [|d r]; destruct ds' as [|d' r'].
  - reflexivity.
  - apply Permutation_nil in H. discriminate.
  - apply Permutation_sym, Permutation_nil in H. discriminate.
  - unfold promote_list. rewrite E. reflexivity.
Qed.

Lemma promote_is_list : forall a b, promote_list [a; b] = Some (promote a b).
Proof. intros a b. unfold promote_list, promote. simpl. rewrite merge_zero. reflexivity. Qed.

Lemma promote_comm : forall a b, promote a b = promote b a.
Proof. intros a b. unfold promote. rewrite merge_comm. reflexivity. Qed.

Lemma promote_idem : forall a, promote a a = a.
Proof. intros a. destruct a; vm_compute; reflexivity. Qed.

Theorem result_dtype_perm : forall c c' ds ds',
  Permutation ds ds' -> (forall D, op_dtype c D = op_dtype c' D) -> result_dtype c ds = result_dtype c' ds'.
Proof.
  intros c c' ds ds' H Hop. unfold result_dtype, result_dtype_with. rewrite (promote_list_perm _ _ H).
  destruct (promote_list ds'); [rewrite Hop|]; reflexivity.
Qed.

(* ------------------------------------------------------------------ the common type is an upper bound *)
Definition leb_summ (a b : summ) : bool :=
  let '(s, u, f) := a in let '(s', u', f') := b in ((s <=? s') && (u <=? u') && (f <=? f'))%N.

Definition bits : list N := [0; 8; 16; 32; 64]%N.
Definition all_summs : list summ :=
  flat_map (fun s => flat_map (fun u => map (fun f => (s, u, f)) [0; 32; 64]%N) bits) bits.

Definition summ_eqb (a b : summ) : bool :=
  let '(s, u, f) := a in let '(s', u', f') := b in ((s =? s') && (u =? u') && (f =? f'))%N.

Lemma summ_eqb_eq : forall a b, summ_eqb a b = true -> a = b.
Proof.
  intros [[s u] f] [[s' u'] f'] H. unfold summ_eqb in H.
  apply andb_true_iff in H as [H Hf]. apply andb_true_iff in H as [Hs Hu].
  apply N.eqb_eq in Hs, Hu, Hf. subst. reflexivity.
Qed.

Lemma existsb_summ_in : forall x l, existsb (summ_eqb x) l = true -> In x l.
Proof.
  intros x l H. apply existsb_exists in H as (y & Hy & E). apply summ_eqb_eq in E. subst. exact Hy.
Qed.

Lemma in_all_dtypes : forall d, In d all_dtypes.
Proof. intros d. destruct d; simpl; tauto. Qed.

Lemma merge_closed : forall d x, In x all_summs -> In (merge (summ_of d) x) all_summs.
Proof.
  assert (H : forallb (fun d => forallb (fun x => existsb (summ_eqb (merge (summ_of d) x)) all_summs) all_summs) all_dtypes = true)
    by (vm_compute; reflexivity).
  intros d x Hx. rewrite forallb_forall in H. specialize (H d (in_all_dtypes d)).
  rewrite forallb_forall in H. apply existsb_summ_in. apply H. exact Hx.
Qed.

Lemma summ_list_in : forall ds, In (summ_list ds) all_summs.
Proof.
  induction ds as [|d r IH]; simpl.
  - vm_compute. tauto.
  - apply merge_closed. exact IH.
Qed.

Lemma leb_summ_merge_l : forall a b, leb_summ a (merge a b) = true.
Proof.
  intros [[s u] f] [[s' u'] f']. unfold leb_summ, merge.
  rewrite !andb_true_iff. repeat split; apply N.leb_le; apply N.le_max_l.
Qed.

Lemma leb_summ_merge_r : forall a b c, leb_summ a c = true -> leb_summ a (merge b c) = true.
Proof.
  intros [[s u] f] [[s' u'] f'] [[s'' u''] f'']. unfold leb_summ, merge.
  rewrite !andb_true_iff, !N.leb_le. intros [[H1 H2] H3]. repeat split; lia.
Qed.

Lemma summ_of_le_list : forall d ds, In d ds -> leb_summ (summ_of d) (summ_list ds) = true.
Proof.
  intros d ds. induction ds as [|x r IH]; simpl; intros H.
  - contradiction.
  - destruct H as [->|H].
    + apply leb_summ_merge_l.
    + apply leb_summ_merge_r. apply IH. exact H.
Qed.

Definition is64int (d : dtype) : bool := match d with DI64 | DU64 => true | _ => false end.

(* d is converted to D without loss, or it is a 64-bit integer type converted to float64 *)
Definition converts (d D : dtype) : bool := widens d D || (is64int d && dtype_eqb D DF64).

Lemma converts_table :
  forallb (fun d => forallb (fun x => implb (leb_summ (summ_of d) x) (converts d (decode x))) all_summs) all_dtypes = true.
Proof. vm_compute. reflexivity. Qed.

Theorem promote_list_upper : forall ds D d,
  promote_list ds = Some D -> In d ds -> converts d D = true.
Proof.
  intros ds D d HD Hd.
  assert (E : D = decode (summ_list ds)).
  { destruct ds; [contradiction|]. unfold promote_list in HD. injection HD as <-. reflexivity. }
  subst D. pose proof converts_table as H. rewrite forallb_forall in H.
  specialize (H d (in_all_dtypes d)). rewrite forallb_forall in H.
  specialize (H _ (summ_list_in ds)). rewrite (summ_of_le_list _ _ Hd) in H. exact H.
Qed.

(* without 64-bit integers next to floats / signed next to uint64 nothing is lost at all *)
Definition lossless (ds : list dtype) : bool :=
  match promote_list ds with
  | Some D => forallb (fun d => widens d D) ds
  | None => true
  end.

(* ------------------------------------------------------------------ values *)
Lemma Qc_int : forall q : Qc, Qden q = 1%positive -> q = qint (Qnum q).
Proof.
  intros q H. apply Qc_is_canon. unfold qint, Q2Qc. cbn [this].
  etransitivity; [|symmetry; apply Qred_correct].
  unfold Qeq, inject_Z. cbn [Qnum Qden]. rewrite H. reflexivity.
Qed.

Lemma repr_int_iff : forall lo hi q, repr_int lo hi q = true <-> Qden q = 1%positive /\ (lo <= Qnum q <= hi)%Z.
Proof.
  intros lo hi q. unfold repr_int. rewrite !andb_true_iff, Pos.eqb_eq, !Z.leb_le. tauto.
Qed.

Lemma cast_int_id : forall lo hi q, repr_int lo hi q = true -> qint (wrap lo hi (qtrunc q)) = q.
Proof.
  intros lo hi q H. apply repr_int_iff in H as [Hd Hr].
  unfold qtrunc, wrap. rewrite Hd, Z.quot_1_r.
  rewrite Z.mod_small by lia.
  replace (lo + (Qnum q - lo))%Z with (Qnum q) by lia. symmetry. apply Qc_int. exact Hd.
Qed.

Theorem cast_repr_id : forall D q, repr D q = true -> cast D q = q.
Proof.
  intros D q H. destruct D; unfold repr in H; simpl in H;
    try (unfold cast; simpl kind_of; cbv iota; apply cast_int_id; exact H);
    try reflexivity.
  (* bool *)
  apply repr_int_iff in H as [Hd Hr]. unfold cast. rewrite (Qc_int q Hd).
  assert (E : Qnum q = 0%Z \/ Qnum q = 1%Z) by lia. destruct E as [-> | ->]; reflexivity.
Qed.

Lemma mant_ok_small : forall p n, (0 < p)%Z -> (0 <= n < 2 ^ p)%Z -> mant_ok p n = true.
Proof.
  intros p n Hp [H0 Hn]. unfold mant_ok.
  assert (L : (Z.log2 n + 1 <= p)%Z).
  { destruct (Z.eq_dec n 0) as [->|Hz]; [simpl; lia|].
    assert (Z.log2 n < p)%Z by (apply Z.log2_lt_pow2; lia). lia. }
  apply Z.leb_le in L. rewrite L. reflexivity.
Qed.

Lemma mant_ok_mono : forall p p' n, (0 < p <= p')%Z -> mant_ok p n = true -> mant_ok p' n = true.
Proof.
  intros p p' n [Hp Hpp] H. unfold mant_ok in *.
  set (L := (Z.log2 n + 1)%Z) in *.
  destruct (L <=? p)%Z eqn:E1.
  - apply Z.leb_le in E1. assert (E2 : (L <=? p')%Z = true) by (apply Z.leb_le; lia). rewrite E2. reflexivity.
  - destruct (L <=? p')%Z eqn:E2; [reflexivity|].
    apply Z.leb_gt in E1, E2. apply Z.eqb_eq in H. apply Z.eqb_eq.
    assert (Hne : (2 ^ (L - p) <> 0)%Z) by (apply Z.pow_nonzero; lia).
    assert (Hne' : (2 ^ (L - p') <> 0)%Z) by (apply Z.pow_nonzero; lia).
    apply Z.mod_divide; [exact Hne'|]. apply Z.mod_divide in H; [|exact Hne].
    apply Z.divide_trans with (2 ^ (L - p))%Z; [|exact H].
    exists (2 ^ (p' - p))%Z. rewrite <- Z.pow_add_r by lia. f_equal. lia.
Qed.

Lemma repr_float_mono : forall p k e p' k' e' q,
  (0 < p <= p')%Z -> (k <= k')%Z -> (e <= e')%Z ->
  repr_float p k e q = true -> repr_float p' k' e' q = true.
Proof.
  intros p k e p' k' e' q Hp Hk He H. unfold repr_float in *. cbv zeta in *.
  apply andb_true_iff in H as [H H4]. apply andb_true_iff in H as [H H3]. apply andb_true_iff in H as [H1 H2].
  apply Z.leb_le in H2. apply Z.ltb_lt in H4.
  rewrite !andb_true_iff. repeat split.
  - exact H1.
  - apply Z.leb_le. lia.
  - eapply mant_ok_mono; eassumption.
  - apply Z.ltb_lt. eapply Z.lt_le_trans; [exact H4|]. apply Z.pow_le_mono_r; lia.
Qed.

Lemma repr_int_float : forall lo hi p kmax emax q,
  (0 < p <= emax)%Z -> (0 <= kmax)%Z -> (- 2 ^ p < lo)%Z -> (hi < 2 ^ p)%Z ->
  repr_int lo hi q = true -> repr_float p kmax emax q = true.
Proof.
  intros lo hi p kmax emax q Hp Hk Hlo Hhi H. apply repr_int_iff in H as [Hd Hr].
  unfold repr_float. cbv zeta. rewrite Hd. change (Z.log2 1) with 0%Z. change (2 ^ 0)%Z with 1%Z.
  assert (Ha : (0 <= Z.abs (Qnum q) < 2 ^ p)%Z) by lia.
  rewrite !andb_true_iff. repeat split.
  - apply Z.leb_le. exact Hk.
  - apply mant_ok_small; [lia|exact Ha].
  - apply Z.ltb_lt. rewrite Z.add_0_r. eapply Z.lt_le_trans; [apply Ha|]. apply Z.pow_le_mono_r; lia.
Qed.

Theorem widens_repr : forall d D q, widens d D = true -> repr d q = true -> repr D q = true.
Proof.
  intros d D q HW HR. unfold widens, repr in *.
  destruct (kind_of d) as [lo hi|p k e] eqn:Ed; destruct (kind_of D) as [lo' hi'|p' k' e'] eqn:ED.
  - apply andb_true_iff in HW as [H1 H2]. apply Z.leb_le in H1, H2.
    apply repr_int_iff in HR as [Hd Hr]. apply repr_int_iff. split; [exact Hd|lia].
  - apply andb_true_iff in HW as [H1 H2]. apply Z.ltb_lt in H1, H2.
    destruct D; simpl in ED; try discriminate; injection ED as <- <- <-;
      (eapply repr_int_float; [| | exact H1 | exact H2 | exact HR]; lia).
  - discriminate.
  - apply andb_true_iff in HW as [HW H3]. apply andb_true_iff in HW as [H1 H2].
    apply Z.leb_le in H1, H2, H3.
    destruct d; simpl in Ed; try discriminate; injection Ed as <- <- <-;
      (eapply repr_float_mono; [| | | exact HR]; lia).
Qed.

Corollary widens_cast_id : forall d D q, widens d D = true -> repr d q = true -> cast D q = q.
Proof. intros d D q HW HR. apply cast_repr_id. eapply widens_repr; eassumption. Qed.

(* ------------------------------------------------------------------ arrays *)
Section NdInd.
  Variable P : nd -> Prop.
  Hypothesis HL : forall q, P (Leaf q).
  Hypothesis HN : forall l, Forall P l -> P (Node l).
  Fixpoint nd_ind' (t : nd) : P t :=
    match t with
    | Leaf q => HL q
    | Node l => HN l ((fix go (l : list nd) : Forall P l :=
                         match l with
                         | [] => Forall_nil P
                         | x :: r => Forall_cons x (nd_ind' x) (go r)
                         end) l)
    end.
End NdInd.

Lemma nd_map_id : forall (f : Qc -> Qc) (Pb : Qc -> bool),
  (forall q, Pb q = true -> f q = q) -> forall t, nd_all Pb t = true -> nd_map f t = t.
Proof.
  intros f Pb Hf. apply (nd_ind' (fun t => nd_all Pb t = true -> nd_map f t = t)).
  - intros q H. simpl in *. rewrite (Hf q H). reflexivity.
  - intros l IH H. simpl in *. f_equal. rewrite forallb_forall in H.
    rewrite <- (map_id l) at 2. apply map_ext_in. intros x Hx.
    rewrite Forall_forall in IH. apply IH; [exact Hx|]. apply H. exact Hx.
Qed.

Lemma nd_all_impl : forall (Pb Pb' : Qc -> bool),
  (forall q, Pb q = true -> Pb' q = true) -> forall t, nd_all Pb t = true -> nd_all Pb' t = true.
Proof.
  intros Pb Pb' Hi. apply (nd_ind' (fun t => nd_all Pb t = true -> nd_all Pb' t = true)).
  - intros q H. simpl in *. apply Hi. exact H.
  - intros l IH H. simpl in *. rewrite forallb_forall in *. intros x Hx.
    rewrite Forall_forall in IH. apply IH; [exact Hx|]. apply H. exact Hx.
Qed.

Theorem convert_id : forall d D t, widens d D = true -> all_repr d t = true ->
  convert D t = t /\ all_repr D t = true.
Proof.
  intros d D [s b] HW HR. unfold convert, all_repr in *. simpl in *. split.
  - f_equal. apply (nd_map_id (cast D) (repr d)); [|exact HR].
    intros q Hq. eapply widens_cast_id; eassumption.
  - apply (nd_all_impl (repr d) (repr D)); [|exact HR]. intros q Hq. eapply widens_repr; eassumption.
Qed.

Lemma convert_all_id : forall D ds ts,
  Forall2 (fun d t => all_repr d t = true) ds ts -> Forall (fun d => widens d D = true) ds ->
  map (convert D) ts = ts /\ forallb (all_repr D) ts = true.
Proof.
  intros D ds ts H. induction H as [|d t ds ts Hdt _ IH]; intros HW.
  - split; reflexivity.
  - inversion HW as [|? ? Hw HW']; subst. destruct (IH HW') as [E1 E2].
    destruct (convert_id d D t Hw Hdt) as [E3 E4]. simpl. rewrite E1, E2, E3, E4. split; reflexivity.
Qed.

(* On data every argument's type can be widened with: the typed reference IS the exact
   reference of Backends/Ops.v, labelled with the result type -- however the common type was found. *)
Theorem apply_with_exact : forall cd c ds D,
  cd ds = Some D ->
  Forall2 (fun d t => all_repr d t = true) ds (call_inputs c) ->
  Forall (fun d => widens d D = true) ds ->
  apply_with cd c ds = bind (apply c) (fun t => Ok (op_dtype c D, t)).
Proof.
  intros cd c ds D HD HR HW. unfold apply_with. rewrite HD.
  destruct (convert_all_id D ds (call_inputs c) HR HW) as [E1 E2].
  assert (Ec : map_inputs (convert D) c = c).
  { destruct c as [n ts ax|ts ax|ts ax|n a b|a i ax]; simpl in *; try (rewrite E1; reflexivity).
    - injection E1 as Ea Eb. rewrite Ea, Eb. reflexivity.
    - injection E1 as Ea. rewrite Ea. reflexivity. }
  rewrite Ec, E2. reflexivity.
Qed.

Theorem apply_t_exact : forall c ds D,
  promote_list ds = Some D ->
  Forall2 (fun d t => all_repr d t = true) ds (call_inputs c) ->
  Forall (fun d => widens d D = true) ds ->
  apply_t c ds = bind (apply c) (fun t => Ok (op_dtype c D, t)).
Proof. intros c ds D. apply (apply_with_exact promote_list). Qed.

(* ------------------------------------------------------------------ xp.asarray: pairwise from the left *)
Lemma promote_seq_pair : forall a b, promote_seq [a; b] = promote_list [a; b].
Proof. intros a b. rewrite promote_is_list. reflexivity. Qed.

Lemma converts_trans : forall a b c, converts a b = true -> converts b c = true -> converts a c = true.
Proof.
  assert (H : forallb (fun a => forallb (fun b => forallb (fun c =>
               implb (converts a b && converts b c) (converts a c)) all_dtypes) all_dtypes) all_dtypes = true)
    by (vm_compute; reflexivity).
  intros a b c Hab Hbc. rewrite forallb_forall in H. specialize (H a (in_all_dtypes a)).
  rewrite forallb_forall in H. specialize (H b (in_all_dtypes b)).
  rewrite forallb_forall in H. specialize (H c (in_all_dtypes c)).
  rewrite Hab, Hbc in H. exact H.
Qed.

Lemma converts_refl : forall a, converts a a = true.
Proof. intros a. destruct a; vm_compute; reflexivity. Qed.

Lemma promote_upper : forall a b, converts a (promote a b) = true /\ converts b (promote a b) = true.
Proof.
  intros a b. pose proof (promote_is_list a b) as E. split.
  - apply (promote_list_upper [a; b]); [exact E|simpl; tauto].
  - apply (promote_list_upper [a; b]); [exact E|simpl; tauto].
Qed.

Lemma fold_promote_upper : forall r d0 d,
  In d (d0 :: r) -> converts d (fold_left promote r d0) = true.
Proof.
  induction r as [|x r IH]; intros d0 d Hd.
  - destruct Hd as [->|[]]. apply converts_refl.
  - simpl fold_left. destruct Hd as [->|[->|Hd]].
    + apply converts_trans with (promote d x); [apply promote_upper|]. apply IH. left. reflexivity.
    + apply converts_trans with (promote d0 d); [apply promote_upper|]. apply IH. left. reflexivity.
    + apply IH. right. exact Hd.
Qed.

(* still wide enough for every argument ... *)
Theorem promote_seq_upper : forall ds D d,
  promote_seq ds = Some D -> In d ds -> converts d D = true.
Proof.
  intros ds D d HD Hd. destruct ds as [|d0 r]; [contradiction|].
  simpl in HD. injection HD as <-. apply fold_promote_upper. exact Hd.
Qed.

(* ... but NOT independent of the order, and not always np.result_type: NumPy itself disagrees with
   itself here (np.asarray([i16, u16, f32]).dtype = float64, np.stack([i16, u16, f32]).dtype = float32) *)
Lemma promote_seq_order_dependent :
  exists ds ds', Permutation ds ds' /\ promote_seq ds <> promote_seq ds' /\ promote_seq ds <> promote_list ds.
Proof.
  exists [DI16; DU16; DF32], [DF32; DI16; DU16]. split.
  - apply Permutation_sym. apply (Permutation_cons_app [DI16; DU16] [] DF32). apply Permutation_refl.
  - split; vm_compute; discriminate.
Qed.

(* ------------------------------------------------------------------ the first argument's type is not NumPy's *)
Definition t1 (z : Z) : tensor := T [1%nat] (Node [Leaf (qint z)]).
Definition th (n : Z) (d : positive) : tensor := T [1%nat] (Node [Leaf (Q2Qc (n # d))]).

(* int8 then float64: 5/2 is truncated to 2; int8 then int32: 300 wraps to 44; bool then int8: 5 becomes True *)
Lemma first_dtype_truncates :
  apply_t (CStack [t1 1; th 5 2] 0%Z) [DI8; DF64] = Ok (DF64, T [2%nat; 1%nat] (Node [Node [Leaf (qint 1)]; Node [Leaf (Q2Qc (5 # 2))]])) /\
  apply_first (CStack [t1 1; th 5 2] 0%Z) [DI8; DF64] = Ok (DI8, T [2%nat; 1%nat] (Node [Node [Leaf (qint 1)]; Node [Leaf (qint 2)]])).
Proof. split; vm_compute; reflexivity. Qed.

Lemma first_dtype_wraps :
  apply_t (CStack [t1 1; t1 300] 0%Z) [DI8; DI32] = Ok (DI32, T [2%nat; 1%nat] (Node [Node [Leaf (qint 1)]; Node [Leaf (qint 300)]])) /\
  apply_first (CStack [t1 1; t1 300] 0%Z) [DI8; DI32] = Ok (DI8, T [2%nat; 1%nat] (Node [Node [Leaf (qint 1)]; Node [Leaf (qint 44)]])).
Proof. split; vm_compute; reflexivity. Qed.

Lemma first_dtype_collapses :
  apply_first (CConcat [t1 0; t1 5] 0%Z) [DBool; DI8] = Ok (DBool, T [2%nat] (Node [Leaf (qint 0); Leaf (qint 1)])) /\
  apply_t (CConcat [t1 0; t1 5] 0%Z) [DBool; DI8] = Ok (DI8, T [2%nat] (Node [Leaf (qint 0); Leaf (qint 5)])).
Proof. split; vm_compute; reflexivity. Qed.

(* and it depends on the order of the arguments, which the common type never does *)
Lemma first_dtype_order_dependent :
  exists ds ds', Permutation ds ds' /\
    option_map fst (match apply_first (CStack [t1 1; t1 2] 0%Z) ds with Ok x => Some x | Err _ => None end)
    <> option_map fst (match apply_first (CStack [t1 2; t1 1] 0%Z) ds' with Ok x => Some x | Err _ => None end).
Proof.
  exists [DI8; DI32], [DI32; DI8]. split; [apply perm_swap|]. vm_compute. discriminate.
Qed.
