(* Arrays with NAMED dimensions: the part of xarray's data model XArrayBackend relies on.
   (src/earthkit/workflows/backends/xarray.py: every multi-argument operation goes through
   xr.concat / NumPy ufuncs on DataArrays, which match the arguments by dimension NAME, not by
   the position at which an argument happens to store a dimension.)

   A named array is a tensor (Backends/Tensor.v) + the name of each of its axes, in storage order.
   Its meaning is the function  environment (position along every named dimension) -> value
   (`nget`); the storage order is a representation detail: `align` re-stores an array in the
   dimension order of a frame (broadcasting over the frame's dimensions the array does not have,
   as xarray does) and `xr_apply` = align every argument with the frame of the FIRST argument, then
   the positional operation of Backends/Ops.v, then name the axes of the result.
   No proofs here (Backends/NamedProofs.v).

   Outside the model (an `Err` the generated cases never reach): index labels (the harness undoes
   label permutations before the comparison, see harness/c15.py), an argument with a dimension the
   first argument does not have. *)
From Coq Require Import List NArith ZArith QArith Qcanon String Bool Lia.
From EKW Require Import Backends.Tensor Backends.Ops.
Import ListNotations.
Open Scope string_scope.

Record narr : Type := NA { ndims : list string; nten : tensor }.

(* ------------------------------------------------------------------ positions *)
(* value at a multi-index (one position per axis, storage order) *)
Fixpoint at_ (t : nd) (idx : list nat) : Qc :=
  match idx with
  | [] => leafval t
  | i :: r => at_ (kid i t) r
  end.

(* the array of shape s whose value at idx is f idx *)
Fixpoint build (s : list nat) (f : list nat -> Qc) : nd :=
  match s with
  | [] => Leaf (f [])
  | m :: r => Node (map (fun j => build r (fun idx => f (j :: idx))) (seq 0 m))
  end.

Fixpoint alookup {B : Type} (d : string) (l : list (string * B)) : option B :=
  match l with
  | [] => None
  | (k, v) :: r => if String.eqb d k then Some v else alookup d r
  end.

(* an environment: the position along every named dimension *)
Notation env := (list (string * nat)) (only parsing).
Definition pos_of (e : env) (d : string) : nat := match alookup d e with Some i => i | None => 0%nat end.

(* the value of a named array in an environment: dimensions the array does not have are ignored *)
Definition nget (a : narr) (e : env) : Qc := at_ (body (nten a)) (map (pos_of e) (ndims a)).

Definition mem (d : string) (l : list string) : bool := existsb (String.eqb d) l.

Fixpoint nodupb (l : list string) : bool :=
  match l with
  | [] => true
  | d :: r => negb (mem d r) && nodupb r
  end.

Definition wf_named (a : narr) : bool :=
  nodupb (ndims a) && Nat.eqb (List.length (ndims a)) (List.length (shape (nten a))).

Definition sizes (a : narr) : list (string * nat) := combine (ndims a) (shape (nten a)).

(* ------------------------------------------------------------------ alignment by name *)
(* a frame: dimension names in the order wanted, each with the size demanded (None: the argument's own) *)
Notation frame := (list (string * option nat)) (only parsing).

Definition fits (tgt : frame) (a : narr) : bool :=
  forallb (fun d => mem d (map fst tgt)) (ndims a) &&
  forallb (fun p : string * option nat =>
             match snd p, alookup (fst p) (sizes a) with
             | Some n, Some m => Nat.eqb n m
             | Some _, None => true                 (* broadcast over a dimension the argument lacks *)
             | None, Some _ => true
             | None, None => false
             end) tgt.

Definition tshape (tgt : frame) (a : narr) : list nat :=
  map (fun p : string * option nat =>
         match snd p with
         | Some n => n
         | None => match alookup (fst p) (sizes a) with Some m => m | None => 1%nat end
         end) tgt.

Definition align (tgt : frame) (a : narr) : res tensor :=
  if wf_named a && nodupb (map fst tgt) && fits tgt a then
    let s := tshape tgt a in
    Ok (T s (build s (fun idx => nget a (combine (map fst tgt) idx))))
  else Err "ValueError".

(* the frame of an array: its own dimensions and sizes *)
Definition frame_of (a : narr) : frame := map (fun p : string * nat => (fst p, Some (snd p))) (sizes a).
(* ... with one dimension left free (concat joins along it) *)
Definition frame_free (d : string) (a : narr) : frame :=
  map (fun p : string * nat => (fst p, if String.eqb (fst p) d then None else Some (snd p))) (sizes a).
(* a given order, every size the argument's own: a transposition *)
Definition frame_names (names : list string) : frame := map (fun d => (d, @None nat)) names.

(* the same array stored in the dimension order `names` (DataArray.transpose) *)
Definition ntranspose (names : list string) (a : narr) : res narr :=
  if Nat.eqb (List.length names) (List.length (ndims a)) then
    bind (align (frame_names names) a) (fun t => Ok (NA names t))
  else Err "ValueError".

Fixpoint index_of (d : string) (l : list string) : option nat :=
  match l with
  | [] => None
  | x :: r => if String.eqb d x then Some 0%nat else option_map S (index_of d r)
  end.

Definition remove_at {A : Type} (k : nat) (l : list A) : list A := firstn k l ++ skipn (S k) l.
Definition insert_at {A : Type} (k : nat) (x : A) (l : list A) : list A := firstn k l ++ x :: skipn k l.

(* ------------------------------------------------------------------ XArrayBackend *)
Inductive xcall : Type :=
| XReduce (name : string) (args : list narr) (dim : option string)   (* dim: single-argument form only *)
| XStack (args : list narr) (new : string) (axis : Z)
| XConcat (args : list narr) (dim : string)
| XBin (name : string) (a b : narr)
| XTake (a : narr) (idx : Z + list Z) (dim : string + Z).

Definition xinputs (c : xcall) : list narr :=
  match c with
  | XReduce _ l _ => l
  | XStack l _ _ => l
  | XConcat l _ => l
  | XBin _ a b => [a; b]
  | XTake a _ _ => [a]
  end.

(* multi_arg_function with more than one argument: XArrayBackend.stack of the arguments on a NEW dimension = xr.concat on a new
   dimension -- every argument is brought to the dimensions of the first BY NAME -- then reduce NEW *)
Definition xr_multi (o : redop) (args : list narr) : res narr :=
  match args with
  | [] => Err "IndexError"
  | a :: _ => bind (mapM (align (frame_of a)) args) (fun ts => bind (multi o ts) (fun t => Ok (NA (ndims a) t)))
  end.

Definition xr_apply (c : xcall) : res narr :=
  match c with
  | XReduce name args dim =>
      match redop_of name with
      | None => Err "AttributeError"
      | Some o =>
          match args with
          | [] => Err "IndexError"
          | [a] =>
              if wf_named a then
                match dim with
                | None => bind (reduce_all o (nten a)) (fun t => Ok (NA [] t))
                | Some d => match index_of d (ndims a) with
                            | Some k => bind (reduce_axis o k (nten a)) (fun t => Ok (NA (remove_at k (ndims a)) t))
                            | None => Err "ValueError"
                            end
                end
              else Err "ValueError"
          | _ => xr_multi o args
          end
      end
  | XStack args new axis =>
      match args with
      | [] => Err "ValueError"
      | a :: _ =>
          if existsb (fun x => mem new (ndims x)) args then Err "ValueError"
          else bind (mapM (align (frame_of a)) args) (fun ts =>
               match norm_index (S (List.length (ndims a))) axis with
               | None => Err "axis-outside-model"
               | Some k => bind (stack_op ts axis) (fun t => Ok (NA (insert_at k new (ndims a)) t))
               end)
      end
  | XConcat args d =>
      match args with
      | [] => Err "ValueError"
      | a :: _ =>
          match index_of d (ndims a) with
          | None => Err "first-argument-lacks-dim-outside-model"
          | Some k => bind (mapM (align (frame_free d a)) args) (fun ts =>
                      bind (concat_op ts (Z.of_nat k)) (fun t => Ok (NA (ndims a) t)))
          end
      end
  | XBin name a b =>
      let f := if Nat.ltb (List.length (ndims a)) (List.length (ndims b)) then b else a in
      bind (align (frame_of f) a) (fun ta => bind (align (frame_of f) b) (fun tb =>
      bind (bin_op name ta tb) (fun t => Ok (NA (ndims f) t))))
  | XTake a idx dim =>
      if wf_named a then
        let k := match dim with
                 | inl d => index_of d (ndims a)
                 | inr z => norm_index (List.length (ndims a)) z      (* list(array.sizes.keys())[dim] *)
                 end in
        match k with
        | None => Err "IndexError"
        | Some k => bind (take_op (nten a) idx (Z.of_nat k)) (fun t =>
                    Ok (NA (match idx with inl _ => remove_at k (ndims a) | inr _ => ndims a end) t))
        end
      else Err "ValueError"
  end.

(* What a back-end does that puts the raw data of the arguments on the new axis under the dimensions of the
   first argument (a 'same sizes' shortcut that does not look at the ORDER of the dimensions) *)
Definition xr_multi_positional (o : redop) (args : list narr) : res narr :=
  match args with
  | [] => Err "IndexError"
  | a :: _ => bind (multi o (map nten args)) (fun t => Ok (NA (ndims a) t))
  end.
