(* Proofs about arrays with named dimensions (Backends/Named.v).
   What is proved:
     * xr_multi_by_name: a multi-argument reduction of XArrayBackend combines, at every named position, the values the
       arguments have AT THAT NAMED POSITION -- whatever order each argument stores its dimensions in;
     * ntranspose_same_values / xr_multi_storage_order_irrelevant: re-storing an argument in another dimension
       order does not change the result;
     * xr_same_order_is_positional: when every argument stores the same dimensions in the same ORDER, matching by
       name is putting the raw data on the new axis (the positional model of Backends/Ops.v is the special case);
     * positional_refuted: equal SIZES are not enough for that: on a square field and its transpose the positional
       combination has the right shape and other values, on a non-square one it cannot be formed at all. *)
From Coq Require Import List NArith ZArith QArith Qcanon String Bool Lia.
From EKW Require Import Backends.Tensor Backends.Ops Backends.OpsProofs Backends.OpsCheck Backends.Named.
Import ListNotations.
Open Scope string_scope.

(* idx is a position inside an array of shape s *)
Definition in_range (s idx : list nat) : Prop := Forall2 lt idx s.

Lemma in_range_length : forall s idx, in_range s idx -> List.length idx = List.length s.
Proof. intros s idx H. induction H; [reflexivity|]. cbn. f_equal. assumption. Qed.

(* ------------------------------------------------------------------ at_ / build / red0 *)
Lemma at_build : forall s f idx, in_range s idx -> at_ (build s f) idx = f idx.
Proof.
  intros s. induction s as [|m r IH]; intros f idx H; inversion H; subst; cbn [build at_].
  - reflexivity.
  - rewrite kid_map_seq by assumption. apply (IH (fun i => f (x :: i))). assumption.
Qed.

Lemma at_nil : forall t, at_ t [] = leafval t.
Proof. reflexivity. Qed.

Lemma at_red0 : forall f s l idx, in_range s idx ->
  at_ (red0 f s l) idx = f (map (fun t => at_ t idx) l).
Proof.
  intros f s. induction s as [|m r IH]; intros l idx H; inversion H; subst; cbn [red0 at_].
  - cbn [leafval]. reflexivity.
  - rewrite kid_map_seq by assumption. rewrite IH by assumption. rewrite map_map. reflexivity.
Qed.

Lemma build_ext : forall s f g, (forall idx, in_range s idx -> f idx = g idx) -> build s f = build s g.
Proof.
  intros s. induction s as [|m r IH]; intros f g H; cbn [build].
  - rewrite H by constructor. reflexivity.
  - f_equal. apply map_ext_in. intros j Hj. apply in_seq in Hj. apply IH.
    intros idx Hi. apply H. constructor; [lia|exact Hi].
Qed.

Lemma build_at : forall s t, conforms s t = true -> build s (at_ t) = t.
Proof.
  intros s. induction s as [|m r IH]; intros t Hc.
  - destruct t; cbn [conforms] in Hc; [|discriminate]. reflexivity.
  - apply conforms_node in Hc as (l & -> & Hlen & Hall). cbn [build]. f_equal.
    rewrite <- Hlen. rewrite <- (map_nth_seq l (Leaf 0%Qc)) at 2.
    apply map_ext_in. intros j Hj. apply in_seq in Hj.
    change (fun idx => at_ (Node l) (j :: idx)) with (at_ (kid j (Node l))).
    unfold kid. cbn [children]. apply IH. rewrite Forall_forall in Hall. apply Hall. apply nth_In. lia.
Qed.

(* ------------------------------------------------------------------ environments *)
Lemma mem_In : forall d l, mem d l = true -> In d l.
Proof.
  intros d l H. unfold mem in H. apply existsb_exists in H as (x & Hx & E).
  apply String.eqb_eq in E. subst. exact Hx.
Qed.

Lemma nodupb_NoDup : forall l, nodupb l = true -> NoDup l.
Proof.
  induction l as [|d r IH]; intros H; [constructor|]. cbn [nodupb] in H. apply andb_prop in H as [H1 H2].
  constructor; [|apply IH; exact H2]. intros Hin. apply negb_true_iff in H1.
  assert (mem d r = true) as Hm; [|congruence].
  unfold mem. apply existsb_exists. exists d. split; [exact Hin|apply String.eqb_refl].
Qed.

(* reading the positions of an environment back from the environment they were put in *)
Lemma pos_of_combine : forall names (e : list (string * nat)) d, In d names ->
  pos_of (combine names (map (pos_of e) names)) d = pos_of e d.
Proof.
  induction names as [|n ns IH]; intros e d Hin; [destruct Hin|].
  cbn [map combine]. unfold pos_of at 1. cbn [alookup].
  destruct (String.eqb d n) eqn:E.
  - apply String.eqb_eq in E. subst. reflexivity.
  - destruct Hin as [->|Hin]; [rewrite String.eqb_refl in E; discriminate|].
    apply (IH e d Hin).
Qed.

Lemma pos_of_combine_nodup : forall names idx, NoDup names -> List.length idx = List.length names ->
  map (pos_of (combine names idx)) names = idx.
Proof.
  induction names as [|n ns IH]; intros idx Hnd Hlen; destruct idx as [|i idx]; try discriminate; [reflexivity|].
  inversion Hnd as [|? ? Hnot Hnd']; subst. cbn [combine map]. f_equal.
  - unfold pos_of. cbn [alookup]. rewrite String.eqb_refl. reflexivity.
  - rewrite <- (IH idx Hnd') at 2 by (cbn in Hlen; lia).
    apply map_ext_in. intros d Hd. unfold pos_of. cbn [alookup].
    destruct (String.eqb d n) eqn:E; [|reflexivity].
    apply String.eqb_eq in E. subst. contradiction.
Qed.

Lemma map_fst_combine : forall (A B : Type) (l : list A) (m : list B),
  List.length l = List.length m -> map fst (combine l m) = l.
Proof.
  intros A B l. induction l as [|x l IH]; intros [|y m] H; try discriminate; [reflexivity|].
  cbn. f_equal. apply IH. cbn in H. lia.
Qed.

Lemma map_snd_combine : forall (A B : Type) (l : list A) (m : list B),
  List.length l = List.length m -> map snd (combine l m) = m.
Proof.
  intros A B l. induction l as [|x l IH]; intros [|y m] H; try discriminate; [reflexivity|].
  cbn. f_equal. apply IH. cbn in H. lia.
Qed.

(* ------------------------------------------------------------------ align *)
Lemma align_ok : forall tgt a t, align tgt a = Ok t ->
  wf_named a = true /\ nodupb (map fst tgt) = true /\ fits tgt a = true /\
  t = T (tshape tgt a) (build (tshape tgt a) (fun idx => nget a (combine (map fst tgt) idx))).
Proof.
  intros tgt a t H. unfold align in H.
  destruct (wf_named a) eqn:E1; [|discriminate]. destruct (nodupb (map fst tgt)) eqn:E2; [|discriminate].
  destruct (fits tgt a) eqn:E3; [|discriminate]. cbn in H. inversion H. repeat split; reflexivity.
Qed.

(* an aligned array has, at every position of the frame, the value the argument has at that NAMED position *)
Lemma nget_align : forall tgt a t (e : list (string * nat)), align tgt a = Ok t ->
  in_range (tshape tgt a) (map (pos_of e) (map fst tgt)) ->
  at_ (body t) (map (pos_of e) (map fst tgt)) = nget a e.
Proof.
  intros tgt a t e H Hr. apply align_ok in H as (_ & _ & Hfit & ->). cbn [body].
  rewrite at_build by exact Hr. unfold nget. f_equal. apply map_ext_in. intros d Hd.
  apply pos_of_combine. unfold fits in Hfit. apply andb_prop in Hfit as [Hsub _].
  rewrite forallb_forall in Hsub. apply mem_In. apply Hsub. exact Hd.
Qed.

Lemma wf_named_len : forall a, wf_named a = true -> List.length (ndims a) = List.length (shape (nten a)).
Proof. intros a H. unfold wf_named in H. apply andb_prop in H as [_ H]. apply Nat.eqb_eq. exact H. Qed.

Lemma frame_of_names : forall a, wf_named a = true -> map fst (frame_of a) = ndims a.
Proof.
  intros a H. unfold frame_of, sizes. rewrite map_map. cbn [fst].
  change (fun x : string * nat => fst x) with (@fst string nat).
  apply map_fst_combine. apply wf_named_len. exact H.
Qed.

Lemma tshape_frame_of : forall a x, wf_named a = true -> tshape (frame_of a) x = shape (nten a).
Proof.
  intros a x H. unfold tshape, frame_of, sizes. rewrite map_map. cbn [fst snd].
  change (fun x0 : string * nat => snd x0) with (@snd string nat).
  apply map_snd_combine. apply wf_named_len. exact H.
Qed.

(* ------------------------------------------------------------------ multi-argument reductions by name *)
Lemma multi_ok_form : forall o ts t, multi o ts = Ok t ->
  exists s, common_shape ts = Some s /\ t = T s (red0 (rf o) s (map body ts)).
Proof.
  intros o ts t H. unfold multi, stack0 in H. destruct (common_shape ts) as [s|] eqn:E; [|discriminate].
  cbn [bind] in H. unfold reduce_axis in H. cbn [shape List.length Nat.ltb Nat.leb firstn skipn body] in H.
  destruct (red_ax_err (rerr o) [] s (Node (map body ts))); [discriminate|].
  inversion H. exists s. split; reflexivity.
Qed.

Lemma aligned_values : forall tgt args ts (e : list (string * nat)) s,
  Forall2 (fun x t => align tgt x = Ok t) args ts ->
  Forall (fun x => tshape tgt x = s) args ->
  in_range s (map (pos_of e) (map fst tgt)) ->
  map (fun t => at_ t (map (pos_of e) (map fst tgt))) (map body ts) = map (fun x => nget x e) args.
Proof.
  intros tgt args ts e s H. induction H as [|x t args ts Hx _ IH]; intros Hs Hr; [reflexivity|].
  inversion Hs as [|? ? Hsx Hs']; subst. cbn [map]. f_equal.
  - apply nget_align; [exact Hx|exact Hr].
  - apply IH; assumption.
Qed.

Theorem xr_multi_by_name : forall o a rest r,
  xr_multi o (a :: rest) = Ok r ->
  ndims r = ndims a /\
  forall e : list (string * nat), in_range (shape (nten a)) (map (pos_of e) (ndims a)) ->
    nget r e = rf o (map (fun x => nget x e) (a :: rest)).
Proof.
  intros o a rest r H. unfold xr_multi in H.
  destruct (mapM (align (frame_of a)) (a :: rest)) as [ts|] eqn:Ets; [|discriminate]. cbn [bind] in H.
  destruct (multi o ts) as [t|] eqn:Em; [|discriminate]. cbn [bind] in H. inversion H; subst r. clear H.
  split; [reflexivity|]. intros e Hr.
  apply mapM_ok_forall2 in Ets.
  assert (wf_named a = true) as Hwf.
  { inversion Ets as [|? t0 ? ? Ha _]; subst. apply align_ok in Ha as (Hw & _). exact Hw. }
  apply multi_ok_form in Em as (s & Hs & ->).
  assert (s = shape (nten a)) as ->.
  { apply common_shape_some in Hs as [_ Hs]. inversion Ets as [|? t0 ? ? Ha _]; subst.
    inversion Hs as [|? ? Ht0 _]; subst. apply align_ok in Ha as (_ & _ & _ & ->). cbn [shape].
    apply tshape_frame_of. exact Hwf. }
  unfold nget at 1. cbn [nten ndims body].
  rewrite at_red0 by exact Hr. f_equal.
  rewrite <- (frame_of_names a Hwf). apply aligned_values with (s := shape (nten a)).
  - exact Ets.
  - apply Forall_forall. intros x _. apply tshape_frame_of. exact Hwf.
  - rewrite (frame_of_names a Hwf). exact Hr.
Qed.

(* DataArray.transpose: the same values at the same named positions *)
Theorem ntranspose_same_values : forall names a a' (e : list (string * nat)),
  ntranspose names a = Ok a' ->
  in_range (shape (nten a')) (map (pos_of e) names) ->
  ndims a' = names /\ nget a' e = nget a e.
Proof.
  intros names a a' e H Hr. unfold ntranspose in H.
  destruct (Nat.eqb (List.length names) (List.length (ndims a))); [|discriminate].
  destruct (align (frame_names names) a) as [t|] eqn:Ea; [|discriminate]. cbn [bind] in H. inversion H; subst a'.
  split; [reflexivity|]. cbn [nten ndims] in *. unfold nget at 1. cbn [nten ndims].
  assert (map fst (frame_names names) = names) as Hn.
  { unfold frame_names. rewrite map_map. cbn [fst]. apply map_id. }
  rewrite <- Hn. apply nget_align; [exact Ea|]. rewrite Hn.
  pose proof Ea as Ea'. apply align_ok in Ea' as (_ & _ & _ & ->). exact Hr.
Qed.

(* the result of a multi-argument reduction does not depend on how the arguments after the first store their data,
   only on their values at every named position (the first argument fixes the ORDER of the result's dimensions) *)
Theorem xr_multi_storage_order_irrelevant : forall o a rest rest' r r',
  xr_multi o (a :: rest) = Ok r -> xr_multi o (a :: rest') = Ok r' ->
  forall e : list (string * nat), in_range (shape (nten a)) (map (pos_of e) (ndims a)) ->
  Forall2 (fun x x' => nget x e = nget x' e) rest rest' ->
  nget r e = nget r' e.
Proof.
  intros o a rest rest' r r' H H' e Hr HF.
  apply xr_multi_by_name in H as [_ H]. apply xr_multi_by_name in H' as [_ H'].
  assert (map (fun x => nget x e) rest = map (fun x => nget x e) rest') as E.
  { clear H H'. induction HF as [|x x' l l' Hx _ IH]; [reflexivity|]. cbn [map]. rewrite Hx, IH. reflexivity. }
  rewrite (H e Hr), (H' e Hr). cbn [map]. rewrite E. reflexivity.
Qed.

(* ------------------------------------------------------------------ the same ORDER: by name = by position *)
Lemma align_same_order : forall a x t,
  align (frame_of a) x = Ok t -> wf_named a = true ->
  ndims x = ndims a -> shape (nten x) = shape (nten a) -> valid (nten x) -> t = nten x.
Proof.
  intros a x t H Hwf Hd Hs Hv. apply align_ok in H as (Hwx & Hnd & _ & ->).
  rewrite (tshape_frame_of a x Hwf). rewrite (frame_of_names a Hwf) in *.
  destruct x as [dx [sx bx]]. cbn [ndims nten shape body] in *. subst dx sx. f_equal.
  transitivity (build (shape (nten a)) (at_ bx)); [|apply build_at; exact Hv]. apply build_ext. intros idx Hi.
  unfold nget. cbn [ndims nten body]. f_equal. apply pos_of_combine_nodup.
  - apply nodupb_NoDup. exact Hnd.
  - apply in_range_length in Hi. rewrite Hi. symmetry. apply wf_named_len in Hwf. exact Hwf.
Qed.

Theorem xr_same_order_is_positional : forall o a rest r,
  Forall (fun x => ndims x = ndims a /\ shape (nten x) = shape (nten a) /\ valid (nten x)) (a :: rest) ->
  xr_multi o (a :: rest) = Ok r -> xr_multi_positional o (a :: rest) = Ok r.
Proof.
  intros o a rest r HF H. unfold xr_multi in H. unfold xr_multi_positional.
  destruct (mapM (align (frame_of a)) (a :: rest)) as [ts|] eqn:Ets; [|discriminate]. cbn [bind] in H.
  apply mapM_ok_forall2 in Ets.
  assert (wf_named a = true) as Hwf.
  { inversion Ets as [|? t0 ? ? Ha _]; subst. apply align_ok in Ha as (Hw & _). exact Hw. }
  assert (ts = map nten (a :: rest)) as ->; [|exact H].
  clear H. revert HF. induction Ets as [|x t l ts Hx _ IH]; intros HF; [reflexivity|].
  inversion HF as [|? ? (H1 & H2 & H3) HF']; subst. cbn [map]. f_equal.
  - apply (align_same_order a x t Hx Hwf H1 H2 H3).
  - apply IH. exact HF'.
Qed.

(* ------------------------------------------------------------------ equal SIZES are not enough *)
Definition tz (s : list nat) (d : list Z) : tensor := T s (unflat s (map (fun z => Q2Qc (inject_Z z)) d)).
Definition o_sum : redop := {| rf := qsum; rerr := always |}.

(* a 2x2 field and a field of the same sizes stored transposed; a 2x3 field and one stored as 3x2 *)
Definition sq_a : narr := NA ["x"; "y"] (tz [2; 2]%nat [1; 2; 3; 4]%Z).
Definition sq_b : narr := NA ["y"; "x"] (tz [2; 2]%nat [10; 30; 20; 40]%Z).     (* = [[10,20],[30,40]] over (x, y) *)
Definition ns_a : narr := NA ["x"; "y"] (tz [2; 3]%nat [1; 2; 3; 4; 5; 6]%Z).
Definition ns_b : narr := NA ["y"; "x"] (tz [3; 2]%nat [10; 40; 20; 50; 30; 60]%Z).

Definition same_sizes (a b : narr) : bool :=
  Nat.eqb (List.length (sizes a)) (List.length (sizes b)) &&
  forallb (fun p : string * nat => match alookup (fst p) (sizes b) with Some m => Nat.eqb m (snd p) | None => false end) (sizes a).

Definition values_of (r : res narr) : option (list string * list nat * list Qc) :=
  match r with Ok a => Some (ndims a, shape (nten a), leaves (shape (nten a)) (body (nten a))) | Err _ => None end.

Definition qz' (z : Z) : Qc := Q2Qc (inject_Z z).

Theorem positional_refuted :
  (* the sizes agree as MAPPINGS name -> length (what `a.sizes == b.sizes` compares) ... *)
  same_sizes sq_a sq_b = true /\ same_sizes ns_a ns_b = true /\
  (* ... by name: [[11,22],[33,44]]; by position: the same shape, other values *)
  values_of (xr_multi o_sum [sq_a; sq_b]) = Some (["x"; "y"], [2; 2]%nat, map qz' [11; 22; 33; 44]%Z) /\
  values_of (xr_multi_positional o_sum [sq_a; sq_b]) = Some (["x"; "y"], [2; 2]%nat, map qz' [11; 32; 23; 44]%Z) /\
  (* ... not square: by name defined, by position no array at all *)
  values_of (xr_multi o_sum [ns_a; ns_b]) = Some (["x"; "y"], [2; 3]%nat, map qz' [11; 22; 33; 44; 55; 66]%Z) /\
  values_of (xr_multi_positional o_sum [ns_a; ns_b]) = None.
Proof. vm_compute. repeat split; reflexivity. Qed.

(* the hypotheses of the theorems above are satisfiable: a transposed copy, an environment in range *)
Example named_nonvacuous :
  (exists b', ntranspose ["x"; "y"] sq_b = Ok b' /\ ndims b' = ["x"; "y"] /\
              in_range (shape (nten b')) (map (pos_of [("x", 1%nat); ("y", 0%nat)]) ["x"; "y"]) /\
              nget b' [("x", 1%nat); ("y", 0%nat)] = qz' 30 /\ nget sq_b [("x", 1%nat); ("y", 0%nat)] = qz' 30) /\
  (exists r, xr_multi o_sum [sq_a; sq_b] = Ok r /\
             in_range (shape (nten sq_a)) (map (pos_of [("x", 1%nat); ("y", 0%nat)]) (ndims sq_a)) /\
             nget r [("x", 1%nat); ("y", 0%nat)] = qz' 33) /\
  Forall (fun x => ndims x = ndims sq_a /\ shape (nten x) = shape (nten sq_a) /\ valid (nten x)) [sq_a; sq_a].
Proof.
  split; [|split].
  - eexists. split; [vm_compute; reflexivity|]. split; [reflexivity|]. split; [repeat constructor|].
    split; vm_compute; reflexivity.
  - eexists. split; [vm_compute; reflexivity|]. split; [repeat constructor|]. vm_compute. reflexivity.
  - repeat constructor.
Qed.
