(* The operations of earthkit.workflows.backends as functions on exact tensors.
   `apply` is the reference ("what NumPy gives on exact data"); both back-ends
   (ArrayAPIBackend on numpy arrays, XArrayBackend on DataArray / Dataset variables) are
   compared with it value by value on every run (harness/c15.py).
   Transcribed control flow:
     * _xp_multi_args / multi_arg_function: more than one argument => the arguments are
       stacked on a NEW LEADING axis and that axis is reduced (any axis/dim keyword is
       overridden); exactly one argument => the reduction is applied inside the array along
       `axis` (all elements if none);
     * stack / concat / take / two-argument arithmetic.
   Outside the model (an `Err` the generated cases never reach, named here):
   floating-point rounding, NaN/inf (division by zero, mean of nothing), integer
   wrap-around, general NumPy broadcasting (only equal shapes or a 0-d operand). *)
From Coq Require Import List NArith ZArith QArith Qcanon String Bool Lia.
From EKW Require Import Backends.Tensor.
Import ListNotations.
Open Scope string_scope.

(* ------------------------------------------------------------------ scalar functions *)
Definition fold1 (op : Qc -> Qc -> Qc) (d : Qc) (l : list Qc) : Qc :=
  match l with [] => d | x :: r => fold_left op r x end.

Definition qle (a b : Qc) : bool := match (a ?= b)%Qc with Gt => false | _ => true end.
Definition qmin (a b : Qc) : Qc := if qle a b then a else b.
Definition qmax (a b : Qc) : Qc := if qle a b then b else a.

Definition qnat (n : nat) : Qc := Q2Qc (inject_Z (Z.of_nat n)).
Definition qsum (l : list Qc) : Qc := fold1 Qcplus 0%Qc l.
Definition qprod (l : list Qc) : Qc := fold1 Qcmult 1%Qc l.
Definition qmean (l : list Qc) : Qc := (qsum l / qnat (List.length l))%Qc.
(* numpy.var, ddof = 0: mean of squared deviations from the mean *)
Definition qvar (l : list Qc) : Qc :=
  let m := qmean l in qmean (map (fun x => ((x - m) * (x - m))%Qc) l).

(* exact square root of a rational, when it has one *)
Definition qsqrt (q : Qc) : option Qc :=
  let n := Qnum q in
  let d := Qden q in
  let sn := Z.sqrt n in
  let sd := Pos.sqrt d in
  if ((sn * sn =? n)%Z && (sd * sd =? d)%positive)%bool then Some (Q2Qc (sn # sd)) else None.
Definition qstd (l : list Qc) : Qc := match qsqrt (qvar l) with Some r => r | None => 0%Qc end.

Record redop : Type := { rf : list Qc -> Qc; rerr : list Qc -> option string }.

Definition always (_ : list Qc) : option string := None.
Definition nonempty (e : string) (l : list Qc) : option string := match l with [] => Some e | _ => None end.

Definition redop_of (name : string) : option redop :=
  if name =? "sum" then Some {| rf := qsum; rerr := always |}
  else if name =? "prod" then Some {| rf := qprod; rerr := always |}
  else if name =? "min" then Some {| rf := fold1 qmin 0%Qc; rerr := nonempty "ValueError" |}
  else if name =? "max" then Some {| rf := fold1 qmax 0%Qc; rerr := nonempty "ValueError" |}
  else if name =? "mean" then Some {| rf := qmean; rerr := nonempty "NaN-outside-model" |}
  else if name =? "var" then Some {| rf := qvar; rerr := nonempty "NaN-outside-model" |}
  else if name =? "std" then
    Some {| rf := qstd;
            rerr := fun l => match l with
                             | [] => Some "NaN-outside-model"
                             | _ => match qsqrt (qvar l) with Some _ => None | None => Some "irrational-outside-model" end
                             end |}
  else None.

(* two-argument arithmetic, by NumPy ufunc name *)
Definition qpow (b : Qc) (e : Qc) : Qc :=
  let z := Qnum e in
  if (0 <=? z)%Z then Qcpower b (Z.to_nat z) else (/ Qcpower b (Z.to_nat (- z)))%Qc.

Definition is_zero (q : Qc) : bool := Qeq_bool q 0.

Definition binop_of (name : string) : option ((Qc -> Qc -> Qc) * (Qc -> Qc -> option string)) :=
  let ok := fun _ _ : Qc => @None string in
  if name =? "add" then Some (Qcplus, ok)
  else if name =? "subtract" then Some (Qcminus, ok)
  else if name =? "multiply" then Some (Qcmult, ok)
  else if name =? "divide" then
    Some (Qcdiv, fun _ d => if is_zero d then Some "inf-outside-model" else None)
  else if name =? "power" then
    Some (qpow, fun (b e : Qc) => if negb (Pos.eqb (Qden e) 1) then Some "fractional-exponent-outside-model"
                           else if (is_zero b && (Qnum e <? 0)%Z)%bool then Some "inf-outside-model" else None)
  else None.

(* ------------------------------------------------------------------ shape checks *)
(* Some s: the list is non-empty and every tensor has shape s *)
Definition common_shape (ts : list tensor) : option (list nat) :=
  match ts with
  | [] => None
  | t :: r => if forallb (fun u => shape_eqb (shape u) (shape t)) r then Some (shape t) else None
  end.

(* ------------------------------------------------------------------ operations *)
(* xp.asarray(args) / XArrayBackend.stack(arrays..., dim=NEW): new leading axis *)
Definition stack0 (ts : list tensor) : res tensor :=
  match common_shape ts with
  | Some s => Ok (T (List.length ts :: s) (Node (map body ts)))
  | None => Err "ValueError"
  end.

Definition reduce_axis (o : redop) (ax : nat) (t : tensor) : res tensor :=
  let s := shape t in
  if Nat.ltb ax (List.length s) then
    let pre := firstn ax s in
    let rest := skipn (S ax) s in
    match red_ax_err (rerr o) pre rest (body t) with
    | Some e => Err e
    | None => Ok (T (pre ++ rest) (red_ax (rf o) pre rest (body t)))
    end
  else Err "AxisError".

Definition reduce_all (o : redop) (t : tensor) : res tensor :=
  let vs := leaves (shape t) (body t) in
  match rerr o vs with
  | Some e => Err e
  | None => Ok (T [] (Leaf (rf o vs)))
  end.

(* more than one argument: stack on a new leading axis, reduce that axis *)
Definition multi (o : redop) (ts : list tensor) : res tensor := bind (stack0 ts) (reduce_axis o 0).

Definition reduce_op (name : string) (ts : list tensor) (axis : option Z) : res tensor :=
  match redop_of name with
  | None => Err "AttributeError"
  | Some o =>
      match ts with
      | [] => Err "IndexError"
      | [t] => match axis with
               | None => reduce_all o t
               | Some a => match norm_index (List.length (shape t)) a with
                           | Some k => reduce_axis o k t
                           | None => Err "AxisError"
                           end
               end
      | _ => multi o ts
      end
  end.

Definition stack_op (ts : list tensor) (axis : Z) : res tensor :=
  match common_shape ts with
  | None => Err "ValueError"
  | Some s =>
      match norm_index (S (List.length s)) axis with
      | None => Err "AxisError"
      | Some a => Ok (T (insert_nth a (List.length ts) s) (stack_ax (firstn a s) (map body ts)))
      end
  end.

(* every shape equals the first one except at position a *)
Definition agree_except (a : nat) (s0 s : list nat) : bool := shape_eqb (set_nth a 0%nat s) (set_nth a 0%nat s0).

Definition concat_op (ts : list tensor) (axis : Z) : res tensor :=
  match ts with
  | [] => Err "ValueError"
  | t :: _ =>
      let s := shape t in
      match norm_index (List.length s) axis with
      | None => Err "AxisError"
      | Some a =>
          if forallb (fun u => agree_except a s (shape u)) ts then
            Ok (T (set_nth a (list_sum (map (fun u => nth a (shape u) 0%nat) ts)) s)
                  (concat_ax (firstn a s) (map body ts)))
          else Err "ValueError"
      end
  end.

Fixpoint norm_all (n : nat) (l : list Z) : option (list nat) :=
  match l with
  | [] => Some []
  | i :: r => match norm_index n i, norm_all n r with
              | Some k, Some ks => Some (k :: ks)
              | _, _ => None
              end
  end.

Definition take_op (t : tensor) (idx : Z + list Z) (axis : Z) : res tensor :=
  let s := shape t in
  match norm_index (List.length s) axis with
  | None => Err "AxisError"
  | Some a =>
      let n := nth a s 0%nat in
      match idx with
      | inl i => match norm_index n i with
                 | Some k => Ok (T (remove_nth a s) (take_int_ax (firstn a s) k (body t)))
                 | None => Err "IndexError"
                 end
      | inr l => match norm_all n l with
                 | Some ks => Ok (T (set_nth a (List.length ks) s) (take_ax (firstn a s) ks (body t)))
                 | None => Err "IndexError"
                 end
      end
  end.

Definition bin_op (name : string) (a b : tensor) : res tensor :=
  match binop_of name with
  | None => Err "AttributeError"
  | Some (op, d) =>
      let go := fun s x y => match ew2_err d s x y with
                             | Some e => Err e
                             | None => Ok (T s (ew2 op s x y))
                             end in
      if shape_eqb (shape a) (shape b) then go (shape a) (body a) (body b)
      else match shape b, shape a with
           | [], s => go s (body a) (full s (leafval (body b)))
           | s, [] => go s (full s (leafval (body a))) (body b)
           | _, _ => Err "broadcast-outside-model"
           end
  end.

Inductive call : Type :=
| CReduce (name : string) (args : list tensor) (axis : option Z)
| CStack (args : list tensor) (axis : Z)
| CConcat (args : list tensor) (axis : Z)
| CBin (name : string) (a b : tensor)
| CTake (a : tensor) (idx : Z + list Z) (axis : Z).

Definition apply (c : call) : res tensor :=
  match c with
  | CReduce n ts ax => reduce_op n ts ax
  | CStack ts ax => stack_op ts ax
  | CConcat ts ax => concat_op ts ax
  | CBin n a b => bin_op n a b
  | CTake a i ax => take_op a i ax
  end.

(* ------------------------------------------------------------------ what the source says *)
(* how a back-end method is implemented (regenerated from the source: gen/Batchable.v) *)
Inductive impl : Type :=
| IReduce (fname : string)   (* _xp_multi_args(fname, ...) / multi_arg_function(fname, ...) *)
| IBin (fname : string)      (* args[0] <op> args[1] / two_arg_function(fname, ...) *)
| INative                    (* own code: meaning = the method's own name *)
| IOther (what : string).    (* not understood *)

(* the multi-argument function a Backend method denotes, with its keyword arguments fixed *)
Inductive mfun : Type :=
| MReduce (fname : string)
| MStack
| MConcat.

Definition mfun_of (method : string) (i : impl) : option mfun :=
  match i with
  | IReduce f => match redop_of f with Some _ => Some (MReduce f) | None => None end
  | INative => if method =? "concat" then Some MConcat else if method =? "stack" then Some MStack else None
  | _ => None
  end.

(* keyword argument = the axis (ignored by reductions of more than one argument) *)
Definition denote (m : mfun) (axis : Z) (ts : list tensor) : res tensor :=
  match m with
  | MReduce f => reduce_op f ts (Some axis)
  | MStack => stack_op ts axis
  | MConcat => concat_op ts axis
  end.
