(* Executable checker used by the correspondence harness (harness/c15.py): the model is run
   on the same call as the implementation and compared with the observed result.
   Glue (trusted with the harness): flat row-major data -> nested body, exact rational
   comparison with a tolerance supplied by the harness (0 = exact). *)
From Coq Require Import List NArith ZArith QArith Qcanon Qabs String Bool.
From EKW Require Import Backends.Tensor Backends.Ops.
Import ListNotations.

Fixpoint chunks {A} (cnt k : nat) (l : list A) : list (list A) :=
  match cnt with
  | O => []
  | S c => firstn k l :: chunks c k (skipn k l)
  end.

Definition prod_shape (s : list nat) : nat := fold_right Nat.mul 1%nat s.

Fixpoint unflat (s : list nat) (l : list Qc) : nd :=
  match s with
  | [] => Leaf (hd 0%Qc l)
  | m :: r => Node (map (unflat r) (chunks m (prod_shape r) l))
  end.

Definition qz (p : Z * Z) : Q := Qmake (fst p) (Z.to_pos (snd p)).

(* tensor from shape + flat data given as numerator/denominator pairs *)
Definition tq (s : list nat) (d : list (Z * Z)) : tensor := T s (unflat s (map (fun p => Q2Qc (qz p)) d)).
(* tensor from shape + integer data *)
Definition ti (s : list nat) (d : list Z) : tensor := T s (unflat s (map (fun z => Q2Qc (inject_Z z)) d)).

Definition wf_input (t : tensor) : bool :=
  conforms (shape t) (body t) && Nat.eqb (List.length (leaves (shape t) (body t))) (prod_shape (shape t)).

Definition inputs_of (c : call) : list tensor :=
  match c with
  | CReduce _ ts _ => ts
  | CStack ts _ => ts
  | CConcat ts _ => ts
  | CBin _ a b => [a; b]
  | CTake a _ _ => [a]
  end.

Inductive obs : Type :=
| OVal (s : list nat) (d : list (Z * Z))
| OInt (s : list nat) (d : list Z)
| OErr (exc : string).

Definition close (rtol atol : Q) (m : Qc) (o : Q) : bool :=
  Qle_bool (Qabs (o - m)) (atol + rtol * Qabs m).

Fixpoint all2 {A B} (f : A -> B -> bool) (a : list A) (b : list B) : bool :=
  match a, b with
  | [], [] => true
  | x :: xs, y :: ys => f x y && all2 f xs ys
  | _, _ => false
  end.

Definition outside (e : string) : bool :=
  let suffix := "outside-model"%string in
  let n := String.length e in
  let k := String.length suffix in
  if Nat.ltb n k then false else String.eqb (substring (n - k) k e) suffix.

Definition cmp (r : res tensor) (sq : bool) (s : list nat) (d : list Q) (rtol atol : Q) : bool :=
  match r with
  | Ok t => shape_eqb (shape t) s && conforms (shape t) (body t)
            && all2 (fun m o => close rtol atol m (if sq then o * o else o) && (negb sq || Qle_bool 0 o))
                    (leaves (shape t) (body t)) d
  | Err _ => false
  end.

(* std: the model is exact, sqrt is not rational; compare the SQUARE of the observation
   with the model's variance *)
Definition check_case (x : call * obs * (Z * Z) * (Z * Z)) : bool :=
  let '(c, o, rt, at_) := x in
  forallb wf_input (inputs_of c) &&
  let '(c', sq) := match c with
                   | CReduce n ts ax => if String.eqb n "std" then (CReduce "var" ts ax, true) else (c, false)
                   | _ => (c, false)
                   end in
  match o with
  | OVal s d => cmp (apply c') sq s (map qz d) (qz rt) (qz at_)
  | OInt s d => cmp (apply c') sq s (map inject_Z d) (qz rt) (qz at_)
  | OErr _ => match apply c' with Err e => negb (outside e) | Ok _ => false end
  end.

(* the batch law evaluated on a concrete partition (same glue as Proofs.batch_apply) *)
Definition batch_apply_c (f : list tensor -> res tensor) (b : list tensor) : res tensor :=
  match b with [t] => Ok t | _ => f b end.

Definition tensor_eqb (a b : tensor) : bool :=
  shape_eqb (shape a) (shape b) &&
  all2 (fun x y => Qc_eq_bool x y) (leaves (shape a) (body a)) (leaves (shape b) (body b)).

Definition res_eqv_b (a b : res tensor) : bool :=
  match a, b with
  | Ok x, Ok y => tensor_eqb x y
  | Err _, Err _ => true
  | _, _ => false
  end.
