(* Proofs about `take` with a list of positions (Backends/Ops.v take_op) and about answering it by a slice
   (Backends/Slice.v):
     * take_list_pointwise : position j of the result is position l[j] of the argument -- the order of the positions
       and their repeats are kept; this determines the result completely;
     * take_run_is_slice / take_fast_sound : a list that IS an ascending run of consecutive positions inside the axis
       selects what the slice first:last+1 selects, so `take` with that shortcut behind the exact guard is `take`;
     * take_fast_ends_refuted / take_fast_unbounded_refuted : behind a guard that looks at first, last and length only,
       or that does not look at the size of the axis, it is not.
   No size bounds anywhere. *)
From Coq Require Import List NArith ZArith QArith Qcanon String Bool Lia.
From EKW Require Import Backends.Tensor Backends.Ops Backends.OpsProofs Backends.Slice Backends.Named.
Import ListNotations.
Open Scope string_scope.
Open Scope list_scope.
Local Notation length := List.length.

(* ------------------------------------------------------------------ lists *)
Lemma map_nth_seq_from : forall (l : list nd) d len lo, (lo + len <= length l)%nat ->
  map (fun i => nth i l d) (seq lo len) = firstn len (skipn lo l).
Proof.
  induction l as [|x l IH]; intros d len lo H; cbn [length] in H.
  - assert (lo = 0%nat) by lia. assert (len = 0%nat) by lia. subst. reflexivity.
  - destruct lo as [|lo].
    + cbn [skipn]. destruct len as [|len]; [reflexivity|].
      cbn [seq map nth firstn]. f_equal.
      rewrite <- seq_shift, map_map. cbn [nth].
      rewrite (IH d len 0%nat) by lia. reflexivity.
    + cbn [skipn]. rewrite <- seq_shift, map_map. cbn [nth]. apply IH. lia.
Qed.

Lemma skipn_S_set_nth : forall a x s, skipn (S a) (set_nth a x s) = skipn (S a) s.
Proof. induction a as [|a IH]; intros x [|y s]; try reflexivity. cbn [set_nth]. change (skipn (S (S a)) (y :: set_nth a x s)) with (skipn (S a) (set_nth a x s)). rewrite IH. reflexivity. Qed.

Lemma remove_nth_set_nth : forall a x s, remove_nth a (set_nth a x s) = remove_nth a s.
Proof. intros a x s. unfold remove_nth. rewrite firstn_set_nth, skipn_S_set_nth. reflexivity. Qed.

Lemma norm_index_nat : forall n j, (j < n)%nat -> norm_index n (Z.of_nat j) = Some j.
Proof.
  intros n j H. unfold norm_index.
  assert (E : ((0 <=? Z.of_nat j)%Z && (Z.of_nat j <? Z.of_nat n)%Z) = true).
  { apply andb_true_iff. split; [apply Z.leb_le|apply Z.ltb_lt]; lia. }
  rewrite E. rewrite Nat2Z.id. reflexivity.
Qed.

Lemma norm_all_run : forall n len lo, (lo + len <= n)%nat -> norm_all n (run lo len) = Some (seq lo len).
Proof.
  intros n len. induction len as [|len IH]; intros lo H; [reflexivity|].
  unfold run in *. cbn [seq map norm_all]. rewrite norm_index_nat by lia. rewrite IH by lia. reflexivity.
Qed.

Lemma norm_all_nth : forall n l ks j, norm_all n l = Some ks -> (j < length l)%nat ->
  length ks = length l /\ norm_index n (nth j l 0%Z) = Some (nth j ks 0%nat).
Proof.
  intros n l. induction l as [|i r IH]; intros ks j H Hj; cbn [length] in Hj; [lia|].
  cbn [norm_all] in H. destruct (norm_index n i) as [k|] eqn:Ek; [|discriminate].
  destruct (norm_all n r) as [ks'|] eqn:Er; [|discriminate]. inversion H; subst ks. clear H.
  destruct j as [|j].
  - split; [|exact Ek]. cbn [length]. f_equal.
    destruct r as [|i' r']; [cbn in Er; inversion Er; reflexivity|].
    apply (IH ks' 0%nat eq_refl). cbn [length]. lia.
  - destruct (IH ks' j eq_refl) as [HL HN]; [lia|]. split; [cbn [length]; lia|exact HN].
Qed.

Lemma norm_all_length : forall n l ks, norm_all n l = Some ks -> length ks = length l.
Proof.
  intros n l. induction l as [|i r IH]; intros ks H; cbn [norm_all] in H.
  - inversion H. reflexivity.
  - destruct (norm_index n i); [|discriminate]. destruct (norm_all n r) as [ks'|]; [|discriminate].
    inversion H. cbn [length]. f_equal. apply IH. reflexivity.
Qed.

(* ------------------------------------------------------------------ nested arrays *)
(* position j of a list-take is the scalar take of the j-th position asked for *)
Lemma take_int_take_ax : forall pre ks t j, (j < length ks)%nat ->
  take_int_ax pre j (take_ax pre ks t) = take_int_ax pre (nth j ks 0%nat) t.
Proof.
  induction pre as [|m p IH]; intros ks t j Hj.
  - cbn [take_ax take_int_ax]. unfold kid at 1. cbn [children].
    rewrite (nth_indep _ _ ((fun i => kid i t) 0%nat)) by (rewrite map_length; exact Hj).
    rewrite (map_nth (fun i => kid i t)). reflexivity.
  - cbn [take_ax take_int_ax children]. f_equal. rewrite map_map.
    apply map_ext. intros c. apply IH. exact Hj.
Qed.

Lemma take_ax_run : forall a s t lo len, conforms s t = true -> (a < length s)%nat ->
  (lo + len <= nth a s 0%nat)%nat ->
  take_ax (firstn a s) (seq lo len) t = slice_ax (firstn a s) lo len t.
Proof.
  induction a as [|a IH]; intros [|m r] t lo len Hc Ha Hn; cbn [length] in Ha; try lia.
  - apply conforms_node in Hc as (l & -> & Hlen & _). cbn [firstn take_ax slice_ax children nth] in *.
    f_equal. unfold kid. cbn [children]. apply map_nth_seq_from. lia.
  - apply conforms_node in Hc as (l & -> & Hlen & Hall). cbn [firstn take_ax slice_ax children nth] in *.
    f_equal. apply map_ext_in. intros c Hin. apply IH; [|lia|exact Hn].
    rewrite Forall_forall in Hall. apply Hall. exact Hin.
Qed.

(* ------------------------------------------------------------------ take with a list of positions *)
(* the size of the result along the axis is the number of positions asked for *)
Theorem take_list_shape : forall t l axis r a,
  take_op t (inr l) axis = Ok r -> norm_index (length (shape t)) axis = Some a ->
  shape r = set_nth a (length l) (shape t).
Proof.
  intros t l axis r a H Ha. unfold take_op in H. rewrite Ha in H.
  destruct (norm_all (nth a (shape t) 0%nat) l) as [ks|] eqn:E; [|discriminate].
  inversion H. cbn [shape]. rewrite (norm_all_length _ _ _ E). reflexivity.
Qed.

(* ... and position j of the result is position l[j] of the argument: the positions are answered one by one, in the
   order given, a repeated position as often as it is given *)
Theorem take_list_pointwise : forall t l axis r j,
  take_op t (inr l) axis = Ok r -> (j < length l)%nat ->
  take_op r (inl (Z.of_nat j)) axis = take_op t (inl (nth j l 0%Z)) axis.
Proof.
  intros t l axis r j H Hj. unfold take_op in *.
  destruct (norm_index (length (shape t)) axis) as [a|] eqn:Ha; [|discriminate].
  pose proof (norm_index_lt _ _ _ Ha) as Hlt.
  destruct (norm_all (nth a (shape t) 0%nat) l) as [ks|] eqn:E; [|discriminate].
  destruct (norm_all_nth _ _ _ j E Hj) as [HL HN].
  inversion H. subst r. clear H. cbn [shape body].
  rewrite set_nth_length, Ha. rewrite nth_set_nth by exact Hlt.
  rewrite norm_index_nat by lia. rewrite HN.
  rewrite remove_nth_set_nth, firstn_set_nth. rewrite take_int_take_ax by lia. reflexivity.
Qed.

Lemma take_list_rank : forall t l axis r, take_op t (inr l) axis = Ok r -> length (shape r) = length (shape t).
Proof.
  intros t l axis r H. unfold take_op in H.
  destruct (norm_index (length (shape t)) axis) as [a|]; [|discriminate].
  destruct (norm_all (nth a (shape t) 0%nat) l) as [ks|]; [|discriminate].
  inversion H. cbn [shape]. apply set_nth_length.
Qed.

(* the same for XArrayBackend.take (dimension given by name): the result keeps the dimensions of the argument, and
   selecting position j of it along the dimension is selecting position l[j] of the argument *)
Theorem xr_take_list_pointwise : forall a l d r j,
  xr_apply (XTake a (inr l) (inl d)) = Ok r -> (j < length l)%nat ->
  ndims r = ndims a /\
  xr_apply (XTake r (inl (Z.of_nat j)) (inl d)) = xr_apply (XTake a (inl (nth j l 0%Z)) (inl d)).
Proof.
  intros a l d r j H Hj. unfold xr_apply in *.
  destruct (wf_named a) eqn:W; [|discriminate].
  destruct (index_of d (ndims a)) as [k|] eqn:K; [|discriminate].
  destruct (take_op (nten a) (inr l) (Z.of_nat k)) as [t|e] eqn:HT; [|discriminate].
  cbn [bind] in H. inversion H. subst r. clear H. cbn [ndims nten]. split; [reflexivity|].
  assert (W' : wf_named (NA (ndims a) t) = true).
  { unfold wf_named in *. cbn [ndims nten]. rewrite (take_list_rank _ _ _ _ HT). exact W. }
  rewrite W', K. rewrite (take_list_pointwise _ _ _ _ _ HT Hj). reflexivity.
Qed.

(* ------------------------------------------------------------------ ... answered by a slice *)
Theorem take_run_is_slice : forall t axis a lo len,
  valid t -> norm_index (length (shape t)) axis = Some a -> (lo + len <= nth a (shape t) 0%nat)%nat ->
  take_op t (inr (run lo len)) axis = slice_op t lo (lo + len) axis.
Proof.
  intros t axis a lo len Hv Ha Hn. unfold take_op, slice_op. rewrite Ha.
  rewrite norm_all_run by exact Hn. rewrite seq_length.
  rewrite (Nat.min_l (lo + len)) by exact Hn. rewrite (Nat.min_l lo) by lia.
  replace (lo + len - lo)%nat with len by lia.
  rewrite take_ax_run; [reflexivity|exact Hv|exact (norm_index_lt _ _ _ Ha)|exact Hn].
Qed.

Lemma zlast_run : forall len lo, zlast (run lo (S len)) = Z.of_nat (lo + len).
Proof.
  unfold zlast, run. induction len as [|len IH]; intros lo.
  - cbn. f_equal. lia.
  - replace (lo + S len)%nat with (S lo + len)%nat by lia. rewrite <- IH. reflexivity.
Qed.

Lemma is_run_inv : forall l, is_run l = true ->
  exists lo len, l = run lo (S (S len)) /\ hd 0%Z l = Z.of_nat lo /\ zlast l = Z.of_nat (lo + S len).
Proof.
  intros l H. unfold is_run in H. destruct l as [|f [|g r]]; try discriminate.
  apply andb_prop in H as [H0 H1]. apply Z.leb_le in H0.
  unfold zlist_eqb in H1. destruct (list_eq_dec Z.eq_dec _ _) as [E|]; [|discriminate].
  cbn [length] in E. exists (Z.to_nat f), (length r). split; [exact E|].
  split; [cbn [hd]; lia|]. rewrite E at 1. apply zlast_run.
Qed.

(* the shortcut behind the exact guard (an ascending run of consecutive positions that ends inside the axis) is take:
   same value, same errors, for every index argument *)
Theorem take_fast_sound : forall t idx axis, valid t ->
  take_fast is_run_within t idx axis = take_op t idx axis.
Proof.
  intros t [i|l] axis Hv; [reflexivity|]. unfold take_fast.
  destruct (norm_index (length (shape t)) axis) as [a|] eqn:Ha.
  - destruct (is_run_within (nth a (shape t) 0%nat) l) eqn:G; [|reflexivity].
    unfold is_run_within in G. apply andb_prop in G as [G1 G2]. apply Z.ltb_lt in G2.
    destruct (is_run_inv l G1) as (lo & len & El & Eh & Ez). rewrite Eh, Ez. rewrite Ez in G2. rewrite El.
    rewrite Nat2Z.id. replace (Z.to_nat (Z.of_nat (lo + S len) + 1)) with (lo + S (S len))%nat by lia.
    symmetry. apply take_run_is_slice with (a := a); [exact Hv|exact Ha|lia].
  - destruct (is_run_within 0 l); [|reflexivity]. unfold slice_op, take_op. rewrite Ha. reflexivity.
Qed.

(* every run has the ends and the length of a run ... *)
Theorem is_run_ends_like_run : forall l, is_run l = true -> ends_like_run l = true.
Proof.
  intros l H. destruct (is_run_inv l H) as (lo & len & El & Eh & Ez).
  unfold ends_like_run. destruct l as [|f [|g r]]; try discriminate. cbn [hd] in Eh. subst f.
  rewrite Ez. apply andb_true_iff. split; [apply Z.leb_le; lia|]. apply Z.eqb_eq.
  rewrite El. unfold run. rewrite map_length, seq_length. lia.
Qed.

(* ... but so do a permuted run and a run with a position repeated: behind the guard that looks at first, last and
   length only, the shortcut returns other values than take (ascending and distinct instead of the order and the
   repeats asked for), on positions all inside the axis *)
Definition v5 : tensor := T [5%nat] (Node (map (fun z => Leaf (Q2Qc (inject_Z z))) [10; 11; 12; 13; 14]%Z)).

Theorem take_fast_ends_refuted :
  valid v5 /\
  Forall (fun l : list Z =>
            ends_like_run l = true /\ is_run l = false /\
            exists r r', take_op v5 (inr l) 0%Z = Ok r /\ take_fast (fun _ => ends_like_run) v5 (inr l) 0%Z = Ok r' /\
                         shape r = shape r' /\ r <> r')
         [[0; 2; 1; 3]; [1; 1; 3]; [0; 0; 2]; [1; 3; 2; 4]]%Z.
Proof.
  split; [reflexivity|].
  repeat constructor; try (vm_compute; reflexivity);
    (eexists; eexists; split; [vm_compute; reflexivity|]; split; [vm_compute; reflexivity|]; split; [reflexivity|]; vm_compute; discriminate).
Qed.

(* and a guard that does not look at the size of the axis answers where take raises: a slice clamps *)
Theorem take_fast_unbounded_refuted :
  is_run [3; 4; 5]%Z = true /\ take_op v5 (inr [3; 4; 5]%Z) 0%Z = Err "IndexError" /\
  exists r, take_fast (fun _ => is_run) v5 (inr [3; 4; 5]%Z) 0%Z = Ok r /\ shape r = [2%nat].
Proof. split; [reflexivity|]. split; [vm_compute; reflexivity|]. eexists. split; vm_compute; reflexivity. Qed.

(* non-vacuity: a run inside the axis, answered by take and by the slice alike; the pointwise law on a list that is not a run *)
Example slice_nonvacuous :
  valid v5 /\ norm_index (length (shape v5)) (-1)%Z = Some 0%nat /\ (1 + 3 <= nth 0 (shape v5) 0)%nat /\
  is_run_within 5 (run 1 3) = true /\
  (exists r, take_op v5 (inr (run 1 3)) (-1)%Z = Ok r /\ slice_op v5 1 4 (-1)%Z = Ok r /\ shape r = [3%nat]) /\
  (exists r, take_op v5 (inr [4; -5; 4]%Z) 0%Z = Ok r /\
             take_op r (inl 1%Z) 0%Z = take_op v5 (inl (-5)%Z) 0%Z /\ take_op r (inl 1%Z) 0%Z = Ok (T [] (Leaf (Q2Qc (inject_Z 10))))).
Proof.
  split; [reflexivity|]. split; [reflexivity|]. split; [cbn; lia|]. split; [reflexivity|].
  split; eexists; repeat split; vm_compute; reflexivity.
Qed.
