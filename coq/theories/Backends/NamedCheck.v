(* Executable checker for the xarray cases of harness/c15.py: the call on the arguments AS HELD (each with its
   own dimension names in its own storage order), the dimensions and values observed on the result.
   The model (Backends/Named.v xr_apply) resolves names to axes itself; the harness no longer does. *)
From Coq Require Import List NArith ZArith QArith Qcanon String Bool.
From EKW Require Import Backends.Tensor Backends.Ops Backends.OpsCheck Backends.Named.
Import ListNotations.

Fixpoint names_eqb (a b : list string) : bool :=
  match a, b with
  | [], [] => true
  | x :: r, y :: s => String.eqb x y && names_eqb r s
  | _, _ => false
  end.

(* strict: the observed dimension order must be the model's (DataArray results; the variables of a Dataset are
   compared by name: Dataset.transpose orders every variable by the data set's dimension order) *)
Definition check_xcase (x : xcall * list string * bool * obs * (Z * Z) * (Z * Z)) : bool :=
  let '(c, odims, strict, o, rt, at_) := x in
  forallb (fun a => wf_input (nten a) && wf_named a) (xinputs c) &&
  let '(c', sq) := match c with
                   | XReduce n ts d => if String.eqb n "std" then (XReduce "var" ts d, true) else (c, false)
                   | _ => (c, false)
                   end in
  match xr_apply c' with
  | Err _ => false
  | Ok r =>
      (negb strict || names_eqb (ndims r) odims) &&
      Nat.eqb (List.length odims) (List.length (ndims r)) &&
      match align (frame_names odims) r with        (* the model's result, stored in the observed order *)
      | Err _ => false
      | Ok t => match o with
                | OVal s d => cmp (Ok t) sq s (map qz d) (qz rt) (qz at_)
                | OInt s d => cmp (Ok t) sq s (map inject_Z d) (qz rt) (qz at_)
                | OErr _ => false
                end
      end
  end.

Definition xa (dims : list string) (t : tensor) : narr := NA dims t.
