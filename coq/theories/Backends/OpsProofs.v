(* Proofs about Backends/Tensor.v and Backends/Ops.v: the batch law
     f (g b1, ..., g bk) = f (b1 ++ ... ++ bk),   g = f on batches of >= 2, identity on singletons
   for the multi-argument reductions built from an associative operation (sum, prod, min, max)
   and for concat along any axis; order-independence of the commutative reductions;
   counter-examples for mean, std, var and stack.  No size bounds anywhere. *)
From Coq Require Import List NArith ZArith QArith Qcanon String Bool Lia Permutation.
From EKW Require Import Backends.Tensor Backends.Ops.
Import ListNotations.
Open Scope string_scope.
Open Scope list_scope.
Local Notation concat := List.concat.
Local Notation length := List.length.

(* ------------------------------------------------------------------ statement *)
Definition batch_apply (f : list tensor -> res tensor) (b : list tensor) : res tensor :=
  match b with [t] => Ok t | _ => f b end.

(* equal values, or both fail *)
Definition res_eqv (a b : res tensor) : Prop :=
  match a, b with
  | Ok x, Ok y => x = y
  | Err _, Err _ => True
  | _, _ => False
  end.

Definition batch_law (f : list tensor -> res tensor) : Prop :=
  forall batches : list (list tensor),
    (2 <= List.length batches)%nat ->
    Forall (fun b => b <> []) batches ->
    Forall (Forall valid) batches ->
    res_eqv (bind (mapM (batch_apply f) batches) f) (f (concat batches)).

(* ------------------------------------------------------------------ folds over a semigroup *)
Section Fold.
  Variable A : Type.
  Variable op : A -> A -> A.
  Variable d : A.
  Hypothesis op_assoc : forall a b c, op (op a b) c = op a (op b c).

  Definition fold1' (l : list A) : A := match l with [] => d | x :: r => fold_left op r x end.

  Lemma fold_left_op : forall l a, l <> [] -> fold_left op l a = op a (fold1' l).
  Proof.
    induction l as [|y l IH]; intros a Hne; [congruence|].
    destruct l as [|z r]; [reflexivity|].
    cbn [fold_left fold1']. cbn [fold_left] in IH.
    rewrite (IH (op a y)) by discriminate. rewrite (IH y) by discriminate.
    cbn [fold1']. apply op_assoc.
  Qed.

  Lemma fold1_app : forall l1 l2, l1 <> [] -> l2 <> [] ->
    fold1' (l1 ++ l2) = op (fold1' l1) (fold1' l2).
  Proof.
    intros [|x r] l2 H1 H2; [congruence|].
    cbn [app fold1']. rewrite fold_left_app. apply fold_left_op. exact H2.
  Qed.

  Lemma fold1_single : forall x, fold1' [x] = x.
  Proof. reflexivity. Qed.

  Lemma concat_nonempty : forall (B : Type) (bs : list (list B)),
    bs <> [] -> Forall (fun b => b <> []) bs -> concat bs <> [].
  Proof.
    intros B [|b bs] Hne Hall; [congruence|].
    inversion Hall as [|? ? Hb _]; subst. destruct b; [congruence|]. discriminate.
  Qed.

  Lemma fold1_batches : forall bs : list (list A),
    bs <> [] -> Forall (fun b => b <> []) bs ->
    fold1' (map fold1' bs) = fold1' (concat bs).
  Proof.
    induction bs as [|b bs IH]; intros Hne Hall; [congruence|].
    inversion Hall as [|? ? Hb Hrest]; subst.
    destruct bs as [|b' bs'].
    - cbn [map concat]. rewrite app_nil_r. reflexivity.
    - change (map fold1' (b :: b' :: bs')) with ([fold1' b] ++ map fold1' (b' :: bs')).
      change (concat (b :: b' :: bs')) with (b ++ concat (b' :: bs')).
      rewrite (fold1_app [fold1' b]); [|discriminate|discriminate].
      rewrite (fold1_app b); [|exact Hb|apply (concat_nonempty A (b' :: bs')); [discriminate|exact Hrest]].
      rewrite IH; [reflexivity|discriminate|exact Hrest].
  Qed.

  Hypothesis op_comm : forall a b, op a b = op b a.

  Lemma fold_left_perm : forall l l', Permutation l l' -> forall a, fold_left op l a = fold_left op l' a.
  Proof.
    induction 1 as [|x l l' _ IH|x y l|l l' l'' _ IH1 _ IH2]; intros a; cbn [fold_left].
    - reflexivity.
    - apply IH.
    - f_equal. rewrite !op_assoc. f_equal. apply op_comm.
    - rewrite IH1. apply IH2.
  Qed.

  Lemma fold1_perm : forall l l', Permutation l l' -> fold1' l = fold1' l'.
  Proof.
    induction 1 as [|x l l' Hp _|x y l|l l' l'' _ IH1 _ IH2].
    - reflexivity.
    - cbn [fold1']. apply fold_left_perm. exact Hp.
    - cbn [fold1' fold_left]. f_equal. apply op_comm.
    - rewrite IH1. exact IH2.
  Qed.
End Fold.

Lemma fold1_is : forall op d l, fold1 op d l = fold1' Qc op d l.
Proof. reflexivity. Qed.

(* ------------------------------------------------------------------ min / max on Qc *)
Lemma qle_true : forall a b, qle a b = true <-> (a <= b)%Qc.
Proof.
  intros a b. unfold qle. rewrite Qcle_alt.
  destruct (a ?= b)%Qc; split; intro H; try reflexivity; try discriminate; try congruence.
Qed.

Lemma qle_false : forall a b, qle a b = false -> (b <= a)%Qc.
Proof.
  intros a b H. apply Qclt_le_weak. apply Qcnot_le_lt. intro Hle.
  apply qle_true in Hle. congruence.
Qed.

Ltac qcase a b :=
  let H := fresh "H" in
  destruct (qle a b) eqn:H; [apply qle_true in H | apply qle_false in H].

Lemma qmin_assoc : forall a b c, qmin (qmin a b) c = qmin a (qmin b c).
Proof.
  intros a b c. unfold qmin.
  qcase a b; qcase b c; try (qcase a c); try (qcase a b); try (qcase b c); try reflexivity;
    try (apply Qcle_antisym; eauto using Qcle_trans; fail);
    try (exfalso; eauto using Qcle_trans; fail).
  all: try (apply Qcle_antisym; [eapply Qcle_trans; eassumption | assumption]).
  all: try (apply Qcle_antisym; [assumption | eapply Qcle_trans; eassumption]).
Qed.

Lemma qmax_assoc : forall a b c, qmax (qmax a b) c = qmax a (qmax b c).
Proof.
  intros a b c. unfold qmax.
  qcase a b; qcase b c; try (qcase a c); try (qcase a b); try (qcase b c); try reflexivity;
    try (apply Qcle_antisym; eauto using Qcle_trans; fail);
    try (exfalso; eauto using Qcle_trans; fail).
  all: try (apply Qcle_antisym; [eapply Qcle_trans; eassumption | assumption]).
  all: try (apply Qcle_antisym; [assumption | eapply Qcle_trans; eassumption]).
Qed.

Lemma qmin_comm : forall a b, qmin a b = qmin b a.
Proof.
  intros a b. unfold qmin. qcase a b; qcase b a; try reflexivity; apply Qcle_antisym; assumption.
Qed.

Lemma qmax_comm : forall a b, qmax a b = qmax b a.
Proof.
  intros a b. unfold qmax. qcase a b; qcase b a; try reflexivity; apply Qcle_antisym; assumption.
Qed.

(* ------------------------------------------------------------------ generic list facts *)
Lemma kid_map_seq : forall (F : nat -> nd) m j, (j < m)%nat -> kid j (Node (map F (seq 0 m))) = F j.
Proof.
  intros F m j Hj. unfold kid. cbn [children].
  rewrite (nth_indep _ _ (F 0%nat)) by (rewrite map_length, seq_length; exact Hj).
  rewrite map_nth. rewrite seq_nth by exact Hj. reflexivity.
Qed.

Lemma map_nonempty : forall (A B : Type) (f : A -> B) l, l <> [] -> map f l <> [].
Proof. intros A B f [|x l] H; [congruence|discriminate]. Qed.

Lemma Forall_nonempty_map : forall (A B : Type) (f : A -> B) (bs : list (list A)),
  Forall (fun b => b <> []) bs -> Forall (fun b => b <> []) (map (map f) bs).
Proof.
  intros A B f bs H. apply Forall_map. eapply Forall_impl; [|exact H].
  intros b Hb. apply map_nonempty. exact Hb.
Qed.

Lemma first_err_none : forall (A : Type) (g : A -> option string) l,
  (forall x, In x l -> g x = None) -> first_err g l = None.
Proof.
  intros A g l. induction l as [|x l IH]; intros H; [reflexivity|].
  cbn [first_err]. rewrite (H x (or_introl eq_refl)). apply IH. intros y Hy. apply H. right. exact Hy.
Qed.

Lemma mapM_ok_map : forall (A B : Type) (g : A -> res B) (h : A -> B) l,
  (forall x, In x l -> g x = Ok (h x)) -> mapM g l = Ok (map h l).
Proof.
  intros A B g h l. induction l as [|x l IH]; intros H; [reflexivity|].
  cbn [mapM map]. rewrite (H x (or_introl eq_refl)). cbn [bind].
  rewrite IH by (intros y Hy; apply H; right; exact Hy). reflexivity.
Qed.

Lemma mapM_ok_forall2 : forall (A B : Type) (g : A -> res B) l rs,
  mapM g l = Ok rs -> Forall2 (fun x r => g x = Ok r) l rs.
Proof.
  intros A B g l. induction l as [|x l IH]; intros rs H; cbn [mapM] in H.
  - inversion H. constructor.
  - destruct (g x) as [r|e] eqn:Hx; cbn [bind] in H; [|discriminate].
    destruct (mapM g l) as [rs'|e] eqn:Hl; cbn [bind] in H; [|discriminate].
    inversion H; subst. constructor; [exact Hx|]. apply IH. reflexivity.
Qed.

Lemma mapM_ext_in : forall (A B : Type) (g g' : A -> res B) l,
  (forall x, In x l -> g x = g' x) -> mapM g l = mapM g' l.
Proof.
  intros A B g g' l. induction l as [|x l IH]; intros H; [reflexivity|].
  cbn [mapM]. rewrite (H x (or_introl eq_refl)). rewrite IH by (intros y Hy; apply H; right; exact Hy).
  reflexivity.
Qed.

(* ------------------------------------------------------------------ red0: the batch law on bodies *)
Lemma red0_batches : forall (f g : list Qc -> Qc),
  (forall bs : list (list Qc), bs <> [] -> Forall (fun b => b <> []) bs -> f (map g bs) = f (concat bs)) ->
  forall s (batches : list (list nd)), batches <> [] -> Forall (fun b => b <> []) batches ->
  red0 f s (map (red0 g s) batches) = red0 f s (concat batches).
Proof.
  intros f g Hfg s. induction s as [|m r IH]; intros batches Hne Hall.
  - cbn [red0]. f_equal. rewrite map_map. cbn [leafval].
    rewrite <- (map_map (map leafval) g). rewrite Hfg.
    + rewrite <- concat_map. reflexivity.
    + apply map_nonempty. exact Hne.
    + apply Forall_nonempty_map. exact Hall.
  - cbn [red0]. f_equal. apply map_ext_in. intros j Hj. apply in_seq in Hj.
    rewrite map_map.
    rewrite (map_ext _ (fun b => red0 g r (map (kid j) b))).
    + rewrite <- (map_map (map (kid j)) (red0 g r)). rewrite IH.
      * rewrite <- concat_map. reflexivity.
      * apply map_nonempty. exact Hne.
      * apply Forall_nonempty_map. exact Hall.
    + intros b. apply kid_map_seq. lia.
Qed.

Lemma map_nth_seq : forall (l : list nd) d, map (fun j => nth j l d) (seq 0 (length l)) = l.
Proof.
  intros l d. apply nth_ext with (d := d) (d' := d).
  - rewrite map_length, seq_length. reflexivity.
  - intros n Hn. rewrite map_length, seq_length in Hn.
    rewrite (nth_indep _ _ (nth 0 l d)) by (rewrite map_length, seq_length; exact Hn).
    rewrite (map_nth (fun j => nth j l d)). rewrite seq_nth by exact Hn. reflexivity.
Qed.

Lemma conforms_node : forall m r t, conforms (m :: r) t = true ->
  exists l, t = Node l /\ length l = m /\ Forall (fun c => conforms r c = true) l.
Proof.
  intros m r t H. destruct t as [q|l]; cbn [conforms] in H; [discriminate|].
  apply andb_prop in H as [H1 H2]. exists l. split; [reflexivity|]. split.
  - apply Nat.eqb_eq. exact H1.
  - apply Forall_forall. rewrite forallb_forall in H2. exact H2.
Qed.

(* a singleton "reduction" by a function that is the identity on singletons is the identity *)
Lemma red0_single : forall (f : list Qc -> Qc), (forall x, f [x] = x) ->
  forall s t, conforms s t = true -> red0 f s [t] = t.
Proof.
  intros f Hf s. induction s as [|m r IH]; intros t Hc.
  - destruct t; cbn [conforms] in Hc; [|discriminate]. cbn. rewrite Hf. reflexivity.
  - apply conforms_node in Hc as (l & -> & Hlen & Hall). cbn [red0 map]. f_equal.
    rewrite <- Hlen. rewrite <- (map_nth_seq l (Leaf 0%Qc)) at 2.
    apply map_ext_in. intros j Hj. apply in_seq in Hj. unfold kid. cbn [children].
    apply IH. rewrite Forall_forall in Hall. apply Hall. apply nth_In. lia.
Qed.

Lemma red0_err_none : forall (d : list Qc -> option string),
  (forall v, v <> [] -> d v = None) ->
  forall s l, l <> [] -> red0_err d s l = None.
Proof.
  intros d Hd s. induction s as [|m r IH]; intros l Hl; cbn [red0_err].
  - apply Hd. apply map_nonempty. exact Hl.
  - apply first_err_none. intros j _. apply IH. apply map_nonempty. exact Hl.
Qed.

(* ------------------------------------------------------------------ shapes *)
Lemma shape_eqb_true : forall a b, shape_eqb a b = true <-> a = b.
Proof. intros a b. unfold shape_eqb. destruct (list_eq_dec Nat.eq_dec a b); split; congruence. Qed.

Lemma common_shape_some : forall ts s,
  common_shape ts = Some s <-> ts <> [] /\ Forall (fun u => shape u = s) ts.
Proof.
  intros [|t r] s; cbn [common_shape].
  - split; [discriminate|]. intros [H _]. congruence.
  - destruct (forallb (fun u => shape_eqb (shape u) (shape t)) r) eqn:E.
    + rewrite forallb_forall in E. split.
      * intros H. inversion H; subst. split; [discriminate|]. constructor; [reflexivity|].
        apply Forall_forall. intros u Hu. apply shape_eqb_true. apply E. exact Hu.
      * intros [_ H]. inversion H; subst. reflexivity.
    + split; [discriminate|]. intros [_ H]. inversion H as [|? ? Ht Hr]; subst.
      exfalso. apply Bool.not_true_iff_false in E. apply E. apply forallb_forall.
      intros u Hu. apply shape_eqb_true. rewrite Forall_forall in Hr. apply Hr. exact Hu.
Qed.

(* ------------------------------------------------------------------ multi-argument reductions *)
(* reductions built from an associative operation, defined on every non-empty list *)
Definition assoc_redop (o : redop) : Prop :=
  exists op d, (forall a b c : Qc, op (op a b) c = op a (op b c)) /\ rf o = fold1 op d /\
               (forall v, v <> [] -> rerr o v = None).

(* the closed form of `multi` for such an operation *)
Definition M (o : redop) (ts : list tensor) : res tensor :=
  match common_shape ts with
  | Some s => Ok (T s (red0 (rf o) s (map body ts)))
  | None => Err "ValueError"
  end.

Lemma multi_is_M : forall o ts, assoc_redop o -> multi o ts = M o ts.
Proof.
  intros o ts (op & d & _ & _ & Herr). unfold multi, M, stack0.
  destruct (common_shape ts) as [s|] eqn:E; [|reflexivity].
  cbn [bind]. unfold reduce_axis. cbn [shape body Nat.ltb Nat.leb List.length firstn skipn red_ax red_ax_err children app].
  rewrite red0_err_none; [reflexivity|exact Herr|].
  apply map_nonempty. apply common_shape_some in E. tauto.
Qed.

Lemma M_single : forall o t, assoc_redop o -> valid t -> M o [t] = Ok t.
Proof.
  intros o t (op & d & _ & Hrf & _) Hv. unfold M. cbn [common_shape forallb map].
  rewrite red0_single; [destruct t; reflexivity| |exact Hv].
  intros x. rewrite Hrf. reflexivity.
Qed.

Lemma M_ok_shape : forall o ts r, M o ts = Ok r -> Forall (fun u => shape u = shape r) ts.
Proof.
  intros o ts r H. unfold M in H. destruct (common_shape ts) as [s|] eqn:E; [|discriminate].
  inversion H; subst. cbn [shape]. apply common_shape_some in E. tauto.
Qed.

Lemma M_law : forall o, assoc_redop o -> forall batches : list (list tensor),
  batches <> [] -> Forall (fun b => b <> []) batches ->
  res_eqv (bind (mapM (M o) batches) (M o)) (M o (concat batches)).
Proof.
  intros o (op & d & Hassoc & Hrf & _) batches Hne Hall.
  destruct (common_shape (concat batches)) as [s|] eqn:E.
  - (* all arguments have shape s *)
    assert (Hs : Forall (Forall (fun u => shape u = s)) batches).
    { apply Forall_concat. apply common_shape_some in E. tauto. }
    set (h := fun b : list tensor => T s (red0 (rf o) s (map body b))).
    assert (Hm : mapM (M o) batches = Ok (map h batches)).
    { apply mapM_ok_map. intros b Hb. unfold M.
      assert (Hc : common_shape b = Some s).
      { apply common_shape_some. rewrite Forall_forall in Hall, Hs. split; [apply Hall|apply Hs]; exact Hb. }
      rewrite Hc. reflexivity. }
    rewrite Hm. cbn [bind]. unfold M at 1 2. rewrite E.
    assert (Hc : common_shape (map h batches) = Some s).
    { apply common_shape_some. split; [apply map_nonempty; exact Hne|].
      apply Forall_map. apply Forall_forall. intros b _. reflexivity. }
    rewrite Hc. cbn [res_eqv]. f_equal. rewrite map_map. unfold h. cbn [body].
    rewrite <- (map_map (map body) (red0 (rf o) s)).
    rewrite red0_batches.
    + rewrite <- concat_map. reflexivity.
    + intros bs Hb1 Hb2. rewrite Hrf. rewrite !fold1_is. apply fold1_batches; assumption.
    + apply map_nonempty. exact Hne.
    + apply Forall_nonempty_map. exact Hall.
  - (* shapes differ somewhere: both sides fail *)
    unfold M at 3. rewrite E.
    destruct (mapM (M o) batches) as [rs|e] eqn:Hm; cbn [bind]; [|exact I].
    unfold M. destruct (common_shape rs) as [s'|] eqn:E'; [|exact I].
    exfalso. apply mapM_ok_forall2 in Hm. apply common_shape_some in E' as [_ Hrs].
    assert (Hs : Forall (Forall (fun u => shape u = s')) batches).
    { clear - Hm Hrs. induction Hm as [|b r bs rs Hb _ IH]; constructor.
      - pose proof (Forall_inv Hrs) as Hr. cbn beta in Hr. apply M_ok_shape in Hb. rewrite Hr in Hb. exact Hb.
      - apply IH. exact (Forall_inv_tail Hrs). }
    assert (Hc : common_shape (concat batches) = Some s').
    { apply common_shape_some. split; [apply concat_nonempty; assumption|]. apply Forall_concat. exact Hs. }
    congruence.
Qed.

Lemma two_nonempty_concat : forall (A : Type) (bs : list (list A)),
  (2 <= length bs)%nat -> Forall (fun b => b <> []) bs ->
  exists x y r, concat bs = x :: y :: r.
Proof.
  intros A bs Hlen Hall. destruct bs as [|b1 [|b2 bs]]; cbn [List.length] in Hlen; try lia.
  inversion Hall as [|? ? H1 Hr]; subst. inversion Hr as [|? ? H2 _]; subst.
  destruct b1 as [|x1 [|y1 r1]]; [congruence| |].
  - destruct b2 as [|x2 r2]; [congruence|]. cbn. eauto.
  - cbn. eauto.
Qed.

(* the multi-argument reduction `name` as the library calls it (any axis keyword is overridden) *)
Lemma reduce_batch_law : forall name o axis,
  redop_of name = Some o -> assoc_redop o -> batch_law (fun ts => reduce_op name ts axis).
Proof.
  intros name o axis Hname Hgood batches Hlen Hall Hvalid.
  assert (Hne : batches <> []) by (destruct batches; cbn in Hlen; [lia|discriminate]).
  (* on >= 2 arguments reduce_op is M; batch_apply is M on valid non-empty batches *)
  assert (Hge2 : forall x y r, reduce_op name (x :: y :: r) axis = M o (x :: y :: r)).
  { intros x y r. unfold reduce_op. rewrite Hname. apply multi_is_M. exact Hgood. }
  assert (Hba : forall b, In b batches -> batch_apply (fun ts => reduce_op name ts axis) b = M o b).
  { intros b Hb. rewrite Forall_forall in Hall, Hvalid. specialize (Hall b Hb). specialize (Hvalid b Hb).
    destruct b as [|x [|y r]]; [congruence| |].
    - cbn [batch_apply]. symmetry. apply M_single; [exact Hgood|]. inversion Hvalid; assumption.
    - cbn [batch_apply]. apply Hge2. }
  rewrite (mapM_ext_in _ _ _ _ _ Hba).
  destruct (two_nonempty_concat _ batches Hlen Hall) as (x & y & r & Hcat).
  rewrite Hcat, Hge2, <- Hcat.
  pose proof (M_law o Hgood batches Hne Hall) as HM.
  destruct (mapM (M o) batches) as [rs|e] eqn:Hm; cbn [bind] in *; [|exact HM].
  (* the outer call has one argument per batch: at least two *)
  assert (Hlen2 : length rs = length batches).
  { apply mapM_ok_forall2 in Hm. clear - Hm. induction Hm; cbn [List.length]; congruence. }
  destruct rs as [|r1 [|r2 rs]]; cbn [List.length] in Hlen2; try lia.
  rewrite Hge2. exact HM.
Qed.

(* ------------------------------------------------------------------ concat *)
Lemma set_nth_length : forall a x s, length (set_nth a x s) = length s.
Proof. induction a as [|a IH]; intros x [|y s]; cbn; try reflexivity. rewrite IH. reflexivity. Qed.

Lemma set_nth_set_nth : forall a x y s, set_nth a y (set_nth a x s) = set_nth a y s.
Proof. induction a as [|a IH]; intros x y [|z s]; cbn; try reflexivity. rewrite IH. reflexivity. Qed.

Lemma firstn_set_nth : forall a x s, firstn a (set_nth a x s) = firstn a s.
Proof. induction a as [|a IH]; intros x [|z s]; cbn; try reflexivity. rewrite IH. reflexivity. Qed.

Lemma nth_set_nth : forall a x s, (a < length s)%nat -> nth a (set_nth a x s) 0%nat = x.
Proof.
  induction a as [|a IH]; intros x [|z s] H; cbn in *; try lia; try reflexivity.
  apply IH. lia.
Qed.

Lemma set_nth_nth : forall a s, set_nth a (nth a s 0%nat) s = s.
Proof. induction a as [|a IH]; intros [|z s]; cbn; try reflexivity. rewrite IH. reflexivity. Qed.

Lemma norm_index_lt : forall n i a, norm_index n i = Some a -> (a < n)%nat.
Proof.
  intros n i a H. unfold norm_index in H.
  destruct ((0 <=? i)%Z && (i <? Z.of_nat n)%Z) eqn:E1.
  - apply andb_prop in E1 as [E1 E2]. inversion H; subst. lia.
  - destruct ((- Z.of_nat n <=? i)%Z && (i <? 0)%Z) eqn:E2; [|discriminate].
    apply andb_prop in E2 as [E2 E3]. inversion H; subst. lia.
Qed.

Lemma list_sum_concat : forall (A : Type) (g : A -> nat) (bs : list (list A)),
  list_sum (map (fun b => list_sum (map g b)) bs) = list_sum (map g (concat bs)).
Proof.
  intros A g bs. induction bs as [|b bs IH]; [reflexivity|].
  cbn [map concat list_sum fold_right]. rewrite map_app, list_sum_app. rewrite <- IH. reflexivity.
Qed.

Lemma flat_children_batches : forall bs : list (list nd),
  flat_map children (map (fun b => Node (flat_map children b)) bs) = flat_map children (concat bs).
Proof.
  induction bs as [|b bs IH]; [reflexivity|].
  cbn [map flat_map concat children]. rewrite flat_map_app, IH. reflexivity.
Qed.

Lemma concat_ax_batches : forall pre (batches : list (list nd)),
  concat_ax pre (map (concat_ax pre) batches) = concat_ax pre (concat batches).
Proof.
  induction pre as [|m p IH]; intros batches.
  - cbn [concat_ax]. f_equal. apply flat_children_batches.
  - cbn [concat_ax]. f_equal. apply map_ext_in. intros j Hj. apply in_seq in Hj.
    rewrite map_map.
    rewrite (map_ext _ (fun b => concat_ax p (map (kid j) b))).
    + rewrite <- (map_map (map (kid j)) (concat_ax p)). rewrite IH. rewrite <- concat_map. reflexivity.
    + intros b. apply kid_map_seq. lia.
Qed.

Lemma concat_ax_single : forall a s t, conforms s t = true -> (a < length s)%nat ->
  concat_ax (firstn a s) [t] = t.
Proof.
  induction a as [|a IH]; intros [|m r] t Hc Ha; cbn [List.length] in Ha; try lia.
  - apply conforms_node in Hc as (l & -> & _ & _). cbn. rewrite app_nil_r. reflexivity.
  - apply conforms_node in Hc as (l & -> & Hlen & Hall). cbn [firstn concat_ax map]. f_equal.
    rewrite <- Hlen. rewrite <- (map_nth_seq l (Leaf 0%Qc)) at 2.
    apply map_ext_in. intros j Hj. apply in_seq in Hj. unfold kid. cbn [children].
    apply IH; [|lia]. rewrite Forall_forall in Hall. apply Hall. apply nth_In. lia.
Qed.

Section Concat.
  Variable axis : Z.
  Let C (ts : list tensor) : res tensor := concat_op ts axis.

  (* every tensor resolves the axis keyword to position a and has shape k away from a *)
  Definition coh (a : nat) (k : list nat) (ts : list tensor) : Prop :=
    Forall (fun u => norm_index (length (shape u)) axis = Some a /\ set_nth a 0%nat (shape u) = k) ts.

  Definition cval (a : nat) (k : list nat) (ts : list tensor) : tensor :=
    T (set_nth a (list_sum (map (fun u => nth a (shape u) 0%nat) ts)) k)
      (concat_ax (firstn a k) (map body ts)).

  Lemma C_val : forall a k ts, ts <> [] -> coh a k ts -> C ts = Ok (cval a k ts).
  Proof.
    intros a k [|t r] Hne Hc; [congruence|]. unfold C, concat_op, cval.
    pose proof (Forall_inv Hc) as [Ha Hk]. rewrite Ha.
    replace (forallb (fun u => agree_except a (shape t) (shape u)) (t :: r)) with true.
    - rewrite <- Hk. rewrite set_nth_set_nth, firstn_set_nth. reflexivity.
    - symmetry. apply forallb_forall. intros u Hu. unfold agree_except. apply shape_eqb_true.
      unfold coh in Hc. rewrite Forall_forall in Hc. destruct (Hc u Hu) as [_ Hku]. congruence.
  Qed.

  Lemma C_ok_coh : forall ts r, C ts = Ok r ->
    exists a, coh a (set_nth a 0%nat (shape r)) ts /\ norm_index (length (shape r)) axis = Some a.
  Proof.
    intros [|t r'] r H; unfold C, concat_op in H; [discriminate|].
    destruct (norm_index (length (shape t)) axis) as [a|] eqn:Ha; [|discriminate].
    destruct (forallb (fun u => agree_except a (shape t) (shape u)) (t :: r')) eqn:E; [|discriminate].
    inversion H; subst. cbn [shape]. exists a. rewrite set_nth_set_nth, set_nth_length. split; [|exact Ha].
    apply Forall_forall. intros u Hu. rewrite forallb_forall in E. specialize (E u Hu).
    unfold agree_except in E. apply shape_eqb_true in E. split; [|exact E].
    assert (Hl : length (shape u) = length (shape t)).
    { rewrite <- (set_nth_length a 0%nat (shape u)), E. apply set_nth_length. }
    rewrite Hl. exact Ha.
  Qed.

  Lemma BA_val : forall a k b, b <> [] -> coh a k b -> Forall valid b ->
    batch_apply C b = Ok (cval a k b).
  Proof.
    intros a k b Hne Hc Hv. destruct b as [|t [|u r]]; [congruence| |].
    - cbn [batch_apply]. f_equal. unfold cval. pose proof (Forall_inv Hc) as [Ha Hk].
      cbn [map list_sum fold_right]. rewrite Nat.add_0_r. rewrite <- Hk.
      rewrite set_nth_set_nth, firstn_set_nth, set_nth_nth.
      rewrite concat_ax_single; [destruct t; reflexivity|exact (Forall_inv Hv)|].
      eapply norm_index_lt. exact Ha.
    - cbn [batch_apply]. apply C_val; [discriminate|exact Hc].
  Qed.

  Lemma BA_ok_coh : forall a k b r, b <> [] -> batch_apply C b = Ok r ->
    norm_index (length (shape r)) axis = Some a -> set_nth a 0%nat (shape r) = k -> coh a k b.
  Proof.
    intros a k b r Hne H Ha Hk. destruct b as [|t [|u r']]; [congruence| |].
    - cbn [batch_apply] in H. inversion H; subst. constructor; [|constructor]. split; [exact Ha|reflexivity].
    - cbn [batch_apply] in H. apply C_ok_coh in H as (a' & Hc & Ha').
      assert (a' = a) by congruence. subst a'. rewrite Hk in Hc. exact Hc.
  Qed.

  Lemma concat_batch_law : batch_law (fun ts => concat_op ts axis).
  Proof.
    intros batches Hlen Hall Hvalid. cbv beta.
    change (concat_op (concat batches) axis) with (C (concat batches)).
    change (fun ts => concat_op ts axis) with C.
    assert (Hne : batches <> []) by (destruct batches; cbn in Hlen; [lia|discriminate]).
    assert (Hcne : concat batches <> []) by (apply concat_nonempty; assumption).
    destruct (C (concat batches)) as [R|e] eqn:ER.
    - (* the unbatched call succeeds *)
      pose proof ER as ER'. apply C_ok_coh in ER' as (a & Hc & Ha).
      set (k := set_nth a 0%nat (shape R)) in *.
      assert (Hcb : Forall (coh a k) batches) by (apply Forall_concat; exact Hc).
      assert (Hm : mapM (batch_apply C) batches = Ok (map (cval a k) batches)).
      { apply mapM_ok_map. intros b Hb. rewrite Forall_forall in Hall, Hcb, Hvalid.
        apply BA_val; [apply Hall|apply Hcb|apply Hvalid]; exact Hb. }
      rewrite Hm. cbn [bind].
      assert (Hlk : length k = length (shape R)) by (apply set_nth_length).
      assert (Hak : (a < length k)%nat) by (rewrite Hlk; eapply norm_index_lt; exact Ha).
      assert (Hkk : set_nth a 0%nat k = k) by (unfold k; apply set_nth_set_nth).
      assert (Hco : coh a k (map (cval a k) batches)).
      { apply Forall_map. apply Forall_forall. intros b _. unfold cval. cbn [shape].
        rewrite set_nth_length, set_nth_set_nth, Hlk. split; [exact Ha|exact Hkk]. }
      rewrite (C_val a k) by (try apply map_nonempty; assumption).
      rewrite (C_val a k) in ER by assumption. inversion ER as [HR]. cbn [res_eqv].
      unfold cval at 1 3. f_equal.
      + f_equal. rewrite map_map. cbn [shape].
        rewrite (map_ext _ (fun b => list_sum (map (fun u => nth a (shape u) 0%nat) b))).
        * apply list_sum_concat.
        * intros b. apply nth_set_nth. exact Hak.
      + rewrite map_map. unfold cval. cbn [body].
        rewrite <- (map_map (map body) (concat_ax (firstn a k))).
        rewrite concat_ax_batches. rewrite <- concat_map. reflexivity.
    - (* the unbatched call fails: so does the batched one *)
      destruct (mapM (batch_apply C) batches) as [rs|e'] eqn:Hm; cbn [bind]; [|exact I].
      destruct (C rs) as [R'|e''] eqn:ER'; [|exact I]. exfalso.
      apply C_ok_coh in ER' as (a & Hc & Ha).
      set (k := set_nth a 0%nat (shape R')) in *.
      apply mapM_ok_forall2 in Hm.
      assert (Hcb : Forall (coh a k) batches).
      { clear - Hm Hc Hall. induction Hm as [|b r bs rs Hb _ IH]; constructor.
        - pose proof (Forall_inv Hc) as [Hra Hrk]. eapply BA_ok_coh; eauto. exact (Forall_inv Hall).
        - apply IH; [exact (Forall_inv_tail Hall)|exact (Forall_inv_tail Hc)]. }
      assert (Hcc : coh a k (concat batches)) by (apply Forall_concat; exact Hcb).
      rewrite (C_val a k) in ER by assumption. discriminate.
  Qed.
End Concat.

(* ------------------------------------------------------------------ the four batchable reductions *)
Lemma redop_sum_assoc : forall o, redop_of "sum" = Some o -> assoc_redop o.
Proof.
  intros o H. cbn in H. inversion H; subst. exists Qcplus, 0%Qc. cbn [rf rerr].
  split; [intros; symmetry; apply Qcplus_assoc|]. split; reflexivity.
Qed.

Lemma redop_prod_assoc : forall o, redop_of "prod" = Some o -> assoc_redop o.
Proof.
  intros o H. cbn in H. inversion H; subst. exists Qcmult, 1%Qc. cbn [rf rerr].
  split; [intros; symmetry; apply Qcmult_assoc|]. split; reflexivity.
Qed.

Lemma redop_min_assoc : forall o, redop_of "min" = Some o -> assoc_redop o.
Proof.
  intros o H. cbn in H. inversion H; subst. exists qmin, 0%Qc. cbn [rf rerr].
  split; [apply qmin_assoc|]. split; [reflexivity|]. intros [|x v] Hv; [congruence|reflexivity].
Qed.

Lemma redop_max_assoc : forall o, redop_of "max" = Some o -> assoc_redop o.
Proof.
  intros o H. cbn in H. inversion H; subst. exists qmax, 0%Qc. cbn [rf rerr].
  split; [apply qmax_assoc|]. split; [reflexivity|]. intros [|x v] Hv; [congruence|reflexivity].
Qed.

Definition known_batchable (m : mfun) : bool :=
  match m with
  | MReduce f => existsb (String.eqb f) ["sum"; "prod"; "min"; "max"]
  | MConcat => true
  | MStack => false
  end.

Lemma redop_of_some : forall f, existsb (String.eqb f) ["sum"; "prod"; "min"; "max"] = true ->
  exists o, redop_of f = Some o /\ assoc_redop o.
Proof.
  intros f H. cbn [existsb] in H. rewrite !orb_true_iff in H.
  destruct H as [H|[H|[H|[H|H]]]]; try discriminate; apply String.eqb_eq in H; subst f.
  - eexists. split; [reflexivity|]. apply redop_sum_assoc. reflexivity.
  - eexists. split; [reflexivity|]. apply redop_prod_assoc. reflexivity.
  - eexists. split; [reflexivity|]. apply redop_min_assoc. reflexivity.
  - eexists. split; [reflexivity|]. apply redop_max_assoc. reflexivity.
Qed.

Lemma known_batchable_sound : forall m axis, known_batchable m = true -> batch_law (denote m axis).
Proof.
  intros [f| |] axis H; cbn [known_batchable] in H; try discriminate.
  - destruct (redop_of_some f H) as (o & Ho & Hgood). cbn [denote].
    exact (reduce_batch_law f o (Some axis) Ho Hgood).
  - cbn [denote]. apply concat_batch_law.
Qed.

(* ------------------------------------------------------------------ order of the arguments *)
Lemma red0_perm : forall f : list Qc -> Qc, (forall l l', Permutation l l' -> f l = f l') ->
  forall s l l', Permutation l l' -> red0 f s l = red0 f s l'.
Proof.
  intros f Hf s. induction s as [|m r IH]; intros l l' Hp; cbn [red0].
  - f_equal. apply Hf. apply Permutation_map. exact Hp.
  - f_equal. apply map_ext. intros j. apply IH. apply Permutation_map. exact Hp.
Qed.

Lemma common_shape_perm : forall ts ts', Permutation ts ts' -> common_shape ts = common_shape ts'.
Proof.
  assert (H1 : forall ts ts' s, Permutation ts ts' -> common_shape ts = Some s -> common_shape ts' = Some s).
  { intros ts ts' s Hp H. apply common_shape_some in H as [Hne Hall]. apply common_shape_some. split.
    - intro E. subst ts'. apply Permutation_sym, Permutation_nil in Hp. congruence.
    - eapply Permutation_Forall; eassumption. }
  intros ts ts' Hp. destruct (common_shape ts) as [s|] eqn:E.
  - symmetry. eapply H1; eassumption.
  - destruct (common_shape ts') as [s'|] eqn:E'; [|reflexivity].
    apply (H1 ts' ts s' (Permutation_sym Hp)) in E'. congruence.
Qed.

Definition comm_redop (o : redop) : Prop :=
  exists op d, (forall a b c : Qc, op (op a b) c = op a (op b c)) /\ (forall a b : Qc, op a b = op b a) /\
               rf o = fold1 op d /\ (forall v, v <> [] -> rerr o v = None).

Lemma comm_is_assoc : forall o, comm_redop o -> assoc_redop o.
Proof. intros o (op & d & H1 & _ & H2 & H3). exists op, d. auto. Qed.

Lemma reduce_perm : forall name o axis ts ts',
  redop_of name = Some o -> comm_redop o -> Permutation ts ts' ->
  reduce_op name ts axis = reduce_op name ts' axis.
Proof.
  intros name o axis ts ts' Hname Hc Hp.
  destruct ts as [|x [|y r]].
  - apply Permutation_nil in Hp. subst. reflexivity.
  - apply Permutation_length_1_inv in Hp. subst. reflexivity.
  - pose proof (Permutation_length Hp) as Hl. destruct ts' as [|x' [|y' r']]; cbn in Hl; try lia.
    unfold reduce_op. rewrite Hname. rewrite !multi_is_M by (apply comm_is_assoc; exact Hc).
    unfold M. rewrite (common_shape_perm _ _ Hp). destruct (common_shape (x' :: y' :: r')); [|reflexivity].
    f_equal. f_equal. destruct Hc as (op & d & Ha & Hcm & Hrf & _). apply red0_perm.
    + intros v v' Hpv. rewrite Hrf, !fold1_is. apply fold1_perm; assumption.
    + apply Permutation_map. exact Hp.
Qed.

Lemma redop_comm : forall f, existsb (String.eqb f) ["sum"; "prod"; "min"; "max"] = true ->
  exists o, redop_of f = Some o /\ comm_redop o.
Proof.
  intros f H. cbn [existsb] in H. rewrite !orb_true_iff in H.
  destruct H as [H|[H|[H|[H|H]]]]; try discriminate; apply String.eqb_eq in H; subst f;
    (eexists; split; [reflexivity|]).
  - exists Qcplus, 0%Qc. cbn [rf rerr]. repeat split; try reflexivity;
      [intros; symmetry; apply Qcplus_assoc|apply Qcplus_comm].
  - exists Qcmult, 1%Qc. cbn [rf rerr]. repeat split; try reflexivity;
      [intros; symmetry; apply Qcmult_assoc|apply Qcmult_comm].
  - exists qmin, 0%Qc. cbn [rf rerr]. repeat split; try reflexivity;
      [apply qmin_assoc|apply qmin_comm|intros [|x v] Hv; [congruence|reflexivity]].
  - exists qmax, 0%Qc. cbn [rf rerr]. repeat split; try reflexivity;
      [apply qmax_assoc|apply qmax_comm|intros [|x v] Hv; [congruence|reflexivity]].
Qed.

(* every partition of the arguments, in any order: batched = unbatched *)
Lemma reduce_any_partition : forall f axis args (batches : list (list tensor)),
  existsb (String.eqb f) ["sum"; "prod"; "min"; "max"] = true ->
  Permutation (concat batches) args ->
  (2 <= length batches)%nat -> Forall (fun b => b <> []) batches -> Forall (Forall valid) batches ->
  let F := fun ts => reduce_op f ts axis in
  res_eqv (bind (mapM (batch_apply F) batches) F) (F args).
Proof.
  intros f axis args batches Hf Hp Hlen Hall Hv F.
  destruct (redop_comm f Hf) as (o & Ho & Hc).
  unfold F at 3. rewrite <- (reduce_perm f o axis _ _ Ho Hc Hp).
  exact (reduce_batch_law f o axis Ho (comm_is_assoc o Hc) batches Hlen Hall Hv).
Qed.

(* ------------------------------------------------------------------ what is not batchable *)
Definition v2 (a b : Z) : tensor := T [2%nat] (Node [Leaf (Q2Qc (inject_Z a)); Leaf (Q2Qc (inject_Z b))]).

Definition witness : list (list tensor) := [[v2 0 2; v2 0 0]; [v2 2 2; v2 2 0]].

Lemma witness_ok : (2 <= length witness)%nat /\ Forall (fun b => b <> []) witness /\ Forall (Forall valid) witness.
Proof.
  split; [cbn; lia|]. split.
  - repeat constructor; discriminate.
  - repeat constructor.
Qed.

Definition known_not_batchable (m : mfun) : bool :=
  match m with
  | MReduce f => existsb (String.eqb f) ["mean"; "std"; "var"]
  | MStack => true
  | MConcat => false
  end.

Lemma mean_not_batchable : forall axis, ~ batch_law (denote (MReduce "mean") axis).
Proof.
  intros axis H. destruct witness_ok as (H1 & H2 & H3).
  specialize (H [[v2 0 2; v2 0 0]; [v2 4 4]] ltac:(cbn; lia) ltac:(repeat constructor; discriminate) ltac:(repeat constructor)).
  vm_compute in H. discriminate H.
Qed.

Lemma var_not_batchable : forall axis, ~ batch_law (denote (MReduce "var") axis).
Proof.
  intros axis H. destruct witness_ok as (H1 & H2 & H3). specialize (H witness H1 H2 H3).
  vm_compute in H. discriminate H.
Qed.

Lemma std_not_batchable : forall axis, ~ batch_law (denote (MReduce "std") axis).
Proof.
  intros axis H. destruct witness_ok as (H1 & H2 & H3).
  specialize (H [[v2 0 0; v2 0 0]; [v2 2 2; v2 2 2]] ltac:(cbn; lia) ltac:(repeat constructor; discriminate) ltac:(repeat constructor)).
  vm_compute in H. discriminate H.
Qed.

Lemma stack_not_batchable : ~ batch_law (denote MStack 0%Z).
Proof.
  intros H. destruct witness_ok as (H1 & H2 & H3). specialize (H witness H1 H2 H3).
  vm_compute in H. discriminate H.
Qed.

Lemma known_not_batchable_sound : forall m, known_not_batchable m = true ->
  ~ (forall axis, batch_law (denote m axis)).
Proof.
  intros [f| |] H Hall; cbn [known_not_batchable] in H; try discriminate.
  - cbn [existsb] in H. rewrite !orb_true_iff in H.
    destruct H as [H|[H|[H|H]]]; try discriminate; apply String.eqb_eq in H; subst f.
    + exact (mean_not_batchable 0%Z (Hall 0%Z)).
    + exact (std_not_batchable 0%Z (Hall 0%Z)).
    + exact (var_not_batchable 0%Z (Hall 0%Z)).
  - exact (stack_not_batchable (Hall 0%Z)).
Qed.

(* ------------------------------------------------------------------ the regenerated tables *)
Fixpoint lookup {B : Type} (k : string) (l : list (string * B)) : option B :=
  match l with
  | [] => None
  | (k', v) :: r => if String.eqb k k' then Some v else lookup k r
  end.

(* Backend.<meth> forwards to <target> of the back-end chosen by the first argument *)
Definition resolve (facade : list (string * string * bool * nat)) (tbl : list (string * impl)) (meth : string) : option mfun :=
  match lookup meth (map (fun x => (fst (fst (fst x)), snd (fst (fst x)))) facade) with
  | Some target => match lookup target tbl with
                   | Some i => mfun_of target i
                   | None => None
                   end
  | None => None
  end.

Definition marked_of (facade : list (string * string * bool * nat)) : list string :=
  map (fun x => fst (fst (fst x))) (filter (fun x => snd (fst x)) facade).
Definition unmarked_of (facade : list (string * string * bool * nat)) : list string :=
  map (fun x => fst (fst (fst x))) (filter (fun x => negb (snd (fst x))) facade).

Definition marked_ok facade (tbls : list (list (string * impl))) : bool :=
  forallb (fun meth => forallb (fun tbl => match resolve facade tbl meth with
                                           | Some m => known_batchable m
                                           | None => false
                                           end) tbls) (marked_of facade).

(* an unmarked method either is not a multi-argument function at all or is known not to be batchable *)
Definition unmarked_ok facade (tbls : list (list (string * impl))) : bool :=
  forallb (fun meth => forallb (fun tbl => match resolve facade tbl meth with
                                           | Some m => known_not_batchable m
                                           | None => true
                                           end) tbls) (unmarked_of facade).

Lemma marked_ok_sound : forall facade tbls, marked_ok facade tbls = true ->
  forall meth tbl, In meth (marked_of facade) -> In tbl tbls ->
  exists m, resolve facade tbl meth = Some m /\ forall axis, batch_law (denote m axis).
Proof.
  intros facade tbls H meth tbl Hm Ht. unfold marked_ok in H.
  rewrite forallb_forall in H. specialize (H meth Hm). rewrite forallb_forall in H. specialize (H tbl Ht).
  destruct (resolve facade tbl meth) as [m|]; [|discriminate].
  exists m. split; [reflexivity|]. intros axis. apply known_batchable_sound. exact H.
Qed.

Lemma unmarked_ok_sound : forall facade tbls, unmarked_ok facade tbls = true ->
  forall meth tbl m, In meth (unmarked_of facade) -> In tbl tbls -> resolve facade tbl meth = Some m ->
  ~ (forall axis, batch_law (denote m axis)).
Proof.
  intros facade tbls H meth tbl m Hm Ht Hr. unfold unmarked_ok in H.
  rewrite forallb_forall in H. specialize (H meth Hm). rewrite forallb_forall in H. specialize (H tbl Ht).
  rewrite Hr in H. apply known_not_batchable_sound. exact H.
Qed.
