(* Executable checker for the typed correspondence cases of harness/c15.py: the call, the element
   type of every argument, the observed values and the observed element type of the result.
   The model converts every argument to NumPy's common element type (Backends/Dtype.v `cast`),
   runs the exact operation on the converted arguments (Backends/OpsCheck.v `check_case`) and
   compares values and result type.  This is `apply_t` evaluated case by case. *)
From Coq Require Import List NArith ZArith QArith Qcanon String Bool.
From EKW Require Import Backends.Tensor Backends.Ops Backends.OpsCheck Backends.Dtype.
Import ListNotations.

(* ds = [] : an untyped case (one operand is a Python scalar: NumPy's weak-scalar rules are not
   modelled); od = None : the result type is not compared (failures, scalars); seq : the common type
   is found the xp.asarray way (Dtype.v common_of) *)
Definition check_case_d (x : (call * obs * (Z * Z) * (Z * Z)) * (list dtype * option dtype * bool)) : bool :=
  let '(y, (ds, od, seq)) := x in
  let '(c, o, rt, at_) := y in
  match ds with
  | [] => check_case y
  | _ =>
      all2 (fun d t => all_repr d t) ds (call_inputs c) &&
      match common_of seq ds with
      | None => false
      | Some D =>
          let c' := map_inputs (convert D) c in
          forallb (all_repr D) (call_inputs c') &&
          check_case (c', o, rt, at_) &&
          match od with
          | None => true
          | Some R => dtype_eqb (op_dtype c D) R
          end
      end
  end.

(* the same thing through apply_t, for values that must agree exactly (used by the examples) *)
Definition typed_result_is (c : call) (ds : list dtype) (R : dtype) (s : list nat) (d : list Z) : bool :=
  match apply_t c ds with
  | Ok (R', t) => dtype_eqb R R' && shape_eqb (shape t) s
                  && all2 (fun m z => Qc_eq_bool m (Q2Qc (inject_Z z))) (leaves (shape t) (body t)) d
  | Err _ => false
  end.

(* the element type of the result alone (cases whose VALUES are outside the model: wrap-around,
   rounding, broadcasting); the call carries no data *)
Definition check_dtype_only (x : call * list dtype * dtype * bool) : bool :=
  let '(c, ds, R, seq) := x in
  match result_dtype_with (common_of seq) c ds with
  | Some D => dtype_eqb D R
  | None => false
  end.
