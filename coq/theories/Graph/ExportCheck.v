(* Executable checkers used by harness/c12.py: the model of Graph/Export.v is run inside
   Coq on the same graphs / serialised dicts as the real code and compared with what the
   real code returned.  Payloads are instantiated by a small value type; graphlib's order
   is taken from the observation and validated (topo_okb); a CycleError is validated
   against `kahn` below.  Also: a concrete, proved instance of the graphlib contract used
   by the non-vacuity examples. *)
From Coq Require Import List String Bool Arith ZArith.
From EKW Require Import Graph.GStore Graph.Export.
Import ListNotations.
Open Scope string_scope.
Open Scope list_scope.

(* payload values of the harness: ints, strings, tuples/lists, and an object with a
   .serialise() method returning `inner` *)
Inductive pv := PInt (z : Z) | PStr (s : string) | PSeq (tup : bool) (l : list pv) | PSer (inner : pv).

Fixpoint pv_eqb (a b : pv) : bool :=
  match a, b with
  | PInt x, PInt y => Z.eqb x y
  | PStr s, PStr t => String.eqb s t
  | PSeq ta la, PSeq tb lb =>
      Bool.eqb ta tb &&
      (fix go (la lb : list pv) : bool :=
         match la, lb with
         | [], [] => true
         | x :: la', y :: lb' => pv_eqb x y && go la' lb'
         | _, _ => false
         end) la lb
  | PSer x, PSer y => pv_eqb x y
  | _, _ => false
  end.

Definition pv_ser (p : pv) : pv := match p with PSer x => x | _ => p end.

Fixpoint pv_json (p : pv) : pv :=
  match p with
  | PSeq _ l => PSeq false (map pv_json l)
  | _ => p
  end.

(* ------------------------------------------------------------ a topological sorter *)
Fixpoint dedupe (l : list string) (seen : list string) : list string :=
  match l with
  | [] => []
  | x :: r => if smemb x seen then dedupe r seen else x :: dedupe r (x :: seen)
  end.

Definition ready (deps : deps_t) (emitted : list string) (n : string) : bool :=
  negb (smemb n emitted) && forallb (fun d => smemb d emitted) (deps_for n deps).

Fixpoint kahn_rounds (fuel : nat) (deps : deps_t) (names emitted : list string) : list string :=
  match fuel with
  | O => emitted
  | S f => kahn_rounds f deps names (emitted ++ filter (ready deps emitted) names)
  end.

Definition kahn (deps : deps_t) : res (list string) :=
  let names := dedupe (all_names deps) [] in
  let out := kahn_rounds (List.length names) deps names [] in
  if topo_okb deps out then Ok out else Err "CycleError".

(* ------------------------------------------------------------ exact comparisons *)
Definition opt_eqb {A} (eqb : A -> A -> bool) (a b : option A) : bool :=
  match a, b with None, None => true | Some x, Some y => eqb x y | _, _ => false end.
Definition pair_eqb {A B} (ea : A -> A -> bool) (eb : B -> B -> bool) (a b : A * B) : bool :=
  ea (fst a) (fst b) && eb (snd a) (snd b).

Definition ssrc_eqb (a b : ssrc) : bool :=
  match a, b with
  | SBare p, SBare q => String.eqb p q
  | SPair t p o, SPair u q r => Bool.eqb t u && String.eqb p q && String.eqb o r
  | _, _ => false
  end.

Definition snode_eqb (a b : snode pv) : bool :=
  opt_eqb (list_eqb String.eqb) (s_outs a) (s_outs b)
  && opt_eqb (list_eqb (pair_eqb String.eqb ssrc_eqb)) (s_ins a) (s_ins b)
  && opt_eqb pv_eqb (s_pay a) (s_pay b).

Definition sgraph_eqb (a b : sgraph pv) : bool := list_eqb (pair_eqb String.eqb snode_eqb) a b.

Definition vnode_eqb (a b : vnode pv) : bool :=
  String.eqb (vname a) (vname b) && list_eqb String.eqb (vouts a) (vouts b)
  && opt_eqb pv_eqb (vpay a) (vpay b)
  && list_eqb (pair_eqb String.eqb (pair_eqb String.eqb String.eqb)) (vins a) (vins b).

(* ------------------------------------------------------------ checkers *)
(* serialise(g): the dict with its insertion order, or the exception *)
Definition check_ser (case : graph pv * (sgraph pv + string)) : bool :=
  let '(g, expect) := case in
  match serialise pv pv_ser g, expect with
  | Ok d, inl d' => sgraph_eqb d d'
  | Err e, inr e' => String.eqb e e'
  | _, _ => false
  end.

(* graphlib as observed: Some order (validated) or None = CycleError (validated with kahn) *)
Definition observed_order (o : option (list string)) (deps : deps_t) : res (list string) :=
  match o with
  | Some order => if topo_okb deps order then Ok order else Err "model:order-is-not-topological"
  | None => match kahn deps with Ok _ => Err "model:order-exists" | Err e => Err e end
  end.

(* deserialise(data): names of result.sinks, list(result.nodes()) as views; or the exception *)
Definition check_deser (case : sgraph pv * option (list string) * ((list string * list (vnode pv)) + string)) : bool :=
  let '(data, order, expect) := case in
  match deserialise pv (observed_order order) data, expect with
  | Ok g', inl (snames, vns) =>
      match vnodes g' with
      | Ok vs => list_eqb String.eqb (map (name_of (heap g')) (sinks g')) snames && list_eqb vnode_eqb vs vns
      | Err _ => false
      end
  | Err e, inr e' => String.eqb e e'
  | _, _ => false
  end.

(* a == b *)
Definition check_eq (case : graph pv * graph pv * bool) : bool :=
  let '(a, b, expect) := case in
  match graph_eq pv pv_eqb a b with
  | Ok r => Bool.eqb r expect
  | Err _ => false
  end.

(* json.loads(json.dumps(d)) *)
Definition check_jsonify (case : sgraph pv * sgraph pv) : bool :=
  let '(d, d') := case in sgraph_eqb (jsonify pv pv_json d) d'.

(* the whole path inside the model, for the refutation witnesses and the examples *)
Definition roundtrip_with (so : deps_t -> res (list string)) (sink_rule : bool) (g : graph pv) : res bool :=
  bind (serialise pv pv_ser g) (fun d =>
  bind (deserialise_gen pv so sink_rule d) (fun g' => graph_eq pv pv_eqb g' g)).

(* typed constructors for the case files written by the harness *)
Definition s_ok (d : sgraph pv) : sgraph pv + string := inl d.
Definition s_err (e : string) : sgraph pv + string := inr e.
Definition d_ok (x : list string * list (vnode pv)) : (list string * list (vnode pv)) + string := inl x.
Definition d_err (e : string) : (list string * list (vnode pv)) + string := inr e.
