(* Model of a Cascade OBJECT over time (earthkit/workflows/__init__.py, class Cascade).
   The class has exactly one attribute, `_graph`.  During its life an object is
     - written to a file, any number of times, to the same or to different file names:
         Cascade.serialise(filename) = dill.dump(serialise(self._graph), open(filename, "wb"))
     - given a new graph: `c += other` ends in  self._graph = deduplicate_nodes(self._graph)
       (the in-place extension of the old Graph object and the transformer belong to
       Graph/Dedup.v, C11); in the id-addressed model every mutation of the node objects
       reachable from the attribute is such a replacement as well.
   The new value of the attribute is a parameter of the operation (the harness reads it off
   the real object after the real `+=`); what the file system holds afterwards is computed
   here.  A file is opened with "wb": a second write to a name replaces its content.
   Nothing but `_graph` is carried from one operation to the next: that is the point of the
   theorems in ExportSessionProofs.v (what a write stores depends on the graph the object has
   at that moment only).  No proofs in this file. *)
From Coq Require Import List String Bool Arith.
From EKW Require Import Graph.GStore Graph.Export.
Import ListNotations.
Open Scope string_scope.
Open Scope list_scope.

Section Session.
Variable P : Type.
Variable pser : P -> P.
Variable F : Type.
Variable dill_dump : sgraph P -> F.

Inductive cop :=
| CWrite (file : string)         (* c.serialise(file) *)
| CSet (g : graph P).            (* c += other / mutation: c._graph is now g *)

Record cstate := mkC { c_graph : graph P; c_files : list (string * F) }.

Definition cstep (st : cstate) (op : cop) : res cstate :=
  match op with
  | CWrite file =>
      bind (cascade_serialise P pser F dill_dump (c_graph st)) (fun x =>
      Ok (mkC (c_graph st) (dict_set file x (c_files st))))
  | CSet g => Ok (mkC g (c_files st))
  end.

Fixpoint crun (st : cstate) (ops : list cop) : res cstate :=
  match ops with
  | [] => Ok st
  | op :: r => bind (cstep st op) (fun st' => crun st' r)
  end.

(* Cascade(g) and a directory *)
Definition cnew (g : graph P) (files : list (string * F)) : cstate := mkC g files.

(* specification side: the graph the object has after `ops`, and whether `ops` writes `file` *)
Fixpoint cur (g : graph P) (ops : list cop) : graph P :=
  match ops with
  | [] => g
  | CWrite _ :: r => cur g r
  | CSet g' :: r => cur g' r
  end.

Fixpoint writes (file : string) (ops : list cop) : bool :=
  match ops with
  | [] => false
  | CWrite f :: r => String.eqb f file || writes file r
  | CSet _ :: r => writes file r
  end.

(* the graphs the object has at the moments it is written *)
Fixpoint written (g : graph P) (ops : list cop) : list (graph P) :=
  match ops with
  | [] => []
  | CWrite _ :: r => g :: written g r
  | CSet g' :: r => written g' r
  end.

End Session.

Arguments CWrite {P}. Arguments CSet {P}.
Arguments mkC {P F}. Arguments c_graph {P F}. Arguments c_files {P F}.
