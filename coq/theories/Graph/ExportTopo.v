(* The graphlib contract assumed in Graph/ExportProofs.v (static_order_sound /
   static_order_complete) is satisfiable: `kahn` of Graph/ExportCheck.v meets it.
   Used by the non-vacuity examples of Props/C12.v and to validate an observed CycleError. *)
From Coq Require Import List String Bool Arith Lia.
From EKW Require Import Graph.GStore Graph.Export Graph.ExportProofs Graph.ExportCheck.
Import ListNotations.
Open Scope string_scope.
Open Scope list_scope.

Lemma kahn_sound : forall deps order, kahn deps = Ok order -> topo_okb deps order = true.
Proof.
  intros deps order H. unfold kahn in H.
  destruct (topo_okb deps (kahn_rounds _ deps _ [])) eqn:E; [|discriminate].
  inversion H; subst. exact E.
Qed.

Lemma dedupe_spec : forall l seen x, In x (dedupe l seen) <-> In x l /\ ~ In x seen.
Proof.
  induction l as [|y r IH]; intros seen x; simpl.
  - tauto.
  - destruct (smemb y seen) eqn:E.
    + apply smemb_In in E. rewrite IH. split.
      * intros [H1 H2]. tauto.
      * intros [[H1 | H1] H2]; [subst; contradiction | tauto].
    + apply smemb_false in E. simpl. rewrite IH. simpl. split.
      * intros [H | [H1 H2]]; [subst; tauto | tauto].
      * intros [[H1 | H1] H2]; [tauto|]. destruct (string_dec y x); [tauto|]. right. tauto.
Qed.

Lemma dedupe_nodup : forall l seen, NoDup (dedupe l seen).
Proof.
  induction l as [|y r IH]; intros seen; simpl.
  - constructor.
  - destruct (smemb y seen); [apply IH|]. constructor; [|apply IH].
    intros H. apply dedupe_spec in H. simpl in H. tauto.
Qed.

Lemma topo_scan_nodup : forall deps o seen, topo_scan deps seen o = true ->
  NoDup o /\ forall x, In x o -> ~ In x seen.
Proof.
  intros deps. induction o as [|n r IH]; intros seen H; simpl in *.
  - split; [constructor | intros x []].
  - apply andb_prop in H. destruct H as [H Hr]. apply andb_prop in H. destruct H as [Hn _].
    apply negb_true_iff in Hn. apply smemb_false in Hn.
    destruct (IH _ Hr) as [Hnd Hseen]. split.
    + constructor; [|exact Hnd]. intros Hin. apply (Hseen n Hin). left. reflexivity.
    + intros x [Hx | Hx]; [subst; exact Hn|]. intros Hs. apply (Hseen x Hx). right. exact Hs.
Qed.

Lemma topo_scan_fresh : forall deps R seen, NoDup R ->
  (forall r, In r R -> ~ In r seen /\ forall d, In d (deps_for r deps) -> In d seen) ->
  topo_scan deps seen R = true.
Proof.
  intros deps. induction R as [|r R IH]; intros seen Hnd H; simpl.
  - reflexivity.
  - inversion Hnd as [|? ? Hni Hnd']; subst.
    destruct (H r (or_introl eq_refl)) as [H1 H2].
    apply andb_true_intro. split; [apply andb_true_intro; split|].
    + apply negb_true_iff. apply smemb_false. exact H1.
    + apply forallb_forall. intros d Hd. apply smemb_In. apply H2. exact Hd.
    + apply IH; [exact Hnd'|]. intros r' Hr'. destruct (H r' (or_intror Hr')) as [H3 H4]. split.
      * intros [Heq | Hin]; [subst; contradiction | contradiction].
      * intros d Hd. right. apply H4. exact Hd.
Qed.

Definition kstep (deps : deps_t) (names E : list string) : list string :=
  E ++ filter (ready deps E) names.

Lemma kahn_rounds_S : forall f deps names E,
  kahn_rounds (S f) deps names E = kstep deps names (kahn_rounds f deps names E).
Proof.
  induction f as [|f IH]; intros deps names E.
  - reflexivity.
  - change (kahn_rounds (S (S f)) deps names E) with (kahn_rounds (S f) deps names (kstep deps names E)).
    rewrite IH. reflexivity.
Qed.

Lemma ready_spec : forall deps E n, ready deps E n = true <->
  ~ In n E /\ forall d, In d (deps_for n deps) -> In d E.
Proof.
  intros deps E n. unfold ready. rewrite andb_true_iff, negb_true_iff, forallb_forall. split.
  - intros [H1 H2]. split; [apply smemb_false; exact H1 | intros d Hd; apply smemb_In; apply H2; exact Hd].
  - intros [H1 H2]. split; [apply smemb_false; exact H1 | intros d Hd; apply smemb_In; apply H2; exact Hd].
Qed.

Lemma rounds_inv : forall deps names, NoDup names -> forall f,
  topo_scan deps [] (kahn_rounds f deps names []) = true /\ incl (kahn_rounds f deps names []) names.
Proof.
  intros deps names Hnd. induction f as [|f [IH1 IH2]].
  - simpl. split; [reflexivity | intros x []].
  - rewrite kahn_rounds_S. unfold kstep. set (E := kahn_rounds f deps names []) in *. split.
    + rewrite topo_scan_app, IH1. rewrite app_nil_r. cbn [andb]. apply topo_scan_fresh.
      * apply NoDup_filter. exact Hnd.
      * intros r Hr. apply filter_In in Hr. destruct Hr as [_ Hr]. apply ready_spec in Hr. destruct Hr as [H1 H2].
        split; [rewrite <- in_rev; exact H1 | intros d Hd; rewrite <- in_rev; apply H2; exact Hd].
    + intros x Hx. apply in_app_or in Hx. destruct Hx as [Hx | Hx]; [apply IH2; exact Hx|].
      apply filter_In in Hx. tauto.
Qed.

Lemma rounds_mono : forall deps names f m x,
  In x (kahn_rounds f deps names []) -> In x (kahn_rounds (m + f) deps names []).
Proof.
  intros deps names f. induction m as [|m IH]; intros x Hx; [exact Hx|].
  change (S m + f) with (S (m + f)). rewrite kahn_rounds_S. unfold kstep. apply in_or_app. left. apply IH. exact Hx.
Qed.

Lemma rounds_progress : forall deps names o, topo_scan deps [] o = true -> incl o names ->
  forall pre post, o = pre ++ post -> incl pre (kahn_rounds (List.length pre) deps names []).
Proof.
  intros deps names o Hscan Hin. induction pre as [|x pre IH] using rev_ind; intros post Ho.
  - intros y [].
  - rewrite app_length. simpl. rewrite Nat.add_comm. cbn [Nat.add].
    rewrite <- app_assoc in Ho. simpl in Ho. specialize (IH _ Ho).
    rewrite kahn_rounds_S. unfold kstep. set (E := kahn_rounds (List.length pre) deps names []) in *.
    intros y Hy. apply in_app_or in Hy. destruct Hy as [Hy | [Hy | []]].
    + apply in_or_app. left. apply IH. exact Hy.
    + subst y. destruct (in_dec string_dec x E) as [HE | HE]; [apply in_or_app; left; exact HE|].
      apply in_or_app. right. apply filter_In. split.
      * apply Hin. rewrite Ho. apply in_or_app. right. left. reflexivity.
      * apply ready_spec. split; [exact HE|]. intros d Hd. apply IH.
        rewrite Ho in Hscan. rewrite topo_scan_app in Hscan. apply andb_prop in Hscan. destruct Hscan as [_ Hscan].
        cbn [topo_scan] in Hscan. apply andb_prop in Hscan. destruct Hscan as [Hscan _].
        apply andb_prop in Hscan. destruct Hscan as [_ Hdeps]. rewrite forallb_forall in Hdeps.
        specialize (Hdeps d Hd). apply smemb_In in Hdeps. rewrite app_nil_r in Hdeps. rewrite <- in_rev in Hdeps. exact Hdeps.
Qed.

Lemma kahn_complete : forall deps, (exists o, topo_okb deps o = true) -> exists order, kahn deps = Ok order.
Proof.
  intros deps [o Ho]. unfold kahn.
  set (names := dedupe (all_names deps) []).
  assert (Hnd : NoDup names) by apply dedupe_nodup.
  assert (Hnames : forall x, In x names <-> In x (all_names deps)).
  { intros x. unfold names. rewrite dedupe_spec. simpl. tauto. }
  unfold topo_okb in Ho. apply andb_prop in Ho. destruct Ho as [Ho Hsub]. apply andb_prop in Ho. destruct Ho as [Hscan Hsup].
  rewrite forallb_forall in Hsub, Hsup.
  assert (Hon : incl o names) by (intros x Hx; apply Hnames; apply smemb_In; apply Hsub; exact Hx).
  destruct (topo_scan_nodup _ _ _ Hscan) as [Hndo _].
  pose proof (NoDup_incl_length Hndo Hon) as Hlen.
  destruct (rounds_inv deps names Hnd (List.length names)) as [H1 H2].
  assert (Hcover : incl o (kahn_rounds (List.length names) deps names [])).
  { intros x Hx. replace (List.length names) with ((List.length names - List.length o) + List.length o) by lia.
    apply rounds_mono. apply (rounds_progress deps names o Hscan Hon o []); [rewrite app_nil_r; reflexivity | exact Hx]. }
  assert (Hok : topo_okb deps (kahn_rounds (List.length names) deps names []) = true).
  { unfold topo_okb. rewrite H1. cbn [andb]. apply andb_true_intro. split; apply forallb_forall; intros x Hx; apply smemb_In.
    - apply Hcover. apply smemb_In. apply Hsup. exact Hx.
    - apply Hnames. apply H2. exact Hx. }
  rewrite Hok. eexists. reflexivity.
Qed.
