(* Model of earthkit.workflows.graph.copy (copy.py:14-26): _Copier.node / .graph over the
   generic engine.  State = the result heap.  No proofs in this file. *)
From Coq Require Import List String Bool Arith.
From EKW Require Import Graph.GStore Graph.Engine.
Import ListNotations.
Open Scope string_scope.
Open Scope list_scope.

Section Copy.
Variable P : Type.

(* def node(self, node, /, **inputs): newnode = node.copy(); newnode.inputs = inputs *)
Definition copy_visit (h' : list (node P)) (n : nat) (nd : node P)
           (inputs : list (string * (nat * string))) : res (list (node P) * nat) :=
  (* Node.copy(): self.__class__(self.name, self.outputs.copy(), self.payload, **self.inputs) *)
  bind (mk_node (nname nd) (Some (nouts nd)) (npay nd) (nins nd)) (fun c =>
  Ok (h' ++ [mkNode (nname c) (nouts c) (npay c) inputs], List.length h')).

(* def graph(self, graph, sinks): return Graph(sinks) *)
Definition copy_graph (g : graph P) : res (graph P) :=
  bind (transform copy_visit out_node (heap g) (sinks g) [])
       (fun x => Ok (mkGraph (fst (fst x)) (snd (fst x)))).

End Copy.
Arguments copy_visit {P}. Arguments copy_graph {P}.
