(* Proofs about the model of Graph/GStore.v and Graph/Export.v: Graph.nodes() terminates
   within its fuel and returns a duplicate-free, parent-closed list containing the sinks;
   serialise succeeds on unique names; deserialise rebuilds every node; Graph.__eq__ of the
   result and the original is True.  No bound on the size of the graph anywhere. *)
From Coq Require Import List String Bool Arith Lia.
From EKW Require Import Graph.GStore Graph.Export.
Import ListNotations.
Open Scope string_scope.
Open Scope list_scope.

(* ------------------------------------------------------------------ basics *)
Lemma memb_In : forall n l, memb n l = true <-> In n l.
Proof.
  intros n l. unfold memb. rewrite existsb_exists. split.
  - intros [x [Hx He]]. apply Nat.eqb_eq in He. subst. exact Hx.
  - intros H. exists n. split; [exact H | apply Nat.eqb_refl].
Qed.

Lemma memb_cons : forall i x l, memb i (x :: l) = Nat.eqb i x || memb i l.
Proof. reflexivity. Qed.

Lemma memb_false : forall n l, memb n l = false <-> ~ In n l.
Proof.
  intros n l. rewrite <- memb_In. destruct (memb n l); split; intros H; congruence.
Qed.

Lemma smemb_In : forall s l, smemb s l = true <-> In s l.
Proof.
  intros s l. unfold smemb. rewrite existsb_exists. split.
  - intros [x [Hx He]]. apply String.eqb_eq in He. subst. exact Hx.
  - intros H. exists s. split; [exact H | apply String.eqb_refl].
Qed.

Lemma smemb_false : forall s l, smemb s l = false <-> ~ In s l.
Proof.
  intros s l. rewrite <- smemb_In. destruct (smemb s l); split; intros H; congruence.
Qed.

Lemma filter_len_le : forall A (f : A -> bool) l, List.length (filter f l) <= List.length l.
Proof. induction l as [|x r IH]; simpl; [lia|]. destruct (f x); simpl; lia. Qed.

Lemma lookup_In : forall A (l : list (string * A)) k v,
  NoDup (map fst l) -> In (k, v) l -> lookup k l = Some v.
Proof.
  intros A l. induction l as [|[k' v'] r IH]; intros k v Hnd Hin; simpl in *.
  - contradiction.
  - inversion Hnd as [|? ? Hni Hnd']; subst.
    destruct Hin as [Heq | Hin].
    + inversion Heq; subst. rewrite String.eqb_refl. reflexivity.
    + destruct (String.eqb k k') eqn:E.
      * apply String.eqb_eq in E. subst. exfalso. apply Hni.
        apply in_map_iff. exists (k', v). split; [reflexivity | exact Hin].
      * apply IH; assumption.
Qed.

Lemma lookup_Some_In : forall A (l : list (string * A)) k v,
  lookup k l = Some v -> In (k, v) l.
Proof.
  intros A l. induction l as [|[k' v'] r IH]; intros k v H; simpl in *.
  - discriminate.
  - destruct (String.eqb k k') eqn:E.
    + apply String.eqb_eq in E. inversion H; subst. left. reflexivity.
    + right. apply IH. exact H.
Qed.

Lemma lookup_key_In : forall A (l : list (string * A)) k,
  In k (map fst l) -> exists v, lookup k l = Some v.
Proof.
  intros A l. induction l as [|[k' v'] r IH]; intros k H; simpl in *.
  - contradiction.
  - destruct (String.eqb k k') eqn:E.
    + eexists. reflexivity.
    + destruct H as [H | H].
      * subst. rewrite String.eqb_refl in E. discriminate.
      * apply IH. exact H.
Qed.

Lemma NoDup_map_inj : forall A B (f : A -> B) l a b,
  NoDup (map f l) -> In a l -> In b l -> f a = f b -> a = b.
Proof.
  intros A B f l. induction l as [|x r IH]; intros a b Hnd Ha Hb Hf; simpl in *.
  - contradiction.
  - inversion Hnd as [|? ? Hni Hnd']; subst.
    destruct Ha as [Ha | Ha], Hb as [Hb | Hb]; subst.
    + reflexivity.
    + exfalso. apply Hni. rewrite Hf. apply in_map. exact Hb.
    + exfalso. apply Hni. rewrite <- Hf. apply in_map. exact Ha.
    + apply IH; assumption.
Qed.

Section Proofs.
Variable P : Type.
Variable peqb : P -> P -> bool.
Variable pser : P -> P.
Variable jp : P -> P.
Variable static_order : deps_t -> res (list string).

Notation node := (node P).
Notation graph := (graph P).
Notation vnode := (vnode P).

(* ------------------------------------------------------------------ Graph.nodes() *)
(* acyclic, in the numbering convention of GStore.v *)
Definition valid_heap (h : list node) : Prop :=
  forall i nd, nth_error h i = Some nd -> forall p, In p (parents nd) -> p < i.

Fixpoint weight_from (i : nat) (h : list node) (done : list nat) : nat :=
  match h with
  | [] => 0
  | nd :: r => (if memb i done then 0 else S (List.length (nins nd))) + weight_from (S i) r done
  end.

Lemma weight_nil : forall h i,
  weight_from i h [] = list_sum (map (fun nd : node => S (List.length (nins nd))) h).
Proof.
  induction h as [|nd r IH]; intros i; simpl; [reflexivity|]. rewrite IH. reflexivity.
Qed.

Lemma weight_mono : forall h i x done, weight_from i h (x :: done) <= weight_from i h done.
Proof.
  induction h as [|nd r IH]; intros i x done; cbn [weight_from]; [lia|].
  specialize (IH (S i) x done). rewrite memb_cons.
  destruct (Nat.eqb i x); destruct (memb i done); simpl; lia.
Qed.

Lemma weight_drop : forall h i n nd done,
  nth_error h n = Some nd -> memb (i + n) done = false ->
  weight_from i h ((i + n) :: done) + S (List.length (nins nd)) <= weight_from i h done.
Proof.
  induction h as [|x r IH]; intros i n nd done Hn Hm.
  - destruct n; discriminate.
  - destruct n as [|n']; simpl in Hn.
    + inversion Hn; subst. rewrite Nat.add_0_r in *. cbn [weight_from]. rewrite memb_cons, Nat.eqb_refl.
      rewrite Hm. pose proof (weight_mono r (S i) i done). simpl. lia.
    + cbn [weight_from]. replace (i + S n') with (S i + n') in * by lia.
      specialize (IH (S i) n' nd done Hn Hm). rewrite memb_cons.
      destruct (Nat.eqb i (S i + n')) eqn:E.
      * apply Nat.eqb_eq in E. lia.
      * destruct (memb i done); cbn [orb]; lia.
Qed.

Definition pclosed (h : list node) (done todo : list nat) : Prop :=
  forall n nd, In n done -> nth_error h n = Some nd ->
  forall p, In p (parents nd) -> In p done \/ In p todo.

Definition consistent (h : list node) (l : list (nat * node)) : Prop :=
  forall n nd, In (n, nd) l -> nth_error h n = Some nd.

Lemma dfs_ok : forall h, valid_heap h -> forall fuel todo done,
  List.length todo + weight_from 0 h (map fst done) < fuel ->
  Forall (fun n => n < List.length h) todo ->
  consistent h done ->
  NoDup (map fst done) ->
  pclosed h (map fst done) todo ->
  exists out, dfs fuel h todo done = Ok out /\ consistent h out /\ NoDup (map fst out) /\
              incl todo (map fst out) /\ incl (map fst done) (map fst out) /\
              pclosed h (map fst out) [].
Proof.
  intros h Hv. induction fuel as [|f IH]; intros todo done Hfuel Hvalid Hcons Hnd Hcl.
  - lia.
  - destruct todo as [|n rest]; simpl.
    + exists (rev done). split; [reflexivity|].
      assert (Hm : map fst (rev done) = rev (map fst done)) by apply map_rev.
      split; [|split; [|split; [|split]]].
      * intros n nd Hin. apply Hcons. rewrite <- in_rev in Hin. exact Hin.
      * rewrite Hm. apply NoDup_rev. exact Hnd.
      * intros x Hx. contradiction.
      * rewrite Hm. intros x Hx. rewrite <- in_rev. exact Hx.
      * rewrite Hm. intros n nd Hin Hn p Hp. rewrite <- in_rev in Hin.
        destruct (Hcl n nd Hin Hn p Hp) as [Hd | Ht]; [|contradiction].
        left. rewrite <- in_rev. exact Hd.
    + inversion Hvalid as [|? ? Hnlt Hvrest]; subst.
      destruct (memb n (map fst done)) eqn:Em.
      * apply memb_In in Em.
        destruct (IH rest done) as [out [Hd [Hc [Hn' [Hi1 [Hi2 Hp]]]]]]; try assumption.
        { simpl in Hfuel. lia. }
        { intros m nd Hin Hm p Hpp. destruct (Hcl m nd Hin Hm p Hpp) as [H1 | [H2 | H3]].
          - left. exact H1.
          - subst. left. exact Em.
          - right. exact H3. }
        exists out. split; [exact Hd|]. split; [exact Hc|]. split; [exact Hn'|]. split; [|split; assumption].
        intros x [Hx | Hx]; [subst; apply Hi2; exact Em | apply Hi1; exact Hx].
      * destruct (nth_error h n) as [nd|] eqn:En; [|apply nth_error_None in En; lia].
        set (push := rev (filter (fun p => negb (memb p (map fst done))) (parents nd))).
        assert (Hpush : forall p, In p push -> In p (parents nd)).
        { intros p Hp. unfold push in Hp. rewrite <- in_rev in Hp. apply filter_In in Hp. tauto. }
        destruct (IH (push ++ rest) ((n, nd) :: done)) as [out [Hd [Hc [Hn' [Hi1 [Hi2 Hp]]]]]].
        { simpl. pose proof (weight_drop h 0 n nd (map fst done) En Em) as Hw. simpl in Hw.
          rewrite app_length. unfold push. rewrite rev_length.
          pose proof (filter_len_le _ (fun p => negb (memb p (map fst done))) (parents nd)) as Hfl.
          unfold parents in Hfl at 2. rewrite map_length in Hfl. simpl in Hfuel. lia. }
        { apply Forall_app. split; [|exact Hvrest]. apply Forall_forall. intros p Hp.
          apply Hpush in Hp. specialize (Hv n nd En p Hp). lia. }
        { intros m md [Heq | Hin]; [inversion Heq; subst; exact En | apply Hcons; exact Hin]. }
        { simpl. constructor; [apply memb_false; exact Em | exact Hnd]. }
        { intros m md Hin Hm p Hpp. simpl in Hin. destruct Hin as [Heq | Hin].
          - subst m. rewrite En in Hm. inversion Hm; subst md.
            destruct (memb p (map fst done)) eqn:Ep.
            + left. simpl. right. apply memb_In. exact Ep.
            + right. apply in_or_app. left. unfold push. rewrite <- in_rev.
              apply filter_In. split; [exact Hpp | rewrite Ep; reflexivity].
          - destruct (Hcl m md Hin Hm p Hpp) as [H1 | [H2 | H3]].
            + left. simpl. right. exact H1.
            + subst. left. simpl. left. reflexivity.
            + right. apply in_or_app. right. exact H3. }
        exists out. split; [exact Hd|]. split; [exact Hc|]. split; [exact Hn'|]. split; [|split].
        -- intros x [Hx | Hx].
           ++ subst. apply Hi2. simpl. left. reflexivity.
           ++ apply Hi1. apply in_or_app. right. exact Hx.
        -- intros x Hx. apply Hi2. simpl. right. exact Hx.
        -- exact Hp.
Qed.

Lemma nodes_ok : forall g : graph,
  valid_heap (heap g) -> Forall (fun s => s < List.length (heap g)) (sinks g) ->
  exists ns, nodes g = Ok ns /\ consistent (heap g) ns /\ NoDup (map fst ns) /\
             incl (sinks g) (map fst ns) /\ pclosed (heap g) (map fst ns) [].
Proof.
  intros g Hv Hs. unfold nodes.
  destruct (dfs_ok (heap g) Hv (fuel_of g) (rev (sinks g)) []) as [out [Hd [Hc [Hn [Hi1 [_ Hp]]]]]].
  - simpl. rewrite weight_nil. rewrite rev_length. unfold fuel_of. lia.
  - apply Forall_forall. intros x Hx. rewrite <- in_rev in Hx. rewrite Forall_forall in Hs. apply Hs. exact Hx.
  - intros n nd Hin. contradiction.
  - constructor.
  - intros n nd Hin. contradiction.
  - exists out. split; [exact Hd|]. split; [exact Hc|]. split; [exact Hn|]. split; [|exact Hp].
    intros x Hx. apply Hi1. rewrite <- in_rev. exact Hx.
Qed.

(* ------------------------------------------------------------------ serialise *)
(* the serialised form, generalised over the tuple/list flag and over what happened to the
   payload on the way (pser for the dict and file paths, jp after pser for the JSON path) *)
Section Shape.
Variable tup : bool.
Variable f : P -> P.

Definition out_ser' (pname oname : string) : ssrc :=
  if String.eqb oname DEFAULT_OUTPUT then SBare pname else SPair tup pname oname.

Definition ser_in (x : string * (string * string)) : string * ssrc :=
  (fst x, out_ser' (fst (snd x)) (snd (snd x))).

Definition node_ser' (v : vnode) : snode P :=
  mkS (Some (vouts v)) (Some (map ser_in (vins v))) (option_map f (vpay v)).

Definition sdata (vs : list vnode) : sgraph P := map (fun v => (vname v, node_ser' v)) vs.

Definition vdeps (vs : list vnode) : deps_t :=
  map (fun v => (vname v, map (fun x : string * (string * string) => fst (snd x)) (vins v))) vs.


Lemma src_parent_out_ser : forall p o, src_parent (out_ser' p o) = p.
Proof. intros p o. unfold out_ser'. destruct (String.eqb o DEFAULT_OUTPUT); reflexivity. Qed.

Lemma get_output_out_ser : forall (nd : node) p o, In o (nouts nd) ->
  get_output nd (src_out (out_ser' p o)) = Ok o.
Proof.
  intros nd p o Hin. unfold out_ser'. destruct (String.eqb o DEFAULT_OUTPUT) eqn:E; simpl; unfold get_output.
  - apply String.eqb_eq in E. subst o. apply smemb_In in Hin. rewrite Hin. reflexivity.
  - apply smemb_In in Hin. rewrite Hin. reflexivity.
Qed.

Lemma deps_sdata : forall vs, deps_of P (sdata vs) = vdeps vs.
Proof.
  intros vs. unfold deps_of, sdata, vdeps. rewrite map_map. apply map_ext. intros v. simpl.
  f_equal. unfold ins_of. simpl. rewrite map_map. apply map_ext. intros x. simpl.
  apply src_parent_out_ser.
Qed.

(* what the property needs of the list of nodes (by name) *)
Record good (vs : list vnode) : Prop := {
  g_names : NoDup (map vname vs);
  g_keys : forall v, In v vs -> NoDup (map fst (vins v));
  g_kw : forall v, In v vs -> forall k, In k (map fst (vins v)) -> ~ In k reserved_ctor;
  g_refs : forall v, In v vs -> forall x, In x (vins v) ->
           exists pv, In pv vs /\ vname pv = fst (snd x) /\ In (snd (snd x)) (vouts pv) }.

Lemma lookup_sdata : forall vs v, NoDup (map vname vs) -> In v vs ->
  lookup (vname v) (sdata vs) = Some (node_ser' v).
Proof.
  intros vs v Hnd Hin. apply lookup_In.
  - unfold sdata. rewrite map_map. simpl. exact Hnd.
  - unfold sdata. apply in_map_iff. exists v. split; [reflexivity | exact Hin].
Qed.

Lemma deps_for_vdeps : forall vs v, NoDup (map vname vs) -> In v vs ->
  deps_for (vname v) (vdeps vs) = map (fun x : string * (string * string) => fst (snd x)) (vins v).
Proof.
  intros vs v Hnd Hin. unfold deps_for. erewrite lookup_In; [reflexivity | |].
  - unfold vdeps. rewrite map_map. simpl. exact Hnd.
  - unfold vdeps. apply in_map_iff. exists v. split; [reflexivity | exact Hin].
Qed.

(* ------------------------------------------------------------------ deserialise *)
(* the node that comes back: the payload went through .serialise() *)
Definition dview (v : vnode) : vnode := mkV (vname v) (vouts v) (option_map f (vpay v)) (vins v).

Definition reviewed (h : list node) (kw : list (string * (nat * string))) : list (string * (string * string)) :=
  map (fun y => (fst y, (name_of h (fst (snd y)), snd (snd y)))) kw.

Lemma resolve_all_ok : forall m (h : list node) ins,
  (forall x, In x ins -> exists k ndp, lookup (fst (snd x)) m = Some k /\ nth_error h k = Some ndp /\
                                        nname ndp = fst (snd x) /\ In (snd (snd x)) (nouts ndp)) ->
  exists kw, resolve_all P m h (map ser_in ins) = Ok kw /\ reviewed h kw = ins /\
             map fst kw = map fst ins /\ (forall y, In y kw -> fst (snd y) < List.length h).
Proof.
  intros m h. induction ins as [|[i [p o]] r IH]; intros Hall.
  - exists []. simpl. repeat split; try reflexivity. intros y Hy. contradiction.
  - destruct (Hall (i, (p, o))) as [k [ndp [Hl [Hn [Hnm Ho]]]]]; [left; reflexivity|]. simpl in Hl, Hnm, Ho.
    destruct IH as [kw [Hr [Hv [Hk Hlt]]]]; [intros x Hx; apply Hall; right; exact Hx|].
    exists ((i, (k, o)) :: kw). cbn [map ser_in fst snd resolve_all].
    unfold resolve. rewrite src_parent_out_ser, Hl, Hn, (get_output_out_ser ndp p o Ho).
    cbn [bind]. rewrite Hr. cbn [bind]. split; [reflexivity|]. split; [|split].
    + unfold reviewed in *. cbn [map fst snd]. rewrite Hv. unfold name_of. rewrite Hn, Hnm. reflexivity.
    + cbn [map fst]. rewrite Hk. reflexivity.
    + intros y [Hy | Hy]; [subst y; cbn [fst snd]; apply nth_error_Some; congruence | apply Hlt; exact Hy].
Qed.

Record Inv (vs : list vnode) (consumed : list string) (st : bstate P) : Prop := {
  i_map : forall name k, lookup name (b_map st) = Some k ->
          exists nd v, nth_error (b_heap st) k = Some nd /\ In v vs /\ vname v = name /\
                       view (b_heap st) nd = dview v;
  i_heap : forall k nd, nth_error (b_heap st) k = Some nd -> lookup (nname nd) (b_map st) = Some k;
  i_topo : valid_heap (b_heap st);
  i_sinks_valid : forall k, In k (b_sinks st) -> k < List.length (b_heap st);
  i_sinks : forall name k, lookup name (b_map st) = Some k -> smemb name consumed = false ->
            In k (b_sinks st) }.

Lemma name_of_app : forall (h : list node) x p, p < List.length h -> name_of (h ++ [x]) p = name_of h p.
Proof. intros h x p Hp. unfold name_of. rewrite nth_error_app1 by exact Hp. reflexivity. Qed.

Lemma view_app : forall (h : list node) x nd, (forall p, In p (parents nd) -> p < List.length h) ->
  view (h ++ [x]) nd = view h nd.
Proof.
  intros h x nd Hp. unfold view. f_equal. apply map_ext_in. intros y Hy.
  rewrite name_of_app; [reflexivity|]. apply Hp. unfold parents. apply in_map_iff. exists y. split; [reflexivity | exact Hy].
Qed.

Lemma lookup_key_in : forall A (l : list (string * A)) k v, lookup k l = Some v -> In k (map fst l).
Proof.
  intros A l k v H. apply lookup_Some_In in H. apply in_map_iff. exists (k, v). split; [reflexivity | exact H].
Qed.

Lemma build_step_ok : forall vs, good vs -> forall consumed st n,
  Inv vs consumed st ->
  smemb n (map fst (b_map st)) = false ->
  forallb (fun d => smemb d (map fst (b_map st))) (deps_for n (vdeps vs)) = true ->
  In n (map vname vs) ->
  exists st', build_step P true (sdata vs) consumed st n = Ok st' /\ Inv vs consumed st' /\
              map fst (b_map st') = n :: map fst (b_map st).
Proof.
  intros vs Hg consumed st n HI Hfresh Hdeps Hin.
  apply in_map_iff in Hin. destruct Hin as [v [Hvn Hv]]. subst n.
  unfold build_step. rewrite (lookup_sdata vs v (g_names vs Hg) Hv).
  rewrite (deps_for_vdeps vs v (g_names vs Hg) Hv) in Hdeps. rewrite forallb_forall in Hdeps.
  assert (Hins : ins_of P (node_ser' v) = map ser_in (vins v)) by reflexivity.
  rewrite Hins.
  destruct (resolve_all_ok (b_map st) (b_heap st) (vins v)) as [kw [Hr [Hrv [Hk Hlt]]]].
  { intros x Hx.
    assert (Hd : smemb (fst (snd x)) (map fst (b_map st)) = true).
    { apply Hdeps. apply in_map_iff. exists x. split; [reflexivity | exact Hx]. }
    apply smemb_In in Hd. apply lookup_key_In in Hd. destruct Hd as [k Hl].
    destruct (i_map _ _ _ HI _ _ Hl) as [ndp [vp [Hn [Hvp [Hvpn Hview]]]]].
    destruct (g_refs vs Hg v Hv x Hx) as [pv [Hpv [Hpvn Hpo]]].
    assert (pv = vp).
    { apply (NoDup_map_inj _ _ vname vs); try assumption; [apply (g_names vs Hg) | congruence]. }
    subst pv. exists k, ndp. split; [exact Hl|]. split; [exact Hn|].
    assert (Hnn : nname ndp = vname vp) by (change (vname (view (b_heap st) ndp) = vname vp); rewrite Hview; reflexivity).
    assert (Hno : nouts ndp = vouts vp) by (change (vouts (view (b_heap st) ndp) = vouts vp); rewrite Hview; reflexivity).
    split; [congruence | rewrite Hno; exact Hpo]. }
  rewrite Hr. cbn [bind].
  assert (Hnores : existsb (fun k => smemb k reserved_ctor) (map fst kw) = false).
  { rewrite Hk. apply not_true_is_false. intros Hex. apply existsb_exists in Hex.
    destruct Hex as [k [Hkin Hkr]]. apply smemb_In in Hkr. exact (g_kw vs Hg v Hv k Hkin Hkr). }
  assert (Hnofac : existsb (fun k => smemb k reserved_factory) (map fst kw) = false).
  { rewrite Hk. apply not_true_is_false. intros Hex. apply existsb_exists in Hex.
    destruct Hex as [k [Hkin Hkr]]. apply smemb_In in Hkr. apply (g_kw vs Hg v Hv k Hkin).
    simpl in Hkr. simpl. tauto. }
  set (nd := mkNode (vname v) (vouts v) (option_map f (vpay v)) kw).
  assert (Hdn : deserialise_node P (vname v) (node_ser' v) kw = Ok nd).
  { unfold deserialise_node, default_node_factory. rewrite Hnofac.
    change (outs_of P (node_ser' v)) with (vouts v).
    change (s_pay (node_ser' v)) with (option_map f (vpay v)).
    unfold nd. destruct (vouts v); unfold mk_node; rewrite Hnores; reflexivity. }
  rewrite Hdn. cbn [bind].
  assert (Hcons : negb (smemb (vname v) consumed) = true -> True) by trivial.
  eexists. split; [reflexivity|].
  assert (Hparents : forall p, In p (parents nd) -> p < List.length (b_heap st)).
  { intros p Hp. unfold parents in Hp. apply in_map_iff in Hp. destruct Hp as [y [Hy Hyin]]. subst p. apply Hlt. exact Hyin. }
  assert (Hviewnd : view (b_heap st ++ [nd]) nd = dview v).
  { rewrite view_app by exact Hparents. unfold view, dview. cbn [nname nouts npay nins nd]. f_equal. exact Hrv. }
  split; [|reflexivity]. constructor; cbn [b_map b_heap b_sinks].
  - intros name k Hl. cbn [lookup] in Hl. destruct (String.eqb name (vname v)) eqn:E.
    + apply String.eqb_eq in E. inversion Hl; subst. exists nd, v.
      split; [rewrite nth_error_app2 by lia; rewrite Nat.sub_diag; reflexivity|].
      split; [exact Hv|]. split; [reflexivity | exact Hviewnd].
    + destruct (i_map _ _ _ HI _ _ Hl) as [nd0 [v0 [Hn0 [Hv0 [Hv0n Hview0]]]]].
      exists nd0, v0. assert (Hk0 : k < List.length (b_heap st)) by (apply nth_error_Some; congruence).
      split; [rewrite nth_error_app1 by exact Hk0; exact Hn0|]. split; [exact Hv0|]. split; [exact Hv0n|].
      rewrite view_app; [exact Hview0|]. intros p Hp. specialize (i_topo _ _ _ HI k nd0 Hn0 p Hp). lia.
  - intros k nd0 Hn0. cbn [lookup].
    destruct (Nat.lt_ge_cases k (List.length (b_heap st))) as [Hlt0 | Hge0].
    + rewrite nth_error_app1 in Hn0 by exact Hlt0. pose proof (i_heap _ _ _ HI k nd0 Hn0) as Hl0.
      destruct (String.eqb (nname nd0) (vname v)) eqn:E; [|exact Hl0].
      apply String.eqb_eq in E. apply lookup_key_in in Hl0. rewrite E in Hl0.
      apply smemb_false in Hfresh. contradiction.
    + rewrite nth_error_app2 in Hn0 by exact Hge0.
      destruct (k - List.length (b_heap st)) as [|d] eqn:Ed; [|destruct d; discriminate].
      simpl in Hn0. inversion Hn0; subst nd0. cbn [nname nd]. rewrite String.eqb_refl. f_equal. lia.
  - intros k nd0 Hn0 p Hp.
    destruct (Nat.lt_ge_cases k (List.length (b_heap st))) as [Hlt0 | Hge0].
    + rewrite nth_error_app1 in Hn0 by exact Hlt0. exact (i_topo _ _ _ HI k nd0 Hn0 p Hp).
    + rewrite nth_error_app2 in Hn0 by exact Hge0.
      destruct (k - List.length (b_heap st)) as [|d] eqn:Ed; [|destruct d; discriminate].
      simpl in Hn0. inversion Hn0; subst nd0. specialize (Hparents p Hp). lia.
  - intros k Hkin. rewrite app_length. simpl.
    destruct (negb (smemb (vname v) consumed)).
    + apply in_app_or in Hkin. destruct Hkin as [Hkin | [Hkin | []]].
      * specialize (i_sinks_valid _ _ _ HI k Hkin). lia.
      * lia.
    + specialize (i_sinks_valid _ _ _ HI k Hkin). lia.
  - intros name k Hl Hnc. cbn [lookup] in Hl. destruct (String.eqb name (vname v)) eqn:E.
    + apply String.eqb_eq in E. subst name. inversion Hl; subst k. rewrite Hnc. simpl.
      apply in_or_app. right. left. reflexivity.
    + pose proof (i_sinks _ _ _ HI name k Hl Hnc) as Hs.
      destruct (negb (smemb (vname v) consumed)); [apply in_or_app; left; exact Hs | exact Hs].
Qed.

Lemma build_ok : forall vs, good vs -> forall consumed order st,
  Inv vs consumed st ->
  topo_scan (vdeps vs) (map fst (b_map st)) order = true ->
  (forall n, In n order -> In n (map vname vs)) ->
  exists st', build P true (sdata vs) consumed st order = Ok st' /\ Inv vs consumed st' /\
              map fst (b_map st') = rev order ++ map fst (b_map st).
Proof.
  intros vs Hg consumed. induction order as [|n r IH]; intros st HI Hscan Hnames.
  - exists st. simpl. auto.
  - cbn [topo_scan] in Hscan. apply andb_prop in Hscan. destruct Hscan as [Hscan Hrest].
    apply andb_prop in Hscan. destruct Hscan as [Hfresh Hdeps]. apply negb_true_iff in Hfresh.
    destruct (build_step_ok vs Hg consumed st n HI Hfresh Hdeps) as [st1 [Hs1 [HI1 Hm1]]]; [apply Hnames; left; reflexivity|].
    destruct (IH st1 HI1) as [st2 [Hs2 [HI2 Hm2]]].
    + rewrite Hm1. exact Hrest.
    + intros m Hm. apply Hnames. right. exact Hm.
    + exists st2. cbn [build]. rewrite Hs1. cbn [bind]. split; [exact Hs2|]. split; [exact HI2|].
      rewrite Hm2, Hm1. simpl. rewrite <- app_assoc. reflexivity.
Qed.

Lemma Inv_init : forall vs consumed, Inv vs consumed (mkB [] [] []).
Proof.
  intros vs consumed. constructor; cbn [b_map b_heap b_sinks].
  - intros name k H. discriminate.
  - intros k nd H. destruct k; discriminate.
  - intros k nd H. destruct k; discriminate.
  - intros k H. contradiction.
  - intros name k H. discriminate.
Qed.

(* every rebuilt node is reachable from the nodes nobody consumes *)
Lemma all_reached : forall vs st out, good vs ->
  Inv vs (List.concat (map snd (vdeps vs))) st ->
  (forall v, In v vs -> exists k, lookup (vname v) (b_map st) = Some k) ->
  incl (b_sinks st) out -> pclosed (b_heap st) out [] ->
  forall d k, List.length (b_heap st) - k <= d -> k < List.length (b_heap st) -> In k out.
Proof.
  intros vs st out Hg HI Hall Hsk Hcl. induction d as [|d IH]; intros k Hd Hk; [lia|].
  destruct (nth_error (b_heap st) k) as [nd|] eqn:En; [|apply nth_error_None in En; lia].
  pose proof (i_heap _ _ _ HI k nd En) as Hl.
  destruct (smemb (nname nd) (List.concat (map snd (vdeps vs)))) eqn:Ec.
  - apply smemb_In in Ec. apply in_concat in Ec. destruct Ec as [ds [Hds Hname]].
    apply in_map_iff in Hds. destruct Hds as [[n2 ds2] [Heq Hin2]]. simpl in Heq. subst ds2.
    unfold vdeps in Hin2. apply in_map_iff in Hin2. destruct Hin2 as [v2 [Heq2 Hv2]]. inversion Heq2; subst n2 ds.
    apply in_map_iff in Hname. destruct Hname as [x [Hxp Hx]].
    destruct (Hall v2 Hv2) as [k2 Hl2].
    destruct (i_map _ _ _ HI _ _ Hl2) as [nd2 [v2' [Hn2 [Hv2' [Hv2n Hview2]]]]].
    assert (v2' = v2) by (apply (NoDup_map_inj _ _ vname vs); try assumption; apply (g_names vs Hg)).
    subst v2'.
    assert (Hins : reviewed (b_heap st) (nins nd2) = vins v2).
    { change (vins (view (b_heap st) nd2) = vins v2). rewrite Hview2. reflexivity. }
    rewrite <- Hins in Hx. unfold reviewed in Hx. apply in_map_iff in Hx. destruct Hx as [y [Hy Hyin]].
    subst x. cbn [fst snd] in Hxp.
    assert (Hpar : In (fst (snd y)) (parents nd2)).
    { unfold parents. apply in_map_iff. exists y. split; [reflexivity | exact Hyin]. }
    pose proof (i_topo _ _ _ HI k2 nd2 Hn2 _ Hpar) as Hlt.
    assert (Hk2 : k2 < List.length (b_heap st)) by (apply nth_error_Some; congruence).
    destruct (nth_error (b_heap st) (fst (snd y))) as [ndp|] eqn:Ep; [|apply nth_error_None in Ep; lia].
    unfold name_of in Hxp. rewrite Ep in Hxp.
    pose proof (i_heap _ _ _ HI _ ndp Ep) as Hlp. rewrite Hxp, Hl in Hlp. inversion Hlp as [Hkp].
    assert (Hin2 : In k2 out) by (apply IH; lia).
    destruct (Hcl k2 nd2 Hin2 Hn2 _ Hpar) as [H | []]. congruence.
  - apply Hsk. exact (i_sinks _ _ _ HI _ _ Hl Ec).
Qed.

(* ------------------------------------------------------------------ Graph.__eq__ *)
Lemma dict_set_fresh : forall A k (v : A) l, ~ In k (map fst l) -> dict_set k v l = l ++ [(k, v)].
Proof.
  intros A k v. induction l as [|[k' v'] r IH]; intros Hni; simpl.
  - reflexivity.
  - destruct (String.eqb k k') eqn:E.
    + apply String.eqb_eq in E. subst. exfalso. apply Hni. simpl. left. reflexivity.
    + rewrite IH; [reflexivity|]. intros H. apply Hni. simpl. right. exact H.
Qed.

Lemma mkdict_acc : forall (vs : list vnode) acc, NoDup (map fst acc ++ map vname vs) ->
  fold_left (fun d v => dict_set (vname v) v d) vs acc = acc ++ map (fun v => (vname v, v)) vs.
Proof.
  induction vs as [|v r IH]; intros acc Hnd; simpl.
  - rewrite app_nil_r. reflexivity.
  - assert (Hni : ~ In (vname v) (map fst acc)).
    { simpl in Hnd. apply NoDup_remove_2 in Hnd. intros H. apply Hnd. apply in_or_app. left. exact H. }
    rewrite dict_set_fresh by exact Hni. rewrite IH.
    + rewrite <- app_assoc. reflexivity.
    + rewrite map_app. simpl. rewrite <- app_assoc. simpl. exact Hnd.
Qed.

Lemma mkdict_nodup : forall vs : list vnode, NoDup (map vname vs) ->
  mkdict P vs = map (fun v => (vname v, v)) vs.
Proof. intros vs Hnd. unfold mkdict. rewrite mkdict_acc; [reflexivity | exact Hnd]. Qed.

Lemma list_eqb_refl : forall l, list_eqb String.eqb l l = true.
Proof. induction l as [|x r IH]; simpl; [reflexivity|]. rewrite String.eqb_refl, IH. reflexivity. Qed.

Lemma keys_seteq_refl : forall l, keys_seteq l l = true.
Proof.
  intros l. unfold keys_seteq. assert (H : forallb (fun k => smemb k l) l = true).
  { apply forallb_forall. intros x Hx. apply smemb_In. exact Hx. }
  rewrite H. reflexivity.
Qed.

Lemma veqb_dview : forall v : vnode, NoDup (map fst (vins v)) ->
  pay_eqb P peqb (option_map f (vpay v)) (vpay v) = true ->
  veqb P peqb (dview v) v = true.
Proof.
  intros v Hnd Hpay. unfold veqb, dview. cbn [vname vouts vpay vins].
  rewrite String.eqb_refl, list_eqb_refl, keys_seteq_refl, Hpay. cbn [andb].
  rewrite andb_true_r. apply forallb_forall. intros [i [p o]] Hx.
  cbn [fst snd]. rewrite (lookup_In _ (vins v) i (p, o) Hnd Hx). cbn [fst snd]. rewrite !String.eqb_refl. reflexivity.
Qed.

Lemma graph_eq_ok : forall (a b : graph) va vb,
  vnodes a = Ok va -> vnodes b = Ok vb ->
  NoDup (map vname va) -> NoDup (map vname vb) ->
  (forall x, In x va -> exists v, In v vb /\ x = dview v) ->
  (forall v, In v vb -> In (vname v) (map vname va)) ->
  (forall v, In v vb -> NoDup (map fst (vins v)) /\ pay_eqb P peqb (option_map f (vpay v)) (vpay v) = true) ->
  graph_eq P peqb a b = Ok true.
Proof.
  intros a b va vb Ha Hb Hna Hnb Hfw Hbw Hok. unfold graph_eq. rewrite Ha, Hb. cbn [bind].
  rewrite (mkdict_nodup va Hna), (mkdict_nodup vb Hnb).
  assert (Hk : forall l : list vnode, map fst (map (fun v => (vname v, v)) l) = map vname l).
  { intros l. rewrite map_map. reflexivity. }
  rewrite !Hk.
  assert (Hse : keys_seteq (map vname va) (map vname vb) = true).
  { unfold keys_seteq. apply andb_true_intro. split; apply forallb_forall; intros x Hx; apply smemb_In.
    - apply in_map_iff in Hx. destruct Hx as [y [Hy Hyin]]. destruct (Hfw y Hyin) as [v [Hv Hyv]].
      subst y x. change (vname (dview v)) with (vname v). apply in_map. exact Hv.
    - apply in_map_iff in Hx. destruct Hx as [v [Hv Hvin]]. subst x. apply Hbw. exact Hvin. }
  rewrite Hse. cbn [negb]. f_equal. apply forallb_forall. intros x Hx.
  apply in_map_iff in Hx. destruct Hx as [y [Hy Hyin]]. subst x. cbn [fst snd].
  destruct (Hfw y Hyin) as [v [Hv Hyv]]. subst y. change (vname (dview v)) with (vname v).
  erewrite lookup_In; [| rewrite Hk; exact Hnb | apply in_map_iff; exists v; split; [reflexivity | exact Hv]].
  destruct (Hok v Hv) as [H1 H2]. apply veqb_dview; assumption.
Qed.


End Shape.

Lemma node_ser_shape : forall v : vnode, node_ser P pser v = node_ser' true pser v.
Proof. reflexivity. Qed.

Lemma ser_loop_ok : forall vs data, NoDup (map fst data ++ map vname vs) ->
  ser_loop P pser vs data = Ok (data ++ sdata true pser vs).
Proof.
  induction vs as [|v r IH]; intros data Hnd; simpl.
  - rewrite app_nil_r. reflexivity.
  - assert (Hni : ~ In (vname v) (map fst data)).
    { simpl in Hnd. apply NoDup_remove_2 in Hnd. intros H. apply Hnd. apply in_or_app. left. exact H. }
    apply smemb_false in Hni. rewrite Hni. rewrite IH.
    + rewrite <- app_assoc. reflexivity.
    + rewrite map_app. simpl. rewrite <- app_assoc. simpl. exact Hnd.
Qed.

(* ------------------------------------------------------------------ a topological order exists *)
Lemma topo_scan_app : forall deps a b seen,
  topo_scan deps seen (a ++ b) = topo_scan deps seen a && topo_scan deps (rev a ++ seen) b.
Proof.
  intros deps. induction a as [|n r IH]; intros b seen; simpl.
  - reflexivity.
  - rewrite IH. rewrite <- app_assoc. simpl. rewrite !andb_assoc. reflexivity.
Qed.

Fixpoint ord (h : list node) (S : list nat) (i : nat) : list string :=
  match i with
  | O => []
  | S j => ord h S j ++ (if memb j S then [name_of h j] else [])
  end.

Lemma ord_spec : forall (h : list node) (S : list nat) deps,
  (forall a b, In a S -> In b S -> name_of h a = name_of h b -> a = b) ->
  (forall a, In a S -> forall d, In d (deps_for (name_of h a) deps) ->
             exists p, p < a /\ In p S /\ d = name_of h p) ->
  forall i, topo_scan deps [] (ord h S i) = true /\
            (forall p, p < i -> In p S -> In (name_of h p) (ord h S i)) /\
            (forall n, In n (ord h S i) -> exists p, p < i /\ In p S /\ n = name_of h p).
Proof.
  intros h S deps Hinj Hdeps. induction i as [|i [IH1 [IH2 IH3]]].
  - simpl. split; [reflexivity|]. split; [intros p Hp; lia | intros n []].
  - cbn [ord]. destruct (memb i S) eqn:Em.
    + apply memb_In in Em. split; [|split].
      * rewrite topo_scan_app, IH1. rewrite app_nil_r. cbn [topo_scan andb].
        rewrite andb_true_r. apply andb_true_intro. split.
        -- apply negb_true_iff. apply smemb_false. intros Hin. rewrite <- in_rev in Hin.
           destruct (IH3 _ Hin) as [p [Hp [HpS Hpn]]]. apply Hinj in Hpn; try assumption. lia.
        -- apply forallb_forall. intros d Hd. apply smemb_In. rewrite <- in_rev.
           destruct (Hdeps i Em d Hd) as [p [Hp [HpS Hpn]]]. subst d. apply IH2; assumption.
      * intros p Hp HpS. apply in_or_app. destruct (Nat.eq_dec p i) as [-> | Hne].
        -- right. left. reflexivity.
        -- left. apply IH2; [lia | exact HpS].
      * intros n Hn. apply in_app_or in Hn. destruct Hn as [Hn | [Hn | []]].
        -- destruct (IH3 n Hn) as [p [Hp H]]. exists p. split; [lia | exact H].
        -- exists i. split; [lia|]. split; [exact Em | symmetry; exact Hn].
    + rewrite app_nil_r. split; [exact IH1|]. split.
      * intros p Hp HpS. destruct (Nat.eq_dec p i) as [-> | Hne].
        -- apply memb_In in HpS. congruence.
        -- apply IH2; [lia | exact HpS].
      * intros n Hn. destruct (IH3 n Hn) as [p [Hp H]]. exists p. split; [lia | exact H].
Qed.

(* ------------------------------------------------------------------ the graphs of the property *)
Record wf (g : graph) : Prop := {
  wf_topo : valid_heap (heap g);
  wf_sinks : Forall (fun s => s < List.length (heap g)) (sinks g);
  wf_refs : forall i nd, nth_error (heap g) i = Some nd -> forall x, In x (nins nd) ->
            exists pn, nth_error (heap g) (fst (snd x)) = Some pn /\ In (snd (snd x)) (nouts pn);
  wf_keys : forall i nd, nth_error (heap g) i = Some nd -> NoDup (map fst (nins nd)) }.

(* every input name can be passed to Node(...) as a keyword *)
Definition kw_ok (g : graph) : Prop :=
  forall i nd, nth_error (heap g) i = Some nd -> forall k, In k (map fst (nins nd)) -> ~ In k reserved_ctor.

(* the names of graph.nodes() are distinct *)
Definition unique_names (g : graph) : Prop :=
  forall ns, nodes g = Ok ns -> NoDup (map (fun x : nat * node => nname (snd x)) ns).

(* `payload_through f g`: every payload p of g satisfies  not (f p != p) *)
Definition payload_through (f : P -> P) (g : graph) : Prop :=
  forall i nd p, nth_error (heap g) i = Some nd -> npay nd = Some p -> peqb (f p) p = true.

Definition views_of (g : graph) (ns : list (nat * node)) : list vnode :=
  map (fun x => view (heap g) (snd x)) ns.

Lemma pclosed_in : forall (h : list node) (ns : list (nat * node)) n nd p,
  consistent h ns -> pclosed h (map fst ns) [] -> In (n, nd) ns -> In p (parents nd) ->
  exists pn, In (p, pn) ns /\ nth_error h p = Some pn.
Proof.
  intros h ns n nd p Hc Hcl Hin Hp.
  destruct (Hcl n nd) with (p := p) as [H | []]; try assumption.
  - apply in_map_iff. exists (n, nd). split; [reflexivity | exact Hin].
  - apply Hc. exact Hin.
  - apply in_map_iff in H. destruct H as [[p' pn] [Heq Hpin]]. simpl in Heq. subst p'.
    exists pn. split; [exact Hpin | apply Hc; exact Hpin].
Qed.

Lemma good_views : forall g ns, wf g -> kw_ok g -> unique_names g ->
  nodes g = Ok ns -> consistent (heap g) ns -> pclosed (heap g) (map fst ns) [] ->
  good (views_of g ns).
Proof.
  intros g ns Hwf Hkw Hun Hns Hc Hcl. unfold views_of. constructor.
  - rewrite map_map. simpl. apply Hun. exact Hns.
  - intros v Hv. apply in_map_iff in Hv. destruct Hv as [[n nd] [Hv Hin]]. subst v. simpl.
    rewrite map_map. simpl. exact (wf_keys g Hwf n nd (Hc _ _ Hin)).
  - intros v Hv k Hk. apply in_map_iff in Hv. destruct Hv as [[n nd] [Hv Hin]]. subst v. simpl in Hk.
    rewrite map_map in Hk. simpl in Hk. exact (Hkw n nd (Hc _ _ Hin) k Hk).
  - intros v Hv x Hx. apply in_map_iff in Hv. destruct Hv as [[n nd] [Hv Hin]]. subst v. simpl in Hx.
    apply in_map_iff in Hx. destruct Hx as [y [Hy Hyin]]. subst x. cbn [fst snd].
    destruct (wf_refs g Hwf n nd (Hc _ _ Hin) y Hyin) as [pn [Hpn Ho]].
    destruct (pclosed_in (heap g) ns n nd (fst (snd y)) Hc Hcl Hin) as [pn' [Hpin Hpn']].
    { unfold parents. apply in_map_iff. exists y. split; [reflexivity | exact Hyin]. }
    assert (pn' = pn) by congruence. subst pn'.
    exists (view (heap g) pn). split; [|split].
    + apply in_map_iff. exists (fst (snd y), pn). split; [reflexivity | exact Hpin].
    + simpl. unfold name_of. rewrite Hpn. reflexivity.
    + simpl. exact Ho.
Qed.

Lemma order_exists : forall g ns, wf g -> kw_ok g -> unique_names g ->
  nodes g = Ok ns -> consistent (heap g) ns -> pclosed (heap g) (map fst ns) [] ->
  exists o, topo_okb (vdeps (views_of g ns)) o = true.
Proof.
  intros g ns Hwf Hkw Hun Hns Hc Hcl.
  pose proof (good_views g ns Hwf Hkw Hun Hns Hc Hcl) as Hg.
  set (h := heap g). set (S := map fst ns). set (vs := views_of g ns).
  assert (HinS : forall a, In a S -> exists nd, In (a, nd) ns /\ nth_error h a = Some nd /\ In (view h nd) vs /\ vname (view h nd) = name_of h a).
  { intros a Ha. unfold S in Ha. apply in_map_iff in Ha. destruct Ha as [[a' nd] [Heq Hin]]. simpl in Heq. subst a'.
    exists nd. split; [exact Hin|]. split; [apply Hc; exact Hin|]. split.
    - unfold vs, views_of. apply in_map_iff. exists (a, nd). split; [reflexivity | exact Hin].
    - simpl. unfold name_of, h. rewrite (Hc _ _ Hin). reflexivity. }
  destruct (ord_spec h S (vdeps vs)) with (i := List.length h) as [H1 [H2 H3]].
  { intros a b Ha Hb Hab. destruct (HinS a Ha) as [nda [Hina [Hna _]]]. destruct (HinS b Hb) as [ndb [Hinb [Hnb _]]].
    unfold name_of in Hab. rewrite Hna, Hnb in Hab.
    assert (Heq : (a, nda) = (b, ndb)).
    { apply (NoDup_map_inj _ _ (fun x : nat * node => nname (snd x)) ns); try assumption. apply Hun. exact Hns. }
    congruence. }
  { intros a Ha d Hd. destruct (HinS a Ha) as [nd [Hin [Hn [Hv Hvn]]]].
    rewrite <- Hvn in Hd. rewrite (deps_for_vdeps vs _ (g_names _ Hg) Hv) in Hd. simpl in Hd.
    rewrite map_map in Hd. simpl in Hd. apply in_map_iff in Hd. destruct Hd as [y [Hy Hyin]].
    assert (Hpar : In (fst (snd y)) (parents nd)).
    { unfold parents. apply in_map_iff. exists y. split; [reflexivity | exact Hyin]. }
    exists (fst (snd y)). split; [exact (wf_topo g Hwf a nd Hn _ Hpar)|]. split; [|symmetry; exact Hy].
    destruct (pclosed_in h ns a nd _ Hc Hcl Hin Hpar) as [pn [Hpin _]].
    unfold S. apply in_map_iff. exists (fst (snd y), pn). split; [reflexivity | exact Hpin]. }
  exists (ord h S (List.length h)). unfold topo_okb. rewrite H1. cbn [andb].
  assert (Hnames : forall v, In v vs -> In (vname v) (ord h S (List.length h))).
  { intros v Hv. unfold vs, views_of in Hv. apply in_map_iff in Hv. destruct Hv as [[a nd] [Hv Hin]]. subst v. simpl.
    assert (Ha : In a S) by (unfold S; apply in_map_iff; exists (a, nd); split; [reflexivity | exact Hin]).
    pose proof (Hc _ _ Hin) as Hn. fold h in Hn.
    replace (nname nd) with (name_of h a) by (unfold name_of; rewrite Hn; reflexivity).
    apply H2; [apply nth_error_Some; congruence | exact Ha]. }
  apply andb_true_intro. split; apply forallb_forall; intros n Hn; apply smemb_In.
  - unfold all_names in Hn. apply in_app_or in Hn. destruct Hn as [Hn | Hn].
    + unfold vdeps in Hn. rewrite map_map in Hn. simpl in Hn. apply in_map_iff in Hn.
      destruct Hn as [v [Hvn Hv]]. subst n. apply Hnames. exact Hv.
    + apply in_concat in Hn. destruct Hn as [ds [Hds Hn]]. unfold vdeps in Hds. rewrite map_map in Hds. simpl in Hds.
      apply in_map_iff in Hds. destruct Hds as [v [Hvd Hv]]. subst ds. apply in_map_iff in Hn. destruct Hn as [x [Hx Hxin]].
      destruct (g_refs _ Hg v Hv x Hxin) as [pv [Hpv [Hpvn _]]]. subst n. rewrite <- Hpvn. apply Hnames. exact Hpv.
  - destruct (H3 n Hn) as [p [Hp [HpS Hnp]]]. destruct (HinS p HpS) as [nd [_ [_ [Hv Hvn]]]].
    unfold all_names. apply in_or_app. left. unfold vdeps. rewrite map_map. simpl.
    apply in_map_iff. exists (view h nd). split; [congruence | exact Hv].
Qed.

(* ------------------------------------------------------------------ graphlib contract *)
Hypothesis static_order_sound : forall deps order,
  static_order deps = Ok order -> topo_okb deps order = true.
Hypothesis static_order_complete : forall deps,
  (exists o, topo_okb deps o = true) -> exists order, static_order deps = Ok order.

(* deserialise of (a re-shaped copy of) the serialised nodes gives a graph equal to g *)
Lemma deserialise_shape_ok : forall tup f g ns, wf g -> kw_ok g -> unique_names g -> payload_through f g ->
  nodes g = Ok ns -> consistent (heap g) ns -> pclosed (heap g) (map fst ns) [] ->
  exists g', deserialise P static_order (sdata tup f (views_of g ns)) = Ok g' /\
             graph_eq P peqb g' g = Ok true.
Proof.
  intros tup f g ns Hwf Hkw Hun Hpay Hns Hc Hcl.
  pose proof (good_views g ns Hwf Hkw Hun Hns Hc Hcl) as Hg.
  set (vs := views_of g ns) in *.
  destruct (static_order_complete (vdeps vs)) as [order Hso].
  { exact (order_exists g ns Hwf Hkw Hun Hns Hc Hcl). }
  pose proof (static_order_sound _ _ Hso) as Hok. unfold topo_okb in Hok.
  apply andb_prop in Hok. destruct Hok as [Hok Hsub]. apply andb_prop in Hok. destruct Hok as [Hscan Hsup].
  rewrite forallb_forall in Hsub, Hsup.
  assert (Horder_in : forall n, In n order -> In n (map vname vs)).
  { intros n Hn. specialize (Hsub n Hn). apply smemb_In in Hsub. unfold all_names in Hsub. apply in_app_or in Hsub.
    destruct Hsub as [H | H].
    - unfold vdeps in H. rewrite map_map in H. exact H.
    - apply in_concat in H. destruct H as [ds [Hds H]]. unfold vdeps in Hds. rewrite map_map in Hds. simpl in Hds.
      apply in_map_iff in Hds. destruct Hds as [v [Hvd Hv]]. subst ds. apply in_map_iff in H. destruct H as [x [Hx Hxin]].
      destruct (g_refs _ Hg v Hv x Hxin) as [pv [Hpv [Hpvn _]]]. subst n. rewrite <- Hpvn. apply in_map. exact Hpv. }
  set (consumed := List.concat (map snd (vdeps vs))).
  destruct (build_ok tup f vs Hg consumed order (mkB [] [] []) (Inv_init f vs consumed) Hscan Horder_in)
    as [st [Hb [HI Hm]]].
  exists (mkGraph (b_heap st) (b_sinks st)). split.
  { unfold deserialise, deserialise_gen. rewrite deps_sdata. fold vs. rewrite Hso. cbn [bind].
    fold consumed. rewrite Hb. reflexivity. }
  assert (Hall : forall v, In v vs -> exists k, lookup (vname v) (b_map st) = Some k).
  { intros v Hv. apply lookup_key_In. rewrite Hm. simpl. rewrite app_nil_r. rewrite <- in_rev.
    apply smemb_In. apply Hsup. unfold all_names. apply in_or_app. left. unfold vdeps. rewrite map_map. simpl.
    apply in_map. exact Hv. }
  destruct (nodes_ok (mkGraph (b_heap st) (b_sinks st))) as [out [Hout [Hco [Hno [Hsk Hpc]]]]].
  { exact (i_topo _ _ _ _ HI). }
  { apply Forall_forall. intros k Hk. exact (i_sinks_valid _ _ _ _ HI k Hk). }
  cbn [heap sinks] in *.
  assert (Hreach : forall k, k < List.length (b_heap st) -> In k (map fst out)).
  { intros k Hk. apply (all_reached f vs st (map fst out) Hg HI Hall Hsk Hpc (List.length (b_heap st)) k); lia. }
  apply (graph_eq_ok f _ _ (map (fun x => view (b_heap st) (snd x)) out) vs).
  - unfold vnodes. rewrite Hout. reflexivity.
  - unfold vnodes. rewrite Hns. reflexivity.
  - (* names of the rebuilt nodes are distinct *)
    rewrite map_map. simpl.
    assert (Hinj : forall x y : nat * node, In x out -> In y out -> nname (snd x) = nname (snd y) -> fst x = fst y).
    { intros [a nda] [b ndb] Ha Hb0 Hab. simpl in *.
      pose proof (i_heap _ _ _ _ HI a nda (Hco _ _ Ha)) as H1. pose proof (i_heap _ _ _ _ HI b ndb (Hco _ _ Hb0)) as H2.
      rewrite Hab in H1. congruence. }
    clear - Hno Hinj. induction out as [|x r IH]; simpl; constructor.
    + intros Hin. apply in_map_iff in Hin. destruct Hin as [y [Hy Hyin]].
      simpl in Hno. inversion Hno as [|? ? Hni _]; subst. apply Hni.
      rewrite (Hinj x y); [apply in_map; exact Hyin | left; reflexivity | right; exact Hyin | symmetry; exact Hy].
    + apply IH.
      * simpl in Hno. inversion Hno; assumption.
      * intros a b Ha Hb. apply Hinj; right; assumption.
  - exact (g_names _ Hg).
  - intros x Hx. apply in_map_iff in Hx. destruct Hx as [[k nd] [Hx Hin]]. subst x. simpl.
    pose proof (i_heap _ _ _ _ HI k nd (Hco _ _ Hin)) as Hl.
    destruct (i_map _ _ _ _ HI _ _ Hl) as [nd' [v [Hn' [Hv [_ Hview]]]]].
    assert (nd' = nd) by (pose proof (Hco _ _ Hin); congruence). subst nd'.
    exists v. split; [exact Hv | exact Hview].
  - intros v Hv. destruct (Hall v Hv) as [k Hl].
    destruct (i_map _ _ _ _ HI _ _ Hl) as [nd [v' [Hn [Hv' [Hvn Hview]]]]].
    assert (Hk : In k (map fst out)) by (apply Hreach; apply nth_error_Some; congruence).
    apply in_map_iff in Hk. destruct Hk as [[k' nd'] [Hk Hin]]. simpl in Hk. subst k'.
    assert (nd' = nd) by (pose proof (Hco _ _ Hin); congruence). subst nd'.
    rewrite map_map. simpl. apply in_map_iff. exists (k, nd). split; [|exact Hin].
    simpl. change (vname (view (b_heap st) nd) = vname v). rewrite Hview. simpl. exact Hvn.
  - intros v Hv. split; [exact (g_keys _ Hg v Hv)|].
    unfold vs, views_of in Hv. apply in_map_iff in Hv. destruct Hv as [[n nd] [Hv Hin]]. subst v. simpl.
    destruct (npay nd) as [p|] eqn:Ep; simpl; [|reflexivity]. exact (Hpay n nd p (Hc _ _ Hin) Ep).
Qed.

Lemma serialise_ok : forall g, wf g -> unique_names g ->
  exists ns, nodes g = Ok ns /\ consistent (heap g) ns /\ pclosed (heap g) (map fst ns) [] /\
             serialise P pser g = Ok (sdata true pser (views_of g ns)).
Proof.
  intros g Hwf Hun.
  destruct (nodes_ok g (wf_topo g Hwf) (wf_sinks g Hwf)) as [ns [Hns [Hc [_ [_ Hcl]]]]].
  exists ns. split; [exact Hns|]. split; [exact Hc|]. split; [exact Hcl|].
  unfold serialise, vnodes. rewrite Hns. cbn [bind]. fold (views_of g ns).
  rewrite ser_loop_ok; [reflexivity|]. simpl. unfold views_of. rewrite map_map. simpl. apply Hun. exact Hns.
Qed.

(* C12, dict path *)
Theorem roundtrip_dict : forall g, wf g -> kw_ok g -> unique_names g -> payload_through pser g ->
  exists d g', serialise P pser g = Ok d /\ deserialise P static_order d = Ok g' /\
               graph_eq P peqb g' g = Ok true.
Proof.
  intros g Hwf Hkw Hun Hpay.
  destruct (serialise_ok g Hwf Hun) as [ns [Hns [Hc [Hcl Hser]]]].
  destruct (deserialise_shape_ok true pser g ns Hwf Hkw Hun Hpay Hns Hc Hcl) as [g' [Hd He]].
  eexists. exists g'. split; [exact Hser|]. split; [exact Hd | exact He].
Qed.

(* C12, JSON path *)
Lemma jsonify_sdata : forall vs, jsonify P jp (sdata true pser vs) = sdata false (fun p => jp (pser p)) vs.
Proof.
  intros vs. unfold jsonify, sdata. rewrite map_map. apply map_ext. intros v. cbn [fst snd].
  f_equal. unfold node_ser'. cbn [s_outs s_ins s_pay option_map]. f_equal.
  - f_equal. rewrite map_map. apply map_ext. intros x. unfold ser_in. cbn [fst snd]. f_equal.
    unfold out_ser'. destruct (String.eqb (snd (snd x)) DEFAULT_OUTPUT); reflexivity.
  - destruct (vpay v); reflexivity.
Qed.

Section Codecs.
Variable J : Type.
Variable dumps : sgraph P -> J.
Variable loads : J -> res (sgraph P).
Hypothesis json_roundtrip : forall d, loads (dumps d) = Ok (jsonify P jp d).
Variable F : Type.
Variable dill_dump : sgraph P -> F.
Variable dill_load : F -> res (sgraph P).
Hypothesis dill_roundtrip : forall d, dill_load (dill_dump d) = Ok d.

Theorem roundtrip_json : forall g, wf g -> kw_ok g -> unique_names g ->
  payload_through (fun p => jp (pser p)) g ->
  exists j g', to_json P pser J dumps g = Ok j /\ from_json P static_order J loads j = Ok g' /\
               graph_eq P peqb g' g = Ok true.
Proof.
  intros g Hwf Hkw Hun Hpay.
  destruct (serialise_ok g Hwf Hun) as [ns [Hns [Hc [Hcl Hser]]]].
  destruct (deserialise_shape_ok false (fun p => jp (pser p)) g ns Hwf Hkw Hun Hpay Hns Hc Hcl) as [g' [Hd He]].
  eexists. exists g'. unfold to_json, from_json. rewrite Hser. cbn [bind]. split; [reflexivity|].
  rewrite json_roundtrip. cbn [bind]. rewrite jsonify_sdata. split; [exact Hd | exact He].
Qed.

Theorem roundtrip_file : forall g, wf g -> kw_ok g -> unique_names g -> payload_through pser g ->
  exists file g', cascade_serialise P pser F dill_dump g = Ok file /\
                  cascade_from_serialised P static_order F dill_load file = Ok g' /\
                  graph_eq P peqb g' g = Ok true.
Proof.
  intros g Hwf Hkw Hun Hpay.
  destruct (roundtrip_dict g Hwf Hkw Hun Hpay) as [d [g' [Hs [Hd He]]]].
  eexists. exists g'. unfold cascade_serialise, cascade_from_serialised. rewrite Hs. cbn [bind].
  split; [reflexivity|]. rewrite dill_roundtrip. cbn [bind]. split; [exact Hd | exact He].
Qed.

End Codecs.

End Proofs.
