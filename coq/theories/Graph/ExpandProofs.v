(* expand_graph: wiring of consumers to leaves, and preservation of what the nodes that are
   not expanded denote, given that every spliced sub-graph denotes the node it replaces. *)
From Coq Require Import List String Bool Arith Lia.
From EKW Require Import Graph.GStore Graph.Denote Graph.Engine Graph.EngineProofs Graph.Expand.
Import ListNotations.
Open Scope string_scope.
Open Scope list_scope.

Lemma F2_impl : forall A B (R R' : A -> B -> Prop) l l',
  (forall a b, R a b -> R' a b) -> Forall2 R l l' -> Forall2 R' l l'.
Proof. intros A B R R' l l' H HF. induction HF; constructor; auto. Qed.

Lemma F2_ex_l : forall A B (R : A -> B -> Prop) l l', Forall2 R l l' ->
  forall b, In b l' -> exists a, In a l /\ R a b.
Proof.
  intros A B R l l' H. induction H as [|x y l l' Hxy _ IH]; intros b Hb; [contradiction|].
  destruct Hb as [->|Hb]; [exists x; split; [now left|assumption]|].
  destruct (IH b Hb) as (a & Ha & Hr). exists a. split; [now right|assumption].
Qed.

Section Wiring.
Variable P : Type.

(* a consumer of output o of an expanded node is connected to the default output of the
   leaf registered under output_map[o] *)
Lemma expand_output_sub : forall (h' : list (node P)) leaves om inner o x,
  expand_output h' (RSub leaves om inner) o = Ok x ->
  exists lname leaf, lookup o om = Some lname /\ lookup_last lname leaves = Some leaf /\
                     x = (leaf, DEFAULT_OUTPUT).
Proof.
  intros h' leaves om inner o x H. simpl in H.
  destruct (lookup o om) as [lname|]; [|discriminate].
  destruct (lookup_last lname leaves) as [leaf|] eqn:Hl; [|discriminate].
  apply out_node_ok in H. destruct H as [-> _]. exists lname, leaf. auto.
Qed.

(* Splicer.__init__: which node input a sub-graph source called k is bound to.  No input map:
   the node input of the same name.  An explicit map (also an empty one): the input the map
   assigns to k -- and nothing when k is not a key, whatever the node's inputs are called *)
Definition source_binding {A : Type} (inputs : list (string * A)) (imap : option smap) (k : string)
  : option A :=
  match imap with
  | None => lookup k inputs
  | Some m => match lookup k m with Some i => lookup i inputs | None => None end
  end.

Lemma mk_sp_inputs_lookup : forall inputs imap spi, mk_sp_inputs inputs imap = Ok spi ->
  forall k, lookup k spi = source_binding inputs imap k.
Proof.
  intros inputs [m|] spi H k; simpl in H; [|injection H as <-; reflexivity].
  unfold source_binding. revert spi H. induction m as [|[k' i] m IH]; intros spi H; simpl in H.
  - injection H as <-. reflexivity.
  - destruct (lookup i inputs) as [v|] eqn:Hi; simpl in H; [|discriminate].
    destruct (map_res _ m) as [ys|] eqn:Hm; simpl in H; [|discriminate].
    injection H as <-. simpl. destruct (String.eqb k k'); [now rewrite Hi|]. now apply IH.
Qed.

Lemma source_binding_map : forall A B (G : A -> B) (inputs : list (string * A)) imap k,
  source_binding (map (fun x => (fst x, G (snd x))) inputs) imap k = option_map G (source_binding inputs imap k).
Proof.
  intros A B G inputs [m|] k; unfold source_binding; [|apply lookup_map_snd].
  destruct (lookup k m) as [i|]; [apply lookup_map_snd|reflexivity].
Qed.

(* Splicer.inputs only holds outputs the node's inputs hold *)
Lemma mk_sp_inputs_In : forall inputs imap spi, mk_sp_inputs inputs imap = Ok spi ->
  forall y, In y spi -> exists x, In x inputs /\ snd x = snd y.
Proof.
  intros inputs [m|] spi H; simpl in H; [|injection H as <-; intros y Hy; now exists y].
  revert spi H. induction m as [|[k' i] m IH]; intros spi H y Hy; simpl in H.
  - injection H as <-. contradiction.
  - destruct (lookup i inputs) as [v|] eqn:Hi; simpl in H; [|discriminate].
    destruct (map_res _ m) as [ys|] eqn:Hm; simpl in H; [|discriminate].
    injection H as <-. destruct Hy as [<-|Hy]; [|now apply (IH ys)].
    simpl. clear -Hi. induction inputs as [|[k2 v2] inputs IHi]; simpl in Hi; [discriminate|].
    destruct (String.eqb i k2).
    + injection Hi as ->. exists (k2, v). split; [now left|reflexivity].
    + destruct (IHi Hi) as (x & Hx & Hs). exists x. split; [now right|assumption].
Qed.

(* an explicit input map whose values are not all inputs of the node: KeyError *)
Lemma mk_sp_inputs_keyerror : forall inputs m,
  (exists e, mk_sp_inputs inputs (Some m) = Err e) <-> exists k i, In (k, i) m /\ lookup i inputs = None.
Proof.
  intros inputs m. simpl. induction m as [|[k' i] m IH]; simpl.
  - split; [intros [e H]; discriminate|intros (k & i & [] & _)].
  - destruct (lookup i inputs) as [v|] eqn:Hi; simpl.
    + destruct (map_res _ m) as [ys|] eqn:Hm; simpl.
      * split; [intros [e H]; discriminate|]. intros (k & j & [Heq|Hin] & Hn).
        -- injection Heq as <- <-. congruence.
        -- destruct IH as [_ IH]. destruct IH as [e He]; [eauto|discriminate].
      * split; [|eauto]. intros _. destruct IH as [IH _]. destruct IH as (k & j & Hin & Hn); eauto.
    + split; [|eauto]. intros _. exists k', i. auto.
Qed.

(* Splicer.source: a source of the sub-graph is replaced by a processor fed through "input"
   by the input it is bound to; a source that is not bound stays a source (only renamed) *)
Lemma splicer_visit_source : forall pname (spi : list (string * (nat * string))) (spo : smap)
    (h' : list (node P)) n (s : node P) ins,
  nins s = [] ->
  splicer_visit pname spi spo h' n s ins =
    Ok (h' ++ [mkNode (prefixed pname (nname s)) (nouts s) (npay s)
                      (match lookup (nname s) spi with Some inp => [("input", inp)] | None => [] end)],
        List.length h').
Proof.
  intros pname spi spo h' n s ins Hs. unfold splicer_visit. rewrite Hs.
  destruct (lookup (nname s) spi) as [inp|]; reflexivity.
Qed.

(* the leaves are the transformed sub-graph sinks whose name, with the prefix "<node>."
   removed (removeprefix), is a value of the output map; all others are inner sinks *)
Lemma splicer_sort_spec : forall pname (spo : smap) (h' : list (node P)) sinks l0 i0 leaves inner,
  splicer_sort pname spo h' sinks l0 i0 = (leaves, inner) ->
  (forall k s, In (k, s) leaves -> In (k, s) l0 \/
      (In s sinks /\ k = remove_prefix (pname ++ ".") (name_of h' s) /\ smemb k (map snd spo) = true)) /\
  (forall s, In s inner -> In s i0 \/
      (In s sinks /\ smemb (remove_prefix (pname ++ ".") (name_of h' s)) (map snd spo) = false)) /\
  (forall s, In s sinks -> In s inner \/ exists k, In (k, s) leaves).
Proof.
  intros pname spo h' sinks. induction sinks as [|s rest IH]; intros l0 i0 leaves inner H; simpl in H.
  - injection H as <- <-. split; [auto|]. split; [auto|]. intros s [].
  - destruct (smemb (remove_prefix (pname ++ ".") (name_of h' s)) (map snd spo)) eqn:E.
    + destruct (IH _ _ _ _ H) as (H1 & H2 & H3). split; [|split].
      * intros k x Hin. destruct (H1 k x Hin) as [Hl|(Ha & Hb & Hc)].
        -- apply in_app_or in Hl. destruct Hl as [Hl|[Heq|[]]]; [now left|]. injection Heq as <- <-.
           right. repeat split; auto. now left.
        -- right. repeat split; auto. now right.
      * intros x Hin. destruct (H2 x Hin) as [Hl|(Ha & Hb)]; [now left|]. right. split; [now right|assumption].
      * intros x [<-|Hin]; [|now apply H3]. right. eexists.
        assert (Hk : forall l0 i0 leaves inner k x, splicer_sort pname spo h' rest l0 i0 = (leaves, inner) -> In (k, x) l0 -> In (k, x) leaves).
        { clear. induction rest as [|y rest IH]; intros l0 i0 leaves inner k x H Hin; simpl in H.
          - injection H as <- <-. assumption.
          - destruct (smemb _ _); (eapply IH; [eassumption|]); [apply in_or_app; now left|assumption]. }
        eapply Hk; [eassumption|]. apply in_or_app. right. now left.
    + destruct (IH _ _ _ _ H) as (H1 & H2 & H3). split; [|split].
      * intros k x Hin. destruct (H1 k x Hin) as [Hl|(Ha & Hb & Hc)]; [now left|]. right. repeat split; auto. now right.
      * intros x Hin. destruct (H2 x Hin) as [Hl|(Ha & Hb)].
        -- apply in_app_or in Hl. destruct Hl as [Hl|[<-|[]]]; [now left|]. right. split; [now left|assumption].
        -- right. split; [now right|assumption].
      * intros x [<-|Hin]; [|now apply H3]. left.
        assert (Hk : forall l0 i0 leaves inner x, splicer_sort pname spo h' rest l0 i0 = (leaves, inner) -> In x i0 -> In x inner).
        { clear. induction rest as [|y rest IH]; intros l0 i0 leaves inner x H Hin; simpl in H.
          - injection H as <- <-. assumption.
          - destruct (smemb _ _); (eapply IH; [eassumption|]); [assumption|apply in_or_app; now left]. }
        eapply Hk; [eassumption|]. apply in_or_app. right. now left.
Qed.
End Wiring.

Section Preserve.
Variable P V : Type.
Variable interp : option P -> list string -> list (string * V) -> string -> V.
Notation sem := (sem interp).
Variable expander : node P -> option (subspec P).
Variable h : list (node P).
Hypothesis Ht : topo h.

(* what the consumers of a transformed node see denotes what the node's outputs denote *)
Definition good (h' : list (node P)) (m : nat) (r : elike) : Prop :=
  match r with
  | RN r => r < List.length h' /\ forall o, sem h' r o = sem h m o
  | RSub leaves om inner =>
      forall o lname leaf, lookup o om = Some lname -> lookup_last lname leaves = Some leaf ->
        leaf < List.length h' /\ sem h' leaf DEFAULT_OUTPUT = sem h m o
  end.

Definition EI (done : list (nat * elike)) (h' : list (node P)) : Prop :=
  topo h' /\ forall m r, In (m, r) done -> good h' m r.

(* "the sub-graph denotes the node": whenever a node whose gathered inputs denote what its
   inputs denote is expanded, the spliced result extends the heap, stays acyclic, and each
   leaf selected by the output map denotes the corresponding output of the node *)
Hypothesis splice_denotes : forall h' n nd inputs h'' r sub imap omap,
  topo h' -> nth_error h n = Some nd -> expander nd = Some (sub, imap, omap) ->
  Forall2 (fun i x => fst x = fst i /\ fst (snd x) < List.length h' /\
                      sem h' (fst (snd x)) (snd (snd x)) = sem h (fst (snd i)) (snd (snd i))) (nins nd) inputs ->
  expand_visit expander h' n nd inputs = Ok (h'', r) ->
  (exists ext, h'' = h' ++ ext) /\ topo h'' /\ good h'' n r.

Lemma good_app : forall h' ext m r, good h' m r -> good (h' ++ ext) m r.
Proof.
  intros h' ext m [r|leaves om inner] H; simpl in *.
  - destruct H as [Hl Hs]. split; [rewrite app_length; lia|]. intros o. now rewrite sem_old.
  - intros o lname leaf H1 H2. destruct (H o lname leaf H1 H2) as [Hl Hs].
    split; [rewrite app_length; lia|]. now rewrite sem_old.
Qed.

Lemma expand_output_good : forall h' m r o x, good h' m r -> expand_output h' r o = Ok x ->
  fst x < List.length h' /\ sem h' (fst x) (snd x) = sem h m o.
Proof.
  intros h' m [r|leaves om inner] o x Hg H.
  - simpl in H. apply out_node_ok in H. destruct H as [-> _]. destruct Hg as [Hl Hs]. simpl. auto.
  - apply expand_output_sub in H. destruct H as (lname & leaf & H1 & H2 & ->). simpl. eapply Hg; eassumption.
Qed.

Lemma expand_visit_inv : forall done st n nd inputs st' r,
  EI done st -> nth_error h n = Some nd -> lookupn n done = None ->
  gather expand_output st done (nins nd) = Ok (Ready inputs) ->
  expand_visit expander st n nd inputs = Ok (st', r) -> EI ((n, r) :: done) st'.
Proof.
  intros done st n nd inputs st' r [HT HR] Hn _ Hg Hv.
  apply gather_spec in Hg.
  assert (HF : Forall2 (fun i x => fst x = fst i /\ fst (snd x) < List.length st /\
                      sem st (fst (snd x)) (snd (snd x)) = sem h (fst (snd i)) (snd (snd i))) (nins nd) inputs).
  { eapply F2_impl; [|exact Hg]. simpl. intros i x (H1 & r0 & Hl & Ho). split; [assumption|].
    eapply expand_output_good; [|eassumption]. apply (HR _ _ (lookupn_In _ _ _ _ Hl)). }
  destruct (expander nd) as [[[sub imap] omap]|] eqn:He.
  - destruct (splice_denotes st n nd inputs st' r sub imap omap HT Hn He HF Hv) as ((ext & ->) & HT' & Hgood).
    split; [assumption|]. intros m r' [Heq|Hin]; [injection Heq as <- <-; assumption|].
    apply good_app. now apply HR.
  - unfold expand_visit in Hv. rewrite He in Hv. injection Hv as <- <-. split.
    + apply topo_snoc; [assumption|]. simpl. apply Forall_forall. intros x Hx.
      destruct (F2_ex_l _ _ _ _ _ HF x Hx) as (i & _ & _ & Hl & _). exact Hl.
    + intros m r' [Heq|Hin].
      * injection Heq as <- <-. simpl. split; [rewrite app_length; simpl; lia|]. intros o.
        apply (new_node_sem P V interp h st n nd); try assumption; try reflexivity. simpl.
        eapply F2_impl; [|exact HF]. simpl. tauto.
      * apply good_app. now apply HR.
Qed.

Definition NI (done : list (nat * elike)) (_ : list (node P)) : Prop :=
  forall m r, In (m, r) done -> (forall nd, nth_error h m = Some nd -> expander nd = None) -> exists r0, r = RN r0.

Lemma expand_visit_rn : forall done st n nd inputs st' r,
  NI done st -> nth_error h n = Some nd -> lookupn n done = None ->
  gather expand_output st done (nins nd) = Ok (Ready inputs) ->
  expand_visit expander st n nd inputs = Ok (st', r) -> NI ((n, r) :: done) st'.
Proof.
  intros done st n nd inputs st' r HI Hn _ _ Hv m r' [Heq|Hin] Hnone; [|now apply (HI m)].
  injection Heq as <- <-. unfold expand_visit in Hv. rewrite (Hnone nd Hn) in Hv. injection Hv as _ <-. eauto.
Qed.

(* sinks that are not expanded keep their denotation *)
Lemma expand_preserves_sem : forall (g g' : graph P), h = heap g ->
  expand_graph expander g = Ok g' ->
  forall s, In s (sinks g) -> (forall nd, nth_error h s = Some nd -> expander nd = None) ->
  exists s', In s' (sinks g') /\ forall o, sem (heap g') s' o = sem h s o.
Proof.
  intros g g' Hh H s Hs Hne. unfold expand_graph in H. rewrite <- Hh in H.
  destruct (transform (expand_visit expander) expand_output h (sinks g) []) as [[[st rs] done]|] eqn:Htr; simpl in H; [|discriminate].
  injection H as <-. simpl.
  pose proof Htr as Htr2.
  destruct (transform_inv P _ _ _ _ _ h EI expand_visit_inv (sinks g) [] st rs done) as [[HT HR] HF];
    [split; [apply topo_nil|intros m r []]|exact Htr|].
  (* the result of a sink that is not expanded is a node *)
  assert (Hrn : NI done st).
  { destruct (transform_inv P _ _ _ _ _ h NI expand_visit_rn (sinks g) [] st rs done) as [HI _]; [intros m r []|exact Htr2|exact HI]. }
  clear Htr Htr2.
  assert (Hsx : exists r, In r rs /\ lookupn s done = Some r).
  { clear -HF Hs. induction HF as [|x r ls lr Hl _ IH]; [contradiction|].
    destruct Hs as [->|Hs]; [exists r; split; [now left|assumption]|].
    destruct (IH Hs) as (r0 & H1 & H2). exists r0. split; [now right|assumption]. }
  destruct Hsx as (r & Hr & Hl). apply lookupn_In in Hl.
  destruct (Hrn s r Hl Hne) as (r0 & ->). destruct (HR s (RN r0) Hl) as [_ Hsem].
  exists r0. split; [|exact Hsem].
  assert (Hacc : forall rs acc x, In x acc \/ In (RN x) rs -> In x (expand_sinks rs acc)).
  { clear. induction rs as [|[r|leaves om inner] rs IH]; intros acc x H; simpl.
    - destruct H as [H|[]]. assumption.
    - apply IH. destruct H as [H|[H|H]].
      + left. apply in_or_app. now left.
      + injection H as ->. left. apply in_or_app. right. now left.
      + now right.
    - apply IH. destruct H as [H|[H|H]]; [|discriminate|now right]. left.
      assert (Hf : forall l a, In x a -> In x (fold_left (fun a leaf => if memb leaf a then a else a ++ [leaf]) l a)).
      { clear. induction l as [|y l IH]; intros a Ha; simpl; [assumption|]. apply IH. destruct (memb y a); [assumption|apply in_or_app; now left]. }
      apply Hf. apply in_or_app. now left. }
  apply Hacc. now right.
Qed.

End Preserve.
