(* Executable checkers used by harness/c11.py.  The Gallina models of the transformations
   are run inside Coq on the graphs the real functions were run on, and the model's result
   is compared with the observed result up to renumbering of the nodes: both graphs are
   put in canonical form (nodes listed in the order of Graph.nodes() from the sinks, parent
   references replaced by positions in that list), then compared field by field, input
   order included.  Payloads are the value type pv of Graph/ExportCheck.v. *)
From Coq Require Import List String Bool Arith ZArith.
From EKW Require Import Graph.GStore Graph.Export Graph.ExportCheck Graph.Denote Graph.Engine.
From EKW Require Import Graph.Copy Graph.Rename Graph.Dedup Graph.Split Graph.Expand Graph.Fuse.
Import ListNotations.
Open Scope string_scope.
Open Scope list_scope.

Fixpoint index_of (n : nat) (l : list nat) : option nat :=
  match l with
  | [] => None
  | x :: r => if Nat.eqb n x then Some 0 else option_map S (index_of n r)
  end.

Definition renum (ids : list nat) (p : nat) : nat :=
  match index_of p ids with Some i => i | None => List.length ids end.

Definition canon (g : graph pv) : res (list nat * list (node pv)) :=
  bind (nodes g) (fun ns =>
  let ids := map fst ns in
  Ok (map (renum ids) (sinks g),
      map (fun x => let nd := snd x in
                    mkNode (nname nd) (nouts nd) (npay nd)
                           (map (fun i => (fst i, (renum ids (fst (snd i)), snd (snd i)))) (nins nd))) ns)).

Definition node_eqb (a b : node pv) : bool :=
  String.eqb (nname a) (nname b) && list_eqb String.eqb (nouts a) (nouts b)
  && opt_eqb pv_eqb (npay a) (npay b)
  && list_eqb (pair_eqb String.eqb (pair_eqb Nat.eqb String.eqb)) (nins a) (nins b).

Definition graph_iso (a b : graph pv) : bool :=
  match canon a, canon b with
  | Ok (sa, na), Ok (sb, nb) => list_eqb Nat.eqb sa sb && list_eqb node_eqb na nb
  | _, _ => false
  end.

Definition observed := (graph pv + string)%type.
Definition o_ok (g : graph pv) : observed := inl g.
Definition o_err (e : string) : observed := inr e.

Definition agrees (m : res (graph pv)) (o : observed) : bool :=
  match m, o with
  | Ok g, inl g' => graph_iso g g'
  | Err e, inr e' => String.eqb e e'
  | _, _ => false
  end.

(* the harness's numbering convention, re-checked on every case *)
Definition check_copy (case : graph pv * observed) : bool :=
  let '(g, o) := case in topob (heap g) && agrees (copy_graph g) o.

(* renaming functions used by the harness *)
Inductive rfun := RPrefix (s : string) | RSuffix (s : string) | RConst (s : string) | RHead | RId.
Definition rfun_apply (f : rfun) (n : string) : string :=
  match f with
  | RPrefix s => s ++ n
  | RSuffix s => n ++ s
  | RConst s => s
  | RHead => match n with String c _ => String c EmptyString | EmptyString => EmptyString end
  | RId => n
  end.

Definition check_rename (case : rfun * graph pv * observed) : bool :=
  let '(f, g, o) := case in topob (heap g) && agrees (rename_nodes (rfun_apply f) g) o.

(* ------------------------------------------------------------------ dedup *)
(* list(set(new_sinks)): the order of the result's sinks is the implementation's choice;
   it is read off the observation: every observed sink is matched with the model sink whose
   sub-graph is the same, each model sink used once *)
Fixpoint take_match (mh : list (node pv)) (og : graph pv) (os : nat) (ms : list nat) : option (nat * list nat) :=
  match ms with
  | [] => None
  | m :: rest =>
      if graph_iso (mkGraph mh [m]) (mkGraph (heap og) [os]) then Some (m, rest)
      else match take_match mh og os rest with
           | Some (x, rest') => Some (x, m :: rest')
           | None => None
           end
  end.

Fixpoint reorder (mh : list (node pv)) (og : graph pv) (oss : list nat) (ms : list nat) : option (list nat) :=
  match oss with
  | [] => match ms with [] => Some [] | _ => None end
  | os :: rest =>
      match take_match mh og os ms with
      | None => None
      | Some (m, ms') => option_map (cons m) (reorder mh og rest ms')
      end
  end.

Definition agrees_upto_sink_order (m : res (graph pv)) (o : observed) : bool :=
  match m, o with
  | Ok g, inl og =>
      match reorder (heap g) og (sinks og) (sinks g) with
      | Some perm => graph_iso (mkGraph (heap g) perm) og
      | None => false
      end
  | Err e, inr e' => String.eqb e e'
  | _, _ => false
  end.

Definition check_dedup (case : graph pv * observed) : bool :=
  let '(g, o) := case in
  topob (heap g) && agrees_upto_sink_order (deduplicate_nodes (same_payload pv_eqb) g) o.

(* ------------------------------------------------------------------ split *)
(* key functions of the harness.  The first seven read the node only; the others read the node's
   DIRECT inputs too (input names, the output names they select, and of each parent the fields
   the Splitter never writes: name, payload, outputs, whether it has inputs) -- they are
   functions of the node and the heap its inputs point into (Graph/Split.v, split_graph). *)
Inductive kfun := KHead | KConst (s : string) | KPay | KOuts | KName | KLast | KLen
                | KIo | KNin | KParHead | KParPay | KIname | KOname | KParOuts | KMix | KParNames.
Definition pv_class (p : option pv) : string :=
  match p with None => "none" | Some (PInt _) => "int" | Some (PStr _) => "str" | Some _ => "seq" end.
Definition head1 (s : string) : string := match s with String c _ => String c EmptyString | EmptyString => EmptyString end.
Definition outs_class (o : list string) : string := match o with [] => "sink" | [_] => "one" | _ => "many" end.
Definition parent_nodes (h : list (node pv)) (nd : node pv) : list (node pv) :=
  flat_map (fun i => match nth_error h (fst (snd i)) with Some p => [p] | None => [] end) (nins nd).
Definition key_io (h : list (node pv)) (nd : node pv) : string :=
  match nins nd with
  | [] => "io"
  | _ => if existsb (fun p => match nins p with [] => true | _ => false end) (parent_nodes h nd) then "io" else "compute"
  end.
Definition kfun_apply (f : kfun) (h : list (node pv)) (nd : node pv) : string :=
  match f with
  | KHead => head1 (nname nd)
  | KConst s => s
  | KPay => pv_class (npay nd)
  | KOuts => outs_class (nouts nd)
  | KName => nname nd
  | KLast => let n := nname nd in String.substring (String.length n - 1) 1 n
  | KLen => if Nat.odd (String.length (nname nd)) then "1" else "0"
  | KIo => key_io h nd
  | KNin => match nins nd with [] => "0" | [_] => "1" | _ => "2" end
  | KParHead => match parent_nodes h nd with [] => "-" | p :: _ => head1 (nname p) end
  | KParPay => match parent_nodes h nd with [] => "src" | p :: _ => pv_class (npay p) end
  | KIname => match nins nd with [] => "-" | i :: _ => fst i end
  | KOname => match nins nd with [] => "-" | i :: _ => snd (snd i) end
  | KParOuts => match rev (parent_nodes h nd) with [] => "-" | p :: _ => outs_class (nouts p) end
  | KMix => head1 (nname nd) ++ "/" ++ key_io h nd
  | KParNames => String.concat "," (map (@nname pv) (parent_nodes h nd))
  end.

Definition cut_eqb (a b : cutedge string) : bool :=
  String.eqb (c_skey a) (c_skey b) && String.eqb (c_snode a) (c_snode b) && String.eqb (c_sout a) (c_sout b)
  && String.eqb (c_dkey a) (c_dkey b) && String.eqb (c_dnode a) (c_dnode b) && String.eqb (c_dinput a) (c_dinput b).

Definition cut_table := list (cutedge string * string).
Definition cut_name_of (t : cut_table) (c : cutedge string) : string :=
  match find (fun x => cut_eqb (fst x) c) t with Some x => snd x | None => "model:unknown-cut" end.

(* observation: one heap for all parts, the parts (key, sinks) in dict order, the cuts *)
Record split_obs := mkSO { so_heap : list (node pv); so_parts : list (string * list nat); so_cuts : cut_table }.
Definition split_observed := (split_obs + string)%type.
Definition so_ok (o : split_obs) : split_observed := inl o.
Definition so_err (e : string) : split_observed := inr e.

Definition check_split (case : kfun * graph pv * split_observed) : bool :=
  let '(f, g, o) := case in
  topob (heap g) &&
  match o with
  | inr e' => match split_graph String.eqb (kfun_apply f) (fun _ => "") g with Err e => String.eqb e e' | Ok _ => false end
  | inl so =>
      match split_graph String.eqb (kfun_apply f) (cut_name_of (so_cuts so)) g with
      | Err _ => false
      | Ok r =>
          list_eqb String.eqb (map fst (rparts r)) (map fst (so_parts so))
          && list_eqb Nat.eqb (map (fun x => List.length (snd x)) (rparts r)) (map (fun x => List.length (snd x)) (so_parts so))
          && list_eqb cut_eqb (rcuts r) (map fst (so_cuts so))
          && graph_iso (mkGraph (rheap r) (flat_map snd (rparts r))) (mkGraph (so_heap so) (flat_map snd (so_parts so)))
      end
  end.

(* ------------------------------------------------------------------ expand *)
Definition erules := list (string * subspec pv).
Definition expander_of (rules : erules) (nd : node pv) : option (subspec pv) := lookup (nname nd) rules.

Definition check_expand (case : erules * graph pv * observed) : bool :=
  let '(rules, g, o) := case in
  topob (heap g) &&
  match expand_graph (expander_of rules) g with
  | Err "model:tuple-input" => true     (* outside the modelled domain: a consumed output without leaf; the
                                           source goes on with a (node, output) tuple, whatever follows *)
  | m => agrees m o
  end.

(* ------------------------------------------------------------------ fuse *)
(* the harness's callbacks: never / always / only when the parent has a payload / keep;
   `inline` builds a node recording (parent payload, parent outputs, parent output, child
   payload, child input) with the child's other inputs and the parent's inputs (prefixed by
   the child input name and "/"); it declines when a child input already has that prefix.
   FKeep hands back the child object as it is.
   The mode says which OBJECT carries the fused node: a new Node (MNew), the child object
   written in place and returned (MSame), or one or the other depending on the child's
   name (MMix) -- see Graph/Fuse.v. *)
Inductive ffun := FNever | FAlways | FPayload | FKeep.
Inductive fmode := MNew | MSame | MMix.

Definition enc_pay (p : option pv) : pv := match p with None => PSeq true [PStr "N"] | Some x => x end.

Definition inline (pn : node pv) (pout : string) (cur : node pv) (cin : string) : option (node pv) :=
  let pre := (cin ++ "/")%string in
  let others := filter (fun x => negb (String.eqb (fst x) cin)) (nins cur) in
  if existsb (fun x => String.prefix pre (fst x)) others then None
  else Some (mkNode (nname pn ++ "+" ++ nname cur)%string (nouts cur)
                    (Some (PSeq true [PStr "F"; enc_pay (npay pn); PSeq false (map PStr (nouts pn)); PStr pout;
                                      enc_pay (npay cur); PStr cin]))
                    (others ++ map (fun x => ((pre ++ fst x)%string, snd x)) (nins pn))).

Definition fmode_inplace (m : fmode) (cur : node pv) : bool :=
  match m with MNew => false | MSame => true | MMix => Nat.even (String.length (nname cur)) end.

Definition ffun_apply (f : ffun) (m : fmode) (pn : node pv) (pout : string) (cur : node pv) (cin : string)
  : option (bool * node pv) :=
  let tag := option_map (fun nd => (fmode_inplace m cur, nd)) in
  match f with
  | FNever => None
  | FAlways => tag (inline pn pout cur cin)
  | FPayload => match npay pn with None => None | Some _ => tag (inline pn pout cur cin) end
  | FKeep => Some (true, cur)
  end.

Definition call_eqb (a b : string * string * string * string) : bool :=
  let '(a1, a2, a3, a4) := a in let '(b1, b2, b3, b4) := b in
  String.eqb a1 b1 && String.eqb a2 b2 && String.eqb a3 b3 && String.eqb a4 b4.

Definition check_fuse (case : ffun * fmode * graph pv * observed * list (string * string * string * string)) : bool :=
  let '(f, m, g, o, calls) := case in
  topob (heap g) &&
  match fuse_nodes (ffun_apply f m) g, o with
  | Ok (g', calls'), inl og => graph_iso g' og && list_eqb call_eqb calls' calls
  | Err e, inr e' => String.eqb e e'
  | _, _ => false
  end.
