(* Executable checker used by harness/c12.py for sessions on one Cascade object: the model
   of Graph/ExportSession.v is run on the operations the harness applied to the real object
   (the graph after every `+=`/mutation is read off the real object), with dill as the
   identity on serialised graphs, and the resulting directory is compared with what
   dill.load returns for every file the object wrote (names in order of their first write).
   A write on which the real code raised ends the session: the model must raise the same. *)
From Coq Require Import List String Bool Arith ZArith.
From EKW Require Import Graph.GStore Graph.Export Graph.ExportCheck Graph.ExportSession.
Import ListNotations.
Open Scope string_scope.
Open Scope list_scope.

Definition run_session (g0 : graph pv) (ops : list (cop pv)) : res (@cstate pv (sgraph pv)) :=
  crun pv pv_ser (sgraph pv) (fun d => d) (cnew pv (sgraph pv) g0 []) ops.

Definition check_session (case : graph pv * list (cop pv) * (list (string * sgraph pv) + string)) : bool :=
  let '(g0, ops, expect) := case in
  match run_session g0 ops, expect with
  | Ok st, inl files => list_eqb (pair_eqb String.eqb sgraph_eqb) (c_files st) files
  | Err e, inr e' => String.eqb e e'
  | _, _ => false
  end.

(* the whole property inside the model: every file of the final directory reads back (kahn
   as graphlib) equal to `expected file` *)
Definition session_reads_back (g0 : graph pv) (ops : list (cop pv)) (expected : list (string * graph pv)) : res bool :=
  bind (run_session g0 ops) (fun st =>
  fold_right (fun x acc =>
    bind acc (fun b =>
    match lookup (fst x) (c_files st) with
    | None => Ok false
    | Some d => bind (deserialise pv kahn d) (fun g' => bind (graph_eq pv pv_eqb g' (snd x)) (fun e => Ok (b && e)))
    end)) (Ok true) expected).

(* a == b and b == a in one case (the two graph terms are written once) *)
Definition check_eq_both (case : graph pv * graph pv * bool * bool) : bool :=
  let '(a, b, ab, ba) := case in check_eq (a, b, ab) && check_eq (b, a, ba).

Definition f_ok (l : list (string * sgraph pv)) : list (string * sgraph pv) + string := inl l.
Definition f_err (e : string) : list (string * sgraph pv) + string := inr e.
