(* Model of earthkit.workflows.graph.split (split.py:24-136): CutEdge, Splitter.node /
   .output / .graph / .cut_edge (the default one), split_graph.
   NodeLike = (key, node of the result heap); OutputLike = (key, Output).
   CutEdge.name is "__cut_" + hex(hash(cut)) + "__": the hash is not modelled, cut_name is
   a parameter (the checker reads the names off the observation and validates that sink and
   source of a cut carry the name of the reported CutEdge).
   `stands` records, for the source node created for a cut, the output it stands for: it is
   what "re-joining along the cut edges" means (sem_rj below).  `rdone` is the engine's `done`
   dict (input node -> (key, node)): which node of the result is the written version of which
   input node, and the key it was processed under.  No proofs in this file. *)
From Coq Require Import List String Bool Arith.
From EKW Require Import Graph.GStore Graph.Denote Graph.Engine.
Import ListNotations.
Open Scope string_scope.
Open Scope list_scope.

Section Split.
Variable P K : Type.
Variable keqb : K -> K -> bool.        (* K.__eq__ (and dict lookup by key) *)
Variable key : node P -> K.            (* the key callback, applied to the visited node *)

Record cutedge := mkCut {
  c_skey : K; c_snode : string; c_sout : string;
  c_dkey : K; c_dnode : string; c_dinput : string }.

Variable cut_name : cutedge -> string.

Record sstate := mkS {
  sheap : list (node P);
  scuts : list cutedge;                       (* self.cuts, in order *)
  ssinks : list (K * list nat);               (* self.sinks: insertion-ordered dict *)
  spairs : list (nat * nat);                  (* (sink, source) created for each cut, latest first *)
  stands : list (nat * (nat * string)) }.     (* source node -> the output it replaces *)

(* self.sinks.setdefault(k, []).append(s) *)
Fixpoint add_sink (k : K) (s : nat) (l : list (K * list nat)) : list (K * list nat) :=
  match l with
  | [] => [(k, [s])]
  | (k', ss) :: r => if keqb k' k then (k', ss ++ [s]) :: r else (k', ss) :: add_sink k s r
  end.

(* the loop over inputs.items() in Splitter.node *)
Fixpoint cut_inputs (k : K) (dname : string) (st : sstate)
         (inputs : list (string * (K * (nat * string))))
  : sstate * list (string * (nat * string)) :=
  match inputs with
  | [] => (st, [])
  | (iname, (ik, ival)) :: rest =>
      if keqb ik k then
        let '(st', l) := cut_inputs k dname st rest in (st', (iname, ival) :: l)
      else
        (* cut = CutEdge(ik, ival.parent.name, ival.name, k, node.name, iname) *)
        let cut := mkCut ik (name_of (sheap st) (fst ival)) (snd ival) k dname iname in
        let nm := cut_name cut in
        (* cut_edge: Node(cut.name, outputs=[], input=sink_in), Node(cut.name) *)
        let sid := List.length (sheap st) in
        let st1 := mkS (sheap st ++ [mkNode nm [] None [("input", ival)]; mkNode nm [DEFAULT_OUTPUT] None []])
                       (scuts st ++ [cut])
                       (add_sink ik sid (ssinks st))
                       ((sid, S sid) :: spairs st)
                       ((S sid, ival) :: stands st) in
        let '(st', l) := cut_inputs k dname st1 rest in
        (st', (iname, (S sid, DEFAULT_OUTPUT)) :: l)      (* source.get_output() *)
  end.

(* def node(self, node, /, **inputs) *)
Definition split_visit (st : sstate) (n : nat) (nd : node P)
           (inputs : list (string * (K * (nat * string)))) : res (sstate * (K * nat)) :=
  let k := key nd in
  let '(st', new_inputs) := cut_inputs k (nname nd) st inputs in
  (* node.inputs = new_inputs *)
  Ok (mkS (sheap st' ++ [mkNode (nname nd) (nouts nd) (npay nd) new_inputs])
          (scuts st') (ssinks st') (spairs st') (stands st'),
      (k, List.length (sheap st'))).

(* def output(self, tnode, output): k, node = tnode; return (k, node.get_output(output)) *)
Definition split_output (st : sstate) (r : K * nat) (o : string) : res (K * (nat * string)) :=
  match nth_error (sheap st) (snd r) with
  | None => Err "model:dangling"
  | Some nd => if smemb o (nouts nd) then Ok (fst r, (snd r, o)) else Err "AttributeError"
  end.

Record splitres := mkR {
  rheap : list (node P);
  rparts : list (K * list nat);       (* {k: Graph(s)} in dict order *)
  rcuts : list cutedge;
  rpairs : list (nat * nat);
  rstands : list (nat * (nat * string));
  rdone : list (nat * (K * nat)) }.           (* ghost: input node -> (key it was filed under, its version in rheap) *)

(* def graph(self, graph, sinks) *)
Definition split_finish (st : sstate) (rs : list (K * nat)) (done : list (nat * (K * nat))) : splitres :=
  mkR (sheap st) (fold_left (fun l kr => add_sink (fst kr) (snd kr) l) rs (ssinks st))
      (scuts st) (spairs st) (stands st) done.

Definition split_graph_k (g : graph P) : res splitres :=
  bind (transform split_visit split_output (heap g) (sinks g) (mkS [] [] [] [] []))
       (fun x => Ok (split_finish (fst (fst x)) (snd (fst x)) (snd x))).

End Split.

Arguments mkCut {K}. Arguments c_skey {K}. Arguments c_snode {K}. Arguments c_sout {K}.
Arguments c_dkey {K}. Arguments c_dnode {K}. Arguments c_dinput {K}.
Arguments mkS {P K}. Arguments sheap {P K}. Arguments scuts {P K}. Arguments ssinks {P K}.
Arguments spairs {P K}. Arguments stands {P K}.
Arguments add_sink {K}. Arguments cut_inputs {P K}. Arguments split_visit {P K}.
Arguments split_output {P K}. Arguments mkR {P K}. Arguments rheap {P K}. Arguments rparts {P K}.
Arguments rcuts {P K}. Arguments rpairs {P K}. Arguments rstands {P K}. Arguments rdone {P K}.
Arguments split_finish {P K}. Arguments split_graph_k {P K}.

(* split_graph(key, graph).  The key callback is handed a Node OBJECT and may follow its inputs
   (`n.inputs[..].parent`): it is a function of a node AND the heap the node's inputs point
   into.  The Splitter calls it once per node, when the node is visited, i.e. BEFORE
   `node.inputs = new_inputs` (split.py:60): the node still has the inputs of the input
   graph.  Its parents have been written by then (their inputs may be cut sources), but a
   parent's name, outputs, payload and the number and names of its inputs are never written
   by the Splitter: for every key that reads the node itself and, of its DIRECT inputs, only
   those fields, the value is `key (heap g) nd`, the key of the node in the input graph.
   (A key that walks further up reads a graph that is partly split already; the harness
   runs such keys against the property oracle only.)
   Evaluating the key later -- on the written node, `key (sheap st) new_version` -- is a
   different function as soon as the key reads inputs: late_key below, kept to state what
   the model distinguishes (Props/C11.v, C11_split_key_time_matters). *)
Definition split_graph {P K} (keqb : K -> K -> bool) (key : list (node P) -> node P -> K)
           (cut_name : cutedge K -> string) (g : graph P) : res (splitres P K) :=
  split_graph_k keqb (key (heap g)) cut_name g.

(* the key of an input node evaluated AFTER the split, on the version written into the result heap *)
Definition late_key {P K} (key : list (node P) -> node P -> K) (r : splitres P K) (x : nat) : option K :=
  option_map (key (rheap r)) (nth_error (rheap r) x).

(* ------------------------------------------------------------------ re-joining *)
(* The parts re-joined along the cut edges: the source node created for a cut denotes the
   output it replaced (the input of the sink of the same name in the source part). *)
Section Rejoin.
Variable P V : Type.
Variable interp : option P -> list string -> list (string * V) -> string -> V.

Definition nodeval_rj (st : list (nat * (nat * string))) (acc : list (string -> V)) (nd : node P)
  : string -> V :=
  match lookupn (List.length acc) st with
  | Some (p, o) => fun _ => nth p acc (dv interp) o
  | None => nodeval interp acc nd
  end.

Definition vals_rj (st : list (nat * (nat * string))) (h : list (node P)) : list (string -> V) :=
  fold_left (fun acc nd => acc ++ [nodeval_rj st acc nd]) h [].

Definition sem_rj (st : list (nat * (nat * string))) (h : list (node P)) (n : nat) (o : string) : V :=
  nth n (vals_rj st h) (dv interp) o.
End Rejoin.
Arguments sem_rj {P V}. Arguments vals_rj {P V}. Arguments nodeval_rj {P V}.
