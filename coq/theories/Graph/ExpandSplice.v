(* What the nodes spliced in by Splicer.transform denote (expand.py: Splicer.source /
   processor / sink / splice_source / splice_sink, the default ones), for every
   interpretation of payloads.

   The reading of the sub-graph "with its bound sources connected": [bound_heap env spo hs]
   is the sub-graph's own heap over the payload type (option P * option V) in which
   - a source called k carries the value env k bound to it (None: not bound),
   - a sink (inputs, no outputs) whose name is a value of the output map has the default
     output (splice_sink: outputs=None),
   - every other node is unchanged;
   [binterp] interprets a bound source as  payload(input = bound value), an unbound one as
   payload(), every other node as before.  [splice_sem]: every node the Splicer run adds for
   a sub-graph node denotes what that node denotes in this reading, where env k is what the
   node input source_binding assigns to k denotes in the outer result heap -- nothing else of
   the outer graph enters the sub-graph. *)
From Coq Require Import List String Bool Arith Lia.
From EKW Require Import Graph.GStore Graph.Denote Graph.Engine Graph.EngineProofs Graph.Expand Graph.ExpandProofs.
Import ListNotations.
Open Scope string_scope.
Open Scope list_scope.

Section Splice.
Variable P V : Type.
Variable interp : option P -> list string -> list (string * V) -> string -> V.
Notation sem := (sem interp).

Definition bpay : Type := (option P * option V)%type.

Definition binterp (p : option bpay) (outs : list string) (args : list (string * V)) (o : string) : V :=
  match p with
  | Some (p0, Some v) => interp p0 outs (("input", v) :: args) o
  | Some (p0, None) => interp p0 outs args o
  | None => interp None outs args o
  end.

Definition bound_node (env : string -> option V) (spo : smap) (nd : node P) : node bpay :=
  match nins nd with
  | [] => mkNode (nname nd) (nouts nd) (Some (npay nd, env (nname nd))) []
  | _ :: _ =>
      mkNode (nname nd)
             (match nouts nd with
              | [] => if smemb (nname nd) (map snd spo) then [DEFAULT_OUTPUT] else []
              | _ :: _ => nouts nd
              end)
             (Some (npay nd, None)) (nins nd)
  end.

Definition bound_heap (env : string -> option V) (spo : smap) (hs : list (node P)) : list (node bpay) :=
  map (bound_node env spo) hs.

(* value of output o of sub-graph node n, bound sources connected *)
Definition ssem (env : string -> option V) (spo : smap) (hs : list (node P)) (n : nat) (o : string) : V :=
  Denote.sem binterp (bound_heap env spo hs) n o.

Lemma bound_node_parents : forall env spo nd, parents (bound_node env spo nd) = parents nd.
Proof. intros env spo nd. unfold bound_node, parents. destruct (nins nd); reflexivity. Qed.

Lemma bound_heap_topo : forall env spo hs, topo hs -> topo (bound_heap env spo hs).
Proof.
  intros env spo hs Ht n bnd Hn p Hp. unfold bound_heap in Hn.
  rewrite nth_error_map in Hn. destruct (nth_error hs n) as [nd|] eqn:E; [|discriminate].
  injection Hn as <-. rewrite bound_node_parents in Hp. eapply Ht; eassumption.
Qed.

Lemma ssem_unfold : forall env spo hs n nd o, topo hs -> nth_error hs n = Some nd ->
  ssem env spo hs n o =
  binterp (npay (bound_node env spo nd)) (nouts (bound_node env spo nd))
          (map (fun x => (fst x, ssem env spo hs (fst (snd x)) (snd (snd x)))) (nins (bound_node env spo nd))) o.
Proof.
  intros env spo hs n nd o Ht Hn. unfold ssem.
  apply (sem_unfold bpay V binterp (bound_heap env spo hs) n (bound_node env spo nd) o (bound_heap_topo env spo hs Ht)).
  unfold bound_heap. rewrite nth_error_map, Hn. reflexivity.
Qed.

Lemma lookup_Some_In_ : forall A (l : list (string * A)) k v, lookup k l = Some v -> exists k', In (k', v) l.
Proof.
  intros A l. induction l as [|[k' v'] r IH]; intros k v H; simpl in H; [discriminate|].
  destruct (String.eqb k k').
  - injection H as <-. exists k'. now left.
  - destruct (IH k v H) as [k2 Hk]. exists k2. now right.
Qed.

(* str.removeprefix gives back the sub-graph's own name *)
Lemma prefix_app : forall a b, String.prefix a (a ++ b) = true.
Proof.
  induction a as [|c a IH]; intros b; simpl; [destruct b; reflexivity|].
  destruct (Ascii.ascii_dec c c) as [_|Hc]; [apply IH|congruence].
Qed.

Lemma substring_all : forall b, String.substring 0 (String.length b) b = b.
Proof. induction b as [|c b IH]; simpl; [reflexivity|now rewrite IH]. Qed.

Lemma substring_app : forall a b, String.substring (String.length a) (String.length b) (a ++ b) = b.
Proof. induction a as [|c a IH]; intros b; simpl; [apply substring_all|apply IH]. Qed.

Lemma length_app : forall a b, String.length (a ++ b) = String.length a + String.length b.
Proof. induction a as [|c a IH]; intros b; simpl; [reflexivity|now rewrite IH]. Qed.

Lemma app_assoc_s : forall a b c : string, ((a ++ b) ++ c = a ++ (b ++ c))%string.
Proof. induction a as [|x a IH]; intros b c; simpl; [reflexivity|now rewrite IH]. Qed.

Lemma remove_prefix_prefixed : forall pname x, remove_prefix (pname ++ ".") (pname ++ "." ++ x) = x.
Proof.
  intros pname x. rewrite <- app_assoc_s. generalize (pname ++ ".")%string. intros pre. unfold remove_prefix.
  rewrite prefix_app. rewrite (length_app pre x).
  replace (String.length pre + String.length x - String.length pre) with (String.length x) by lia.
  apply substring_app.
Qed.

Lemma lookup_In_key : forall A (l : list (string * A)) k v, lookup k l = Some v -> In (k, v) l.
Proof.
  intros A l. induction l as [|[k' v'] r IH]; intros k v H; simpl in H; [discriminate|].
  destruct (String.eqb k k') eqn:E.
  - apply String.eqb_eq in E. subst. injection H as <-. now left.
  - right. now apply IH.
Qed.

Lemma ssem_ext : forall env1 env2 spo hs n o, (forall k, env1 k = env2 k) ->
  ssem env1 spo hs n o = ssem env2 spo hs n o.
Proof.
  intros env1 env2 spo hs n o He. unfold ssem, bound_heap. f_equal.
  apply map_ext. intros nd. unfold bound_node. destruct (nins nd); [now rewrite He|reflexivity].
Qed.

Section Run.
Variable pname : string.
Variable spi : list (string * (nat * string)).     (* Splicer.inputs *)
Variable spo : smap.                               (* Splicer.outputs *)
Variable hs : list (node P).                       (* the sub-graph *)
Variable h0 : list (node P).                       (* the outer result heap when the node is expanded *)
Hypothesis Hts : topo hs.
Hypothesis Ht0 : topo h0.
Hypothesis Hspi : Forall (fun x => fst (snd x) < List.length h0) spi.

(* what is bound to a source called k: the value of the outer output Splicer.inputs[k] *)
Definition env_of (k : string) : option V :=
  match lookup k spi with Some inp => Some (sem h0 (fst inp) (snd inp)) | None => None end.

(* r stands for sub-graph node m: it denotes what m denotes (bound sources connected) and
   is called "<expanded node>.<name of m>" *)
Definition stands (st : list (node P)) (m r : nat) : Prop :=
  r < List.length st /\ (forall o, sem st r o = ssem env_of spo hs m o) /\
  exists ndm, nth_error hs m = Some ndm /\ name_of st r = prefixed pname (nname ndm).

Definition SI (done : list (nat * nat)) (st : list (node P)) : Prop :=
  (exists ext, st = h0 ++ ext) /\ topo st /\
  forall m r, In (m, r) done -> stands st m r.

Lemma stands_app : forall st nd' m r, stands st m r -> stands (st ++ [nd']) m r.
Proof.
  intros st nd' m r (Hl & Hs & ndm & Hn & Hname).
  split; [rewrite app_length; simpl; lia|]. split; [intros o; rewrite sem_old by assumption; apply Hs|].
  exists ndm. split; [assumption|]. unfold name_of in *. now rewrite nth_error_app1 by assumption.
Qed.

Lemma SI_gathered : forall done st ins (inputs : list (string * (nat * string))),
  SI done st ->
  Forall2 (fun i x => fst x = fst i /\
                      exists r, lookupn (fst (snd i)) done = Some r /\
                                out_node st r (snd (snd i)) = Ok (snd x)) ins inputs ->
  map (fun x => (fst x, sem st (fst (snd x)) (snd (snd x)))) inputs =
  map (fun x => (fst x, ssem env_of spo hs (fst (snd x)) (snd (snd x)))) ins.
Proof.
  intros done st ins inputs (_ & _ & HR) HF.
  induction HF as [|i x li lx [H1 (r & Hl & Ho)] _ IH]; [reflexivity|].
  simpl. rewrite IH, H1. f_equal. f_equal.
  apply out_node_ok in Ho. destruct Ho as (Hx & _). rewrite Hx. simpl.
  apply (HR _ _ (lookupn_In _ _ _ _ Hl)).
Qed.

Lemma splicer_visit_SI : forall done st n nd inputs st' r,
  SI done st -> nth_error hs n = Some nd -> lookupn n done = None ->
  gather out_node st done (nins nd) = Ok (Ready inputs) ->
  splicer_visit pname spi spo st n nd inputs = Ok (st', r) -> SI ((n, r) :: done) st'.
Proof.
  intros done st n nd inputs st' r HSI Hn _ Hg Hv.
  apply gather_spec in Hg.
  pose proof (SI_gathered done st (nins nd) inputs HSI Hg) as Hmap.
  pose proof (gathered_lt P st done (nins nd) inputs Hg) as Hlt.
  destruct HSI as ([ext Hext] & Htst & HR).
  (* every branch appends exactly one node c at index |st| *)
  assert (Hone : forall c, st' = st ++ [c] -> r = List.length st ->
            nname c = prefixed pname (nname nd) ->
            Forall (fun x => fst (snd x) < List.length st) (nins c) ->
            (forall o, sem (st ++ [c]) (List.length st) o = ssem env_of spo hs n o) -> SI ((n, r) :: done) st').
  { intros c -> -> Hname Hins Hc. split; [exists (ext ++ [c]); rewrite Hext, <- app_assoc; reflexivity|].
    split; [now apply topo_snoc|].
    intros m r' [Heq|Hin].
    - injection Heq as <- <-. split; [rewrite app_length; simpl; lia|]. split; [exact Hc|].
      exists nd. split; [assumption|]. unfold name_of. rewrite nth_error_app2 by lia. now rewrite Nat.sub_diag.
    - apply stands_app. now apply HR. }
  unfold splicer_visit in Hv.
  destruct (nins nd) as [|i0 irest] eqn:Hins.
  - (* a source *)
    destruct (lookup (nname nd) spi) as [inp|] eqn:Hl.
    + unfold mk_node in Hv. simpl in Hv. injection Hv as <- <-.
      assert (Hinp : fst inp < List.length h0).
      { destruct (lookup_Some_In_ _ _ _ _ Hl) as [k' Hk']. rewrite Forall_forall in Hspi. apply (Hspi _ Hk'). }
      eapply Hone; [reflexivity|reflexivity|reflexivity| |].
      { simpl. constructor; [|constructor]. simpl. rewrite Hext, app_length. lia. }
      intros o.
      rewrite sem_new, (ssem_unfold env_of spo hs n nd o Hts Hn). unfold bound_node. rewrite Hins. simpl.
      unfold env_of. rewrite Hl. simpl.
      rewrite Hext, sem_old by (apply Hinp). reflexivity.
    + injection Hv as <- <-. eapply Hone; [reflexivity|reflexivity|reflexivity|simpl; auto|]. intros o.
      rewrite sem_new, (ssem_unfold env_of spo hs n nd o Hts Hn). unfold bound_node. rewrite Hins. simpl.
      unfold env_of. rewrite Hl. reflexivity.
  - destruct (nouts nd) as [|o0 orest] eqn:Houts.
    + (* a sink *)
      destruct (smemb (nname nd) (map snd spo)) eqn:Hm.
      * unfold mk_node in Hv. destruct (existsb _ _); simpl in Hv; [discriminate|]. injection Hv as <- <-.
        eapply Hone; [reflexivity|reflexivity|reflexivity|simpl; auto|]. intros o.
        rewrite sem_new, (ssem_unfold env_of spo hs n nd o Hts Hn). unfold bound_node. rewrite Hins, Houts, Hm. simpl nins. simpl npay. simpl nouts.
        rewrite Hmap. reflexivity.
      * injection Hv as <- <-. eapply Hone; [reflexivity|reflexivity|reflexivity|simpl; auto|]. intros o.
        rewrite sem_new, (ssem_unfold env_of spo hs n nd o Hts Hn). unfold bound_node. rewrite Hins, Houts, Hm. simpl nins. simpl npay. simpl nouts.
        rewrite Hmap. reflexivity.
    + (* a processor *)
      injection Hv as <- <-. eapply Hone; [reflexivity|reflexivity|reflexivity|simpl; auto|]. intros o.
      rewrite sem_new, (ssem_unfold env_of spo hs n nd o Hts Hn). unfold bound_node. rewrite Hins, Houts. simpl nins. simpl npay. simpl nouts.
      rewrite Hmap. reflexivity.
Qed.

(* the Splicer run: the outer heap is extended, and every transformed sub-graph node
   denotes what the sub-graph node denotes with the bound sources connected *)
Lemma splice_sem : forall sinks h1 rs done,
  transform (splicer_visit pname spi spo) out_node hs sinks h0 = Ok (h1, rs, done) ->
  (exists ext, h1 = h0 ++ ext) /\ topo h1 /\ Forall2 (fun s r => stands h1 s r) sinks rs.
Proof.
  intros sinks h1 rs done H.
  destruct (transform_inv P _ _ _ (splicer_visit pname spi spo) out_node hs SI splicer_visit_SI sinks h0 h1 rs done)
    as [(Hext & Ht1 & HR) HF]; [split; [exists []; now rewrite app_nil_r|split; [exact Ht0|intros m r []]]|exact H|].
  split; [exact Hext|]. split; [exact Ht1|]. clear H.
  induction HF as [|s r ls lr Hl _ IH]; constructor; [|exact IH].
  apply (HR _ _ (lookupn_In _ _ _ _ Hl)).
Qed.

(* Splicer.transform(sub): the leaf registered under a name is the transformed version of a
   sink of the sub-graph called so, and denotes what that sink denotes *)
Lemma splice_leaves : forall sinks h1 r,
  splice pname spi spo h0 (mkGraph hs sinks) = Ok (h1, r) ->
  (exists ext, h1 = h0 ++ ext) /\ topo h1 /\
  exists leaves inner, r = RSub leaves spo inner /\
  forall lname leaf, lookup_last lname leaves = Some leaf ->
    leaf < List.length h1 /\
    exists s ns, In s sinks /\ nth_error hs s = Some ns /\ nname ns = lname /\
                 forall o, sem h1 leaf o = ssem env_of spo hs s o.
Proof.
  intros sinks h1 r H. unfold splice in H. simpl in H.
  destruct (transform (splicer_visit pname spi spo) out_node hs sinks h0) as [[[h2 rs] done]|] eqn:Htr; simpl in H; [|discriminate].
  destruct (splicer_sort pname spo h2 rs [] []) as [leaves inner] eqn:Hs. injection H as <- <-.
  destruct (splice_sem sinks h2 rs done Htr) as (Hext & Ht1 & HF).
  split; [exact Hext|]. split; [exact Ht1|]. exists leaves, inner. split; [reflexivity|].
  intros lname leaf Hl. unfold lookup_last in Hl. apply lookup_In_key in Hl. apply in_rev in Hl.
  destruct (splicer_sort_spec P pname spo h2 rs [] [] leaves inner Hs) as (H1 & _ & _).
  destruct (H1 lname leaf Hl) as [[]|(Hin & Hname & _)].
  destruct (F2_ex_l _ _ _ _ _ HF leaf Hin) as (s & Hsin & Hlt & Hsem & ns & Hns & Hnm).
  split; [exact Hlt|]. exists s, ns. split; [exact Hsin|]. split; [exact Hns|]. split; [|exact Hsem].
  rewrite Hname, Hnm. unfold prefixed. symmetry. apply remove_prefix_prefixed.
Qed.

End Run.
End Splice.

Arguments binterp {P V}. Arguments bound_node {P V}. Arguments bound_heap {P V}. Arguments ssem {P V}.
Arguments env_of {P V}.

(* the same, from Splicer.__init__ on: the environment is what the input map binds *)
Lemma splice_leaves_binding : forall (P V : Type) (interp : option P -> list string -> list (string * V) -> string -> V)
    pname (inputs : list (string * (nat * string))) (imap : option smap) spi (spo : smap)
    (sub : graph P) (h0 h1 : list (node P)) r,
  topo (heap sub) -> topo h0 -> Forall (fun x => fst (snd x) < List.length h0) inputs ->
  mk_sp_inputs inputs imap = Ok spi ->
  splice pname spi spo h0 sub = Ok (h1, r) ->
  (exists ext, h1 = h0 ++ ext) /\ topo h1 /\
  exists leaves inner, r = RSub leaves spo inner /\
  forall lname leaf, lookup_last lname leaves = Some leaf ->
    leaf < List.length h1 /\
    exists s ns, In s (sinks sub) /\ nth_error (heap sub) s = Some ns /\ nname ns = lname /\
      forall o, sem interp h1 leaf o =
                ssem interp (fun k => option_map (fun inp => sem interp h0 (fst inp) (snd inp)) (source_binding inputs imap k))
                     spo (heap sub) s o.
Proof.
  intros P V interp pname inputs imap spi spo [hs sks] h0 h1 r Hts Ht0 Hin Hm Hv. simpl in *.
  assert (Hspi : Forall (fun x => fst (snd x) < List.length h0) spi).
  { apply Forall_forall. intros y Hy. destruct (mk_sp_inputs_In inputs imap spi Hm y Hy) as (x & Hx & Hs).
    rewrite <- Hs. rewrite Forall_forall in Hin. now apply Hin. }
  destruct (splice_leaves P V interp pname spi spo hs h0 Hts Ht0 Hspi sks h1 r Hv) as (Hext & Ht1 & leaves & inner & -> & Hl).
  split; [exact Hext|]. split; [exact Ht1|]. exists leaves, inner. split; [reflexivity|].
  intros lname leaf Hll. destruct (Hl lname leaf Hll) as (Hlt & s & ns & Hsin & Hns & Hnm & Hsem).
  split; [exact Hlt|]. exists s, ns. split; [exact Hsin|]. split; [exact Hns|]. split; [exact Hnm|].
  intros o. rewrite Hsem. apply ssem_ext. intros k. unfold env_of.
  rewrite (mk_sp_inputs_lookup inputs imap spi Hm k). destruct (source_binding inputs imap k); reflexivity.
Qed.

(* ------------------------------------------------------------------ a contract on the sub-graph alone *)
Section Contract.
Variable P V : Type.
Variable interp : option P -> list string -> list (string * V) -> string -> V.
Variable expander : node P -> option (subspec P).
Variable h : list (node P).
Hypothesis Ht : topo h.

(* "the sub-graph denotes the node", stated on what the expander returns and nothing else:
   the sub-graph is acyclic and, whatever values ival the node's inputs have, every sink
   of the sub-graph that is called like the leaf of output o denotes -- with the sources
   bound by the input map fed by those values (source_binding) and all other sources left
   alone -- what the node computes for o from ival *)
Definition sub_denotes (nd : node P) (sub : graph P) (imap omap : option smap) : Prop :=
  topo (heap sub) /\
  forall ival : list (string * V), map fst ival = map fst (nins nd) ->
  forall o lname s ns, lookup o (mk_sp_outputs (nouts nd) omap) = Some lname ->
    In s (sinks sub) -> nth_error (heap sub) s = Some ns -> nname ns = lname ->
    ssem interp (source_binding ival imap) (mk_sp_outputs (nouts nd) omap) (heap sub) s DEFAULT_OUTPUT
    = interp (npay nd) (nouts nd) ival o.

Hypothesis contract : forall n nd sub imap omap,
  nth_error h n = Some nd -> expander nd = Some (sub, imap, omap) -> sub_denotes nd sub imap omap.

(* the hypothesis splice_denotes of ExpandProofs.expand_preserves_sem, derived *)
Lemma contract_splice_denotes : forall h' n nd inputs h'' r sub imap omap,
  topo h' -> nth_error h n = Some nd -> expander nd = Some (sub, imap, omap) ->
  Forall2 (fun i x => fst x = fst i /\ fst (snd x) < List.length h' /\
                      sem interp h' (fst (snd x)) (snd (snd x)) = sem interp h (fst (snd i)) (snd (snd i))) (nins nd) inputs ->
  expand_visit expander h' n nd inputs = Ok (h'', r) ->
  (exists ext, h'' = h' ++ ext) /\ topo h'' /\ good P V interp h h'' n r.
Proof.
  intros h' n nd inputs h'' r sub imap omap Ht' Hn He HF Hv.
  unfold expand_visit in Hv. rewrite He in Hv.
  destruct (mk_sp_inputs inputs imap) as [spi|] eqn:Hm; simpl in Hv; [|discriminate].
  destruct (contract n nd sub imap omap Hn He) as [Hts Hc].
  destruct sub as [hs sks]. simpl in Hts, Hc.
  assert (Hspi : Forall (fun x => fst (snd x) < List.length h') spi).
  { apply Forall_forall. intros y Hy. destruct (mk_sp_inputs_In inputs imap spi Hm y Hy) as (x & Hx & Hs).
    rewrite <- Hs. destruct (F2_ex_l _ _ _ _ _ HF x Hx) as (i & _ & _ & Hlt & _). exact Hlt. }
  destruct (splice_leaves P V interp (nname nd) spi (mk_sp_outputs (nouts nd) omap) hs h' Hts Ht' Hspi sks h'' r Hv)
    as (Hext & Ht1 & leaves & inner & -> & Hl).
  split; [exact Hext|]. split; [exact Ht1|]. simpl. intros o lname leaf Ho Hll.
  destruct (Hl lname leaf Hll) as (Hlt & s & ns & Hsin & Hns & Hnm & Hsem).
  split; [exact Hlt|]. rewrite Hsem.
  set (G := fun v : nat * string => sem interp h' (fst v) (snd v)).
  set (ival := map (fun x : string * (nat * string) => (fst x, G (snd x))) inputs).
  rewrite (ssem_ext P V interp (env_of interp spi h') (source_binding ival imap)).
  - assert (Hfst : map fst ival = map fst (nins nd)).
    { unfold ival. rewrite map_map. simpl. clear -HF. induction HF as [|i x li lx [H1 _] _ IH]; simpl; [reflexivity|now rewrite H1, IH]. }
    rewrite (Hc ival Hfst o lname s ns Ho Hsin Hns Hnm).
    rewrite (sem_unfold P V interp h n nd o Ht Hn). f_equal.
    unfold ival, G. clear -HF. induction HF as [|i x li lx (H1 & _ & H2) _ IH]; simpl; [reflexivity|].
    now rewrite H1, H2, IH.
  - intros k. unfold env_of. rewrite (mk_sp_inputs_lookup inputs imap spi Hm k).
    unfold ival. rewrite source_binding_map. destruct (source_binding inputs imap k); reflexivity.
Qed.

(* expand_graph, for ANY expander whose sub-graphs denote the nodes they replace: a sink
   that is not itself expanded denotes in the result what it denoted, whatever was expanded
   below it *)
Lemma expand_preserves_contract : forall (g g' : graph P), h = heap g ->
  expand_graph expander g = Ok g' ->
  forall s, In s (sinks g) -> (forall nd, nth_error h s = Some nd -> expander nd = None) ->
  exists s', In s' (sinks g') /\ forall o, sem interp (heap g') s' o = sem interp h s o.
Proof.
  intros g g' Hh H. exact (expand_preserves_sem P V interp expander h Ht contract_splice_denotes g g' Hh H).
Qed.

End Contract.
