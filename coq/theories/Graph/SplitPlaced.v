(* split_graph_k: WHERE every node of the input ends up.  rdone (the engine's `done` dict) says
   which node of the result heap is the written version of which input node and under which
   key it was processed.  Proved here, for any key function:
     split_done_key   : that key is the key of the node AS IT IS IN THE INPUT GRAPH (the key is
                        taken before node.inputs is written), the version keeps name, outputs,
                        payload and input names;
     split_placed     : every node reachable from the sinks of the input has a version, and the
                        version is reachable from the sinks of some part;
     split_part_of_key: (key equality = equality) a part from whose sinks the version is
                        reachable is the part of that key.
   Together with split_partition: every node of the input is in exactly one part, the part
   named by its key in the input graph. *)
From Coq Require Import List String Bool Arith Lia.
From EKW Require Import Graph.GStore Graph.Denote Graph.Engine Graph.EngineProofs Graph.Split Graph.SplitProofs Graph.DedupProofs.
Import ListNotations.
Open Scope string_scope.
Open Scope list_scope.

Section Placed.
Variable P K : Type.
Variable keqb : K -> K -> bool.
Variable key : node P -> K.
Variable cut_name : cutedge K -> string.
Variable h : list (node P).

Notation sstate := (sstate P K).
Notation in_part := (in_part K).

(* xp is an input of the node at x, or of a sink filed under some key *)
Definition fed (hp : list (node P)) (sl : list (K * list nat)) (pars : list nat) (xp : nat) : Prop :=
  In xp pars \/ exists s snk, in_part sl s /\ nth_error hp s = Some snk /\ In xp (parents snk).

Lemma fed_ext : forall hp ext sl sl' pars xp,
  (forall s, in_part sl s -> in_part sl' s) -> fed hp sl pars xp -> fed (hp ++ ext) sl' pars xp.
Proof.
  intros hp ext sl sl' pars xp Hm [Hl|(s & snk & Hs & Hn & Hp)]; [now left|].
  right. exists s, snk. split; [now apply Hm|]. split; [now apply nth_error_app_Some|assumption].
Qed.

Lemma cut_inputs_cover : forall k dname inputs st st' l,
  cut_inputs keqb cut_name k dname st inputs = (st', l) ->
  (exists ext, sheap st' = sheap st ++ ext) /\
  (forall s, in_part (ssinks st) s -> in_part (ssinks st') s) /\
  map fst l = map fst inputs /\
  Forall (fun i => fed (sheap st') (ssinks st') (map (fun y => fst (snd y)) l) (fst (snd (snd i)))) inputs.
Proof.
  intros k dname inputs. induction inputs as [|[iname [ik [p po]]] rest IH]; intros st st' l Hc; simpl in Hc.
  - injection Hc as <- <-. split; [exists []; now rewrite app_nil_r|]. split; [auto|]. split; [reflexivity|constructor].
  - destruct (keqb ik k).
    + destruct (cut_inputs keqb cut_name k dname st rest) as [st1 l1] eqn:Hr. injection Hc as <- <-.
      destruct (IH st st1 l1 Hr) as (He & Hm & Hf & HF).
      split; [assumption|]. split; [assumption|]. split; [simpl; now rewrite Hf|].
      constructor; [left; simpl; now left|].
      eapply Forall_impl; [|exact HF]. intros a [Ha|Ha]; [left; simpl; now right|now right].
    + match type of Hc with (let '(_, _) := cut_inputs _ _ _ _ ?s1 _ in _) = _ => set (st1 := s1) in * end.
      destruct (cut_inputs keqb cut_name k dname st1 rest) as [st2 l2] eqn:Hr. injection Hc as <- <-.
      destruct (IH st1 st2 l2 Hr) as ((ext & He) & Hm & Hf & HF).
      set (nm := cut_name (mkCut ik (name_of (sheap st) p) po k dname iname)) in *.
      split; [|split; [|split]].
      * rewrite He. unfold st1. simpl. rewrite <- app_assoc. eexists. reflexivity.
      * intros s Hs. apply Hm. unfold st1. simpl. now apply add_sink_keeps.
      * simpl. now rewrite Hf.
      * constructor.
        -- right. exists (List.length (sheap st)), (mkNode nm [] None [("input", (p, po))]).
           split; [apply Hm; unfold st1; simpl; apply add_sink_adds|].
           split; [|simpl; now left].
           rewrite He. apply nth_error_app_Some. unfold st1. simpl.
           rewrite nth_error_app2 by lia. now rewrite Nat.sub_diag.
        -- eapply Forall_impl; [|exact HF]. intros a [Ha|Ha]; [left; simpl; now right|now right].
Qed.

(* the invariant: every visited node m has a version x that keeps its name, outputs, payload
   and input names, was filed under key(m as in the input graph), and each parent of m has a
   version that feeds x or a sink filed in some part *)
Definition QI (done : list (nat * (K * nat))) (st : sstate) : Prop :=
  forall m k x, In (m, (k, x)) done ->
    exists nd nd', nth_error h m = Some nd /\ k = key nd /\ nth_error (sheap st) x = Some nd' /\
      (nname nd' = nname nd /\ nouts nd' = nouts nd /\ npay nd' = npay nd /\ map fst (nins nd') = map fst (nins nd)) /\
      forall p, In p (parents nd) ->
        exists kp xp, In (p, (kp, xp)) done /\ fed (sheap st) (ssinks st) (parents nd') xp.

Lemma split_visit_QI : forall done st n nd inputs st' r,
  QI done st -> nth_error h n = Some nd -> lookupn n done = None ->
  gather split_output st done (nins nd) = Ok (Ready inputs) ->
  split_visit keqb key cut_name st n nd inputs = Ok (st', r) -> QI ((n, r) :: done) st'.
Proof.
  intros done st n nd inputs st' r HQ Hn _ Hg Hv.
  apply gather_spec in Hg. unfold split_visit in Hv.
  destruct (cut_inputs keqb cut_name (key nd) (nname nd) st inputs) as [st1 l] eqn:Hc.
  injection Hv as <- <-.
  destruct (cut_inputs_cover _ _ _ _ _ _ Hc) as ((ext & He) & Hm & Hf & HF).
  intros m k x [Heq|Hin].
  - injection Heq as <- <- <-.
    exists nd, (mkNode (nname nd) (nouts nd) (npay nd) l). split; [assumption|]. split; [reflexivity|].
    split; [simpl; rewrite nth_error_app2 by lia; now rewrite Nat.sub_diag|].
    split.
    { simpl. repeat split. rewrite Hf. clear -Hg. induction Hg as [|i x li lx (Hfst & _) _ IH]; [reflexivity|]. simpl. now rewrite Hfst, IH. }
    intros p Hp. unfold parents in Hp. apply in_map_iff in Hp. destruct Hp as (i & <- & Hi).
    clear Hc Hf. revert HF. induction Hg as [|i0 x0 li lx (Hfst & r & Hl & Ho) _ IH]; intros HF; [contradiction|].
    inversion HF as [|? ? Hx HF']; subst.
    destruct Hi as [->|Hi]; [|now apply IH].
    apply split_output_lab in Ho. destruct r as [kp xp]. simpl in Ho.
    exists kp, xp. split; [right; now apply lookupn_In|].
    rewrite Ho in Hx. simpl in Hx. simpl.
    apply (fed_ext _ _ (ssinks st1)); [auto|exact Hx].
  - destruct (HQ m k x Hin) as (nd0 & nd' & H1 & H2 & H3 & H4 & H5).
    exists nd0, nd'. split; [assumption|]. split; [assumption|].
    split; [simpl; apply nth_error_app_Some; rewrite He; now apply nth_error_app_Some|].
    split; [assumption|].
    intros p Hp. destruct (H5 p Hp) as (kp & xp & Hd & Hfed). exists kp, xp. split; [now right|].
    simpl. apply (fed_ext _ _ (ssinks st1)); [auto|]. rewrite He. apply (fed_ext _ _ (ssinks st)); [exact Hm|exact Hfed].
Qed.

Lemma fold_add_sink_keeps : forall (rs : list (K * nat)) l x, in_part l x ->
  in_part (fold_left (fun l kr => add_sink keqb (fst kr) (snd kr) l) rs l) x.
Proof. induction rs as [|y rs IH]; intros l x H; [assumption|]. simpl. apply IH. now apply add_sink_keeps. Qed.

Lemma Forall2_ex_r : forall A B (R : A -> B -> Prop) l l' a, Forall2 R l l' -> In a l -> exists b, In b l' /\ R a b.
Proof.
  intros A B R l l' a HF. induction HF as [|x y lx ly Hxy _ IH]; intros Hin; [contradiction|].
  destruct Hin as [->|Hin]; [exists y; split; [now left|assumption]|].
  destruct (IH Hin) as (b & Hb & Hr). exists b. split; [now right|assumption].
Qed.

Lemma split_done_key : forall (g : graph P) r, h = heap g ->
  split_graph_k keqb key cut_name g = Ok r ->
  forall m k x, In (m, (k, x)) (rdone r) ->
    exists nd nd', nth_error h m = Some nd /\ k = key nd /\ nth_error (rheap r) x = Some nd' /\
      nname nd' = nname nd /\ nouts nd' = nouts nd /\ npay nd' = npay nd /\ map fst (nins nd') = map fst (nins nd).
Proof.
  intros g r Hh H. unfold split_graph_k in H. rewrite <- Hh in H.
  destruct (transform (split_visit keqb key cut_name) split_output h (sinks g) (mkS [] [] [] [] [])) as [[[st rs] done]|] eqn:Htr; simpl in H; [|discriminate].
  injection H as <-. simpl.
  destruct (transform_inv P _ _ _ _ _ h QI split_visit_QI (sinks g) (mkS [] [] [] [] []) st rs done) as [HQ _];
    [intros m k x []|exact Htr|].
  intros m k x Hin. destruct (HQ m k x Hin) as (nd & nd' & H1 & H2 & H3 & H4 & _).
  exists nd, nd'. tauto.
Qed.

Lemma split_placed : forall (g : graph P) r, h = heap g ->
  split_graph_k keqb key cut_name g = Ok r ->
  forall m, reachable h (sinks g) m ->
    exists k x, In (m, (k, x)) (rdone r) /\ exists k' ss, In (k', ss) (rparts r) /\ reachable (rheap r) ss x.
Proof.
  intros g r Hh H. unfold split_graph_k in H. rewrite <- Hh in H.
  destruct (transform (split_visit keqb key cut_name) split_output h (sinks g) (mkS [] [] [] [] [])) as [[[st rs] done]|] eqn:Htr; simpl in H; [|discriminate].
  injection H as <-. simpl.
  destruct (transform_inv P _ _ _ _ _ h QI split_visit_QI (sinks g) (mkS [] [] [] [] []) st rs done) as [HQ HF];
    [intros m k x []|exact Htr|].
  set (parts := fold_left (fun l kr => add_sink keqb (fst kr) (snd kr) l) rs (ssinks st)).
  intros m Hm. induction Hm as [s Hs|n nd p _ IH Hn Hp].
  - destruct (Forall2_ex_r _ _ _ _ _ s HF Hs) as ([k x] & Hin & Hl).
    exists k, x. split; [now apply lookupn_In|].
    destruct (fold_add_sink_in K keqb rs (ssinks st) (k, x) Hin) as (k' & ss & H1 & H2).
    exists k', ss. split; [exact H1|]. apply reach_sink. exact H2.
  - destruct IH as (k & x & Hd & k' & ss & Hin & Hr).
    destruct (HQ n k x Hd) as (nd0 & nd' & H1 & _ & H3 & _ & H5).
    assert (nd0 = nd) by congruence. subst nd0.
    destruct (H5 p Hp) as (kp & xp & Hdp & [Hl|(s & snk & Hs & Hns & Hps)]).
    + exists kp, xp. split; [assumption|]. exists k', ss. split; [assumption|].
      eapply reach_parent; eassumption.
    + exists kp, xp. split; [assumption|].
      destruct (fold_add_sink_keeps rs (ssinks st) s Hs) as (k2 & ss2 & Hi2 & Hx2).
      exists k2, ss2. split; [exact Hi2|].
      eapply reach_parent; [apply reach_sink; exact Hx2|exact Hns|exact Hps].
Qed.

End Placed.

Section PartOfKey.
Variable P K : Type.
Variable keqb : K -> K -> bool.
Hypothesis keqb_eq : forall a b, keqb a b = true <-> a = b.
Variable key : node P -> K.
Variable cut_name : cutedge K -> string.
Variable h : list (node P).

(* the labelling of split_partition, once more, with the keys of rdone *)
Lemma split_part_of_key : forall (g : graph P) r, h = heap g ->
  split_graph_k keqb key cut_name g = Ok r ->
  forall m k x, In (m, (k, x)) (rdone r) ->
  forall k' ss, In (k', ss) (rparts r) -> reachable (rheap r) ss x -> k' = k.
Proof.
  intros g r Hh H. unfold split_graph_k in H. rewrite <- Hh in H.
  destruct (transform (split_visit keqb key cut_name) split_output h (sinks g) (mkS [] [] [] [] [])) as [[[st rs] done]|] eqn:Htr; simpl in H; [|discriminate].
  injection H as <-.
  destruct (transform_inv P _ _ _ _ _ h (PI P K) (split_visit_PI P K keqb keqb_eq key cut_name h) (sinks g) (mkS [] [] [] [] []) st rs done) as [(labs & HL & HD) HF].
  - exists []. split; [|intros m kr []]. split; [reflexivity|]. split; [intros i nd p Hi; destruct i; discriminate|].
    split; [intros k ss x []|constructor].
  - exact Htr.
  - simpl.
    assert (HLf : labelled P K labs (sheap st) (fold_left (fun l kr => add_sink keqb (fst kr) (snd kr) l) rs (ssinks st))).
    { assert (Hrs : forall kr, In kr rs -> nth_error labs (snd kr) = Some (fst kr)).
      { intros kr Hin. destruct (Forall2_ex_l _ _ _ _ _ HF kr Hin) as (s & _ & Hl). apply (HD _ _ (lookupn_In _ _ _ _ Hl)). }
      clear -HL Hrs keqb_eq. revert HL. generalize (ssinks st). induction rs as [|kr rs IH]; intros sl HL; simpl; [assumption|].
      apply IH; [intros kr0 Hin; apply Hrs; now right|]. apply (add_sink_labelled P K keqb keqb_eq); [assumption|apply Hrs; now left]. }
    destruct HLf as (_ & H2 & H3 & H4).
    intros m k x Hd k' ss Hin Hx.
    assert (E : nth_error labs x = Some k') .
    { clear Hd. induction Hx as [s Hs|n nd p _ IH Hn Hp].
      - eapply H3; eassumption.
      - destruct (H2 n nd p Hn Hp) as (k0 & Ha & Hb). congruence. }
    pose proof (HD m (k, x) Hd) as E2. simpl in E2. congruence.
Qed.

End PartOfKey.
