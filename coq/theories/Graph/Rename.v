(* Model of earthkit.workflows.graph.rename._Renamer / rename_nodes (rename.py:20-51).
   n.name = func(n.name); n.inputs = inputs; return n  -- the node object is written in
   place; in the model its new version is appended to the result heap (see Engine.v).
   No proofs in this file. *)
From Coq Require Import List String Bool Arith.
From EKW Require Import Graph.GStore Graph.Engine.
Import ListNotations.
Open Scope string_scope.
Open Scope list_scope.

Section Rename.
Variable P : Type.
Variable func : string -> string.    (* any renaming function, injective or not *)

Definition rename_visit (h' : list (node P)) (n : nat) (nd : node P)
           (inputs : list (string * (nat * string))) : res (list (node P) * nat) :=
  Ok (h' ++ [mkNode (func (nname nd)) (nouts nd) (npay nd) inputs], List.length h').

Definition rename_nodes (g : graph P) : res (graph P) :=
  bind (transform rename_visit out_node (heap g) (sinks g) [])
       (fun x => Ok (mkGraph (fst (fst x)) (snd (fst x)))).

End Rename.
Arguments rename_visit {P}. Arguments rename_nodes {P}.
