(* Model of earthkit.workflows.graph.deduplicate (deduplicate.py:18-90): _cmp_nodes,
   _DedupTransformer.__find_node / .node / .graph, same_payload.
   State = result heap + self.nodes.  self.nodes is a Python set (iteration order is not
   specified); here it is the list of registered nodes in registration order and
   __find_node returns the first match.  The choice only matters when more than one
   registered node matches, which the registration discipline excludes for a predicate that
   is an equivalence (DedupProofs.no_two_equal).  `node.inputs = inputs` writes the visited
   node; its new version is appended to the result heap only if it is kept (a discarded
   duplicate is not part of the result graph).  No proofs in this file. *)
From Coq Require Import List String Bool Arith.
From EKW Require Import Graph.GStore Graph.Engine.
Import ListNotations.
Open Scope string_scope.
Open Scope list_scope.

Fixpoint leqb {A} (eqb : A -> A -> bool) (a b : list A) : bool :=
  match a, b with
  | [], [] => true
  | x :: a', y :: b' => eqb x y && leqb eqb a' b'
  | _, _ => false
  end.

Section Dedup.
Variable P : Type.
(* pred(node, other): any predicate on two Node objects (it sees names, outputs, payloads
   and -- through result-heap indices -- inputs) *)
Variable pred : node P -> node P -> bool.

(* _cmp_nodes(a, b) *)
Definition cmp_nodes (a b : node P) : bool :=
  (* a.outputs != b.outputs *)
  leqb String.eqb (nouts a) (nouts b)
  (* set(a.inputs.keys()) != set(b.inputs.keys()) *)
  && forallb (fun k => smemb k (map fst (nins b))) (map fst (nins a))
  && forallb (fun k => smemb k (map fst (nins a))) (map fst (nins b))
  (* for iname in a.inputs: ai.name != bi.name or ai.parent is not bi.parent *)
  && forallb (fun k => match lookup k (nins a), lookup k (nins b) with
                       | Some (pa, oa), Some (pb, ob) => String.eqb oa ob && Nat.eqb pa pb
                       | _, _ => false
                       end) (map fst (nins a)).

Record dstate := mkD { dheap : list (node P); dreg : list nat }.

(* __find_node(node) *)
Definition find_node (st : dstate) (nd : node P) : option nat :=
  find (fun r => match nth_error (dheap st) r with
                 | Some other => cmp_nodes nd other && pred nd other
                 | None => false
                 end) (dreg st).

(* def node(self, node, /, **inputs) *)
Definition dedup_visit (st : dstate) (n : nat) (nd : node P)
           (inputs : list (string * (nat * string))) : res (dstate * nat) :=
  let nd' := mkNode (nname nd) (nouts nd) (npay nd) inputs in      (* node.inputs = inputs *)
  match find_node st nd' with
  | Some other => Ok (st, other)
  | None => Ok (mkD (dheap st ++ [nd']) (dreg st ++ [List.length (dheap st)]), List.length (dheap st))
  end.

Definition dedup_output (st : dstate) (r : nat) (o : string) : res (nat * string) :=
  out_node (dheap st) r o.

Fixpoint nodup_nat (l : list nat) (seen : list nat) : list nat :=
  match l with
  | [] => []
  | x :: r => if memb x seen then nodup_nat r seen else x :: nodup_nat r (x :: seen)
  end.

(* def graph(self, graph, sinks): ref = find(sink); assert ref is not None; set; list *)
Definition dedup_finish (st : dstate) (rs : list nat) : res (graph P) :=
  bind (map_res (fun r => match nth_error (dheap st) r with
                          | None => Err "model:dangling"
                          | Some nd => match find_node st nd with
                                       | Some ref => Ok ref
                                       | None => Err "AssertionError"
                                       end
                          end) rs)
       (fun refs => Ok (mkGraph (dheap st) (nodup_nat refs []))).

Definition deduplicate_nodes (g : graph P) : res (graph P) :=
  bind (transform dedup_visit dedup_output (heap g) (sinks g) (mkD [] []))
       (fun x => dedup_finish (fst (fst x)) (snd (fst x))).

End Dedup.
Arguments cmp_nodes {P}. Arguments mkD {P}. Arguments dheap {P}. Arguments dreg {P}.
Arguments find_node {P}. Arguments dedup_visit {P}. Arguments dedup_output {P}.
Arguments dedup_finish {P}. Arguments deduplicate_nodes {P}.

(* same_payload(a, b): a.payload == b.payload, for a payload equality test peqb *)
Definition same_payload {P} (peqb : P -> P -> bool) (a b : node P) : bool :=
  match npay a, npay b with
  | None, None => true
  | Some x, Some y => peqb x y
  | _, _ => false
  end.
