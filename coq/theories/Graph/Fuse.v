(* Model of earthkit.workflows.graph.fuse (fuse.py:19-78): _FuseTransformer.transform
   (the consumer counter), .node, .graph, fuse_nodes.
   Objects.  The callback receives Node objects.  The parent it receives is the
   TRANSFORMED parent; the child it receives first is the visited node itself, whose
   inputs still point to the ORIGINAL parent objects (node.inputs is only replaced when
   nothing was fused).  An original parent object is the same object as its transformed
   version when it was not fused, and an untouched, different object when it was.  So the
   state keeps, besides the result heap, `fobj`: input node -> index of "that same Python
   object" in the result heap.  When a node is fused its untouched object is appended too
   (children may still refer to it).
   The node the callback returns is either a NEW object or the object it was handed as
   `current`, written IN PLACE (child.payload = ..., child.inputs = ...; return child): the
   callback's answer carries that bit.  The source does not look at the identity of the
   answer (any_fused is a flag of its own), but identity decides what the children of the
   visited node see later: they still point to the visited OBJECT, which is untouched when
   the fused node is a new object and IS the fused node when it was fused in place.  An
   in-place write is a new version appended to the result heap (Engine.v); `self` is the
   index of the current version of the visited object, `is_self` says whether `result` still
   is that object.
   `fcalls` logs the candidates offered to the callback.  No proofs in this file. *)
From Coq Require Import List String Bool Arith.
From EKW Require Import Graph.GStore Graph.Engine.
Import ListNotations.
Open Scope string_scope.
Open Scope list_scope.

Section Fuse.
Variable P : Type.
(* func(parent, parent_out, current, current_in) -> Node | None ; (true, nd) = the object
   `current` itself, now holding nd; (false, nd) = a new object *)
Variable func : node P -> string -> node P -> string -> option (bool * node P).

Record fstate := mkF {
  fheap : list (node P);
  fobj : list (nat * nat);
  fcount : list (nat * nat);                              (* self.counter on result nodes *)
  fcalls : list (string * string * string * string) }.    (* names: parent, pout, current, cin *)

Definition count_of (r : nat) (c : list (nat * nat)) : nat :=
  match lookupn r c with Some k => k | None => 0 end.      (* Counter: missing -> 0 *)

(* the loop over inputs.items() *)
Fixpoint fuse_inputs (cnt : list (nat * nat)) (h' : list (node P)) (cur : node P)
         (self : nat) (is_self : bool) (any : bool)
         (calls : list (string * string * string * string))
         (inputs : list (string * (nat * string)))
  : res (list (node P) * node P * nat * bool * list (string * string * string * string)) :=
  match inputs with
  | [] => Ok (h', cur, self, any, calls)
  | (iname, (rp, oname)) :: rest =>
      if Nat.ltb 1 (count_of rp cnt) then fuse_inputs cnt h' cur self is_self any calls rest
      else match nth_error h' rp with
           | None => Err "model:dangling"
           | Some pn =>
               let calls' := calls ++ [(nname pn, oname, nname cur, iname)] in
               match func pn oname cur iname with
               | None => fuse_inputs cnt h' cur self is_self any calls' rest
               | Some (inplace, fused) =>
                   (* result = fused: the new version is the last node of the heap *)
                   let is_self' := is_self && inplace in
                   fuse_inputs cnt (h' ++ [fused]) fused
                               (if is_self' then List.length h' else self) is_self' true calls' rest
               end
           end
  end.

Definition obj_of (fo : list (nat * nat)) (p : nat) : nat :=
  match lookupn p fo with Some r => r | None => 0 end.

Variable orig_count : nat -> nat.     (* Counter computed by transform() on the input graph *)

Definition fuse_visit (st : fstate) (n : nat) (nd : node P)
           (inputs : list (string * (nat * string))) : res (fstate * nat) :=
  (* the visited object as it is now: inputs point to the original parent objects *)
  let cur0 := mkNode (nname nd) (nouts nd) (npay nd)
                     (map (fun x => (fst x, (obj_of (fobj st) (fst (snd x)), snd (snd x)))) (nins nd)) in
  let h0 := fheap st ++ [cur0] in
  bind (fuse_inputs (fcount st) h0 cur0 (List.length (fheap st)) true false (fcalls st) inputs) (fun x =>
  let '(h1, cur, self, any, calls) := x in
  if any then
    (* self.counter[result] = self.counter[node]; node.inputs is NOT replaced: the visited
       object stays as the callback left it *)
    let r := List.length h1 - 1 in
    Ok (mkF h1 ((n, self) :: fobj st) ((r, orig_count n) :: fcount st) calls, r)
  else
    (* result.inputs = inputs : the visited object itself is written *)
    let r := List.length (fheap st) in
    Ok (mkF (fheap st ++ [mkNode (nname nd) (nouts nd) (npay nd) inputs])
            ((n, r) :: fobj st) ((r, orig_count n) :: fcount st) calls, r)).

Definition fuse_output (st : fstate) (r : nat) (o : string) : res (nat * string) :=
  out_node (fheap st) r o.

End Fuse.
Arguments mkF {P}. Arguments fheap {P}. Arguments fobj {P}. Arguments fcount {P}. Arguments fcalls {P}.
Arguments fuse_inputs {P}. Arguments fuse_visit {P}. Arguments fuse_output {P}.

Definition count_occ_nat (p : nat) (l : list nat) : nat := List.length (filter (Nat.eqb p) l).

(* Counter(isrc.parent for node in graph.nodes() for isrc in node.inputs.values()) *)
Definition consumer_count {P} (g : graph P) : res (nat -> nat) :=
  bind (nodes g) (fun ns =>
  let ps := flat_map (fun x => parents (snd x)) ns in
  Ok (fun p => count_occ_nat p ps)).

Definition fuse_nodes {P} (func : node P -> string -> node P -> string -> option (bool * node P))
           (g : graph P) : res (graph P * list (string * string * string * string)) :=
  bind (consumer_count g) (fun oc =>
  bind (transform (fuse_visit func oc) fuse_output (heap g) (sinks g) (mkF [] [] [] []))
       (fun x => Ok (mkGraph (fheap (fst (fst x))) (snd (fst x)), fcalls (fst (fst x))))).
