(* fuse_nodes preserves what every sink denotes, for any callback that keeps its contract:
   the node it returns -- a new object, or the child object written in place -- denotes the
   child (with the parent inlined) and keeps the child's other inputs. *)
From Coq Require Import List String Bool Arith Lia.
From EKW Require Import Graph.GStore Graph.Denote Graph.Engine Graph.EngineProofs Graph.DedupProofs Graph.Fuse.
Import ListNotations.
Open Scope string_scope.
Open Scope list_scope.

Lemma topo_prefix : forall P (a b : list (node P)), topo (a ++ b) -> topo a.
Proof.
  intros P a b H n nd Hn p Hp. apply (H n nd); [|assumption].
  rewrite nth_error_app1; [assumption|]. apply nth_error_Some. congruence.
Qed.

Lemma topo_last : forall P (a : list (node P)) nd, topo (a ++ [nd]) ->
  Forall (fun x => fst (snd x) < List.length a) (nins nd).
Proof.
  intros P a nd H. apply Forall_forall. intros x Hx.
  apply (H (List.length a) nd).
  - rewrite nth_error_app2 by lia. now rewrite Nat.sub_diag.
  - unfold parents. apply in_map_iff. now exists x.
Qed.

Lemma lookup_nodup_in : forall A k (v : A) l, NoDup (map fst l) -> In (k, v) l -> lookup k l = Some v.
Proof.
  induction l as [|[k' v'] l IH]; simpl; intros ND Hin; [contradiction|].
  inversion ND as [|? ? Hk ND']; subst.
  destruct Hin as [Heq|Hin].
  - injection Heq as -> ->. now rewrite String.eqb_refl.
  - destruct (String.eqb k k') eqn:E; [|now apply IH].
    apply String.eqb_eq in E. subst. exfalso. apply Hk. apply in_map_iff. now exists (k', v).
Qed.

Section FuseP.
Variable P V : Type.
Variable interp : option P -> list string -> list (string * V) -> string -> V.
Notation sem := (sem interp).
Variable func : node P -> string -> node P -> string -> option (bool * node P).
Variable orig_count : nat -> nat.
Variable h : list (node P).
Hypothesis Ht : topo h.
(* node.inputs is a dict *)
Hypothesis Hkeys : forall n nd, nth_error h n = Some nd -> NoDup (map fst (nins nd)).

(* contract of the fusion callback, in any acyclic heap H holding the parent at rp and the
   nodes the child `cur` refers to: the returned node refers to nodes of H only, keeps the
   child's inputs other than cin, and -- if the child's input cin is connected to
   something that denotes what output pout of the parent denotes -- denotes what the child
   denotes *)
Hypothesis func_contract : forall (H : list (node P)) rp pn pout cur cin ip fused,
  topo H -> nth_error H rp = Some pn ->
  Forall (fun x => fst (snd x) < List.length H) (nins cur) ->
  func pn pout cur cin = Some (ip, fused) ->
  Forall (fun x => fst (snd x) < List.length H) (nins fused) /\
  (forall k, k <> cin -> lookup k (nins fused) = lookup k (nins cur)) /\
  (forall q, lookup cin (nins cur) = Some (q, pout) -> (forall o, sem H q o = sem H rp o) ->
     forall o, sem (H ++ [fused]) (List.length H) o = sem (H ++ [cur]) (List.length H) o).

Lemma sem_last_skip : forall (Hp ext : list (node P)) nd' o,
  Forall (fun x => fst (snd x) < List.length Hp) (nins nd') ->
  sem ((Hp ++ ext) ++ [nd']) (List.length (Hp ++ ext)) o = sem (Hp ++ [nd']) (List.length Hp) o.
Proof.
  intros Hp ext nd' o HF. rewrite !sem_new. f_equal. apply map_ext_in. intros x Hx.
  rewrite Forall_forall in HF. now rewrite sem_old by (apply HF; assumption).
Qed.

Lemma fuse_inputs_spec : forall cnt (X : string -> V) inputs Hp cur self is_self any calls H1 cur1 self1 any1 calls1,
  topo (Hp ++ [cur]) ->
  (forall o, sem (Hp ++ [cur]) (List.length Hp) o = X o) ->
  (self < List.length (Hp ++ [cur]) /\ forall o, sem (Hp ++ [cur]) self o = X o) ->
  NoDup (map fst inputs) ->
  Forall (fun x => fst (snd x) < List.length Hp /\
                   exists q, lookup (fst x) (nins cur) = Some (q, snd (snd x)) /\ q < List.length Hp /\
                             forall o, sem Hp q o = sem Hp (fst (snd x)) o) inputs ->
  fuse_inputs func cnt (Hp ++ [cur]) cur self is_self any calls inputs = Ok (H1, cur1, self1, any1, calls1) ->
  (exists ext, H1 = (Hp ++ [cur]) ++ ext) /\
  (exists Hp1, H1 = Hp1 ++ [cur1] /\ forall o, sem H1 (List.length Hp1) o = X o) /\
  topo H1 /\
  (self1 < List.length H1 /\ forall o, sem H1 self1 o = X o) /\
  (any1 = false -> any = false /\ H1 = Hp ++ [cur] /\ cur1 = cur).
Proof.
  intros cnt X inputs. induction inputs as [|[iname [rp oname]] rest IH];
    intros Hp cur self is_self any calls H1 cur1 self1 any1 calls1 HT HX HS ND HF H; simpl in H.
  - injection H as <- <- <- <- <-. split; [exists []; now rewrite app_nil_r|].
    split; [exists Hp; split; [reflexivity|assumption]|]. split; [assumption|]. split; [assumption|]. auto.
  - inversion ND as [|? ? Hni ND']; subst. inversion HF as [|? ? Hhead HF']; subst.
    destruct (Nat.ltb 1 (count_of rp cnt)); [eapply IH; eassumption|].
    destruct (nth_error (Hp ++ [cur]) rp) as [pn|] eqn:Hrp; [|discriminate].
    destruct (func pn oname cur iname) as [[ip fused]|] eqn:Hfu; [|eapply IH; eassumption].
    simpl in Hhead. destruct Hhead as (Hrpl & q & Hq & Hql & Hqs).
    rewrite nth_error_app1 in Hrp by assumption.
    destruct (func_contract Hp rp pn oname cur iname ip fused (topo_prefix _ _ _ HT) Hrp (topo_last _ _ _ HT) Hfu)
      as (Hfi & Hfk & Hfs).
    assert (HT2 : topo ((Hp ++ [cur]) ++ [fused])).
    { apply topo_snoc; [assumption|]. eapply Forall_impl; [|exact Hfi]. intros a Ha. rewrite app_length. simpl in *. lia. }
    assert (HX2 : forall o, sem ((Hp ++ [cur]) ++ [fused]) (List.length (Hp ++ [cur])) o = X o).
    { intros o. rewrite sem_last_skip by assumption. rewrite (Hfs q Hq Hqs). apply HX. }
    assert (HS2 : (if is_self && ip then List.length (Hp ++ [cur]) else self) < List.length ((Hp ++ [cur]) ++ [fused]) /\
                  forall o, sem ((Hp ++ [cur]) ++ [fused]) (if is_self && ip then List.length (Hp ++ [cur]) else self) o = X o).
    { destruct (is_self && ip).
      - split; [rewrite (app_length (Hp ++ [cur])); simpl; lia|exact HX2].
      - destruct HS as [HSl HSs]. split; [rewrite (app_length (Hp ++ [cur])); simpl; lia|].
        intros o. rewrite sem_old by assumption. apply HSs. }
    assert (HF2 : Forall (fun x => fst (snd x) < List.length (Hp ++ [cur]) /\
                   exists q, lookup (fst x) (nins fused) = Some (q, snd (snd x)) /\ q < List.length (Hp ++ [cur]) /\
                             forall o, sem (Hp ++ [cur]) q o = sem (Hp ++ [cur]) (fst (snd x)) o) rest).
    { apply Forall_forall. intros x Hx. rewrite Forall_forall in HF'. destruct (HF' x Hx) as (H1' & q' & H2' & H3' & H4').
      rewrite app_length. simpl. split; [lia|]. exists q'. split.
      - rewrite Hfk; [assumption|]. intros Heq. apply Hni. rewrite <- Heq. apply in_map_iff. now exists x.
      - split; [lia|]. intros o. rewrite !sem_old by assumption. apply H4'. }
    destruct (IH _ _ _ _ _ _ _ _ _ _ _ HT2 HX2 HS2 ND' HF2 H) as ((ext & He) & Hb & Hc & Hs & Hd).
    split; [exists ([fused] ++ ext); rewrite He, <- !app_assoc; reflexivity|].
    split; [assumption|]. split; [assumption|]. split; [assumption|].
    intros Ha. destruct (Hd Ha) as [Hfalse _]. discriminate.
Qed.

Definition FI (done : list (nat * nat)) (st : fstate P) : Prop :=
  topo (fheap st) /\ reps P V interp h (fheap st) done /\ reps P V interp h (fheap st) (fobj st) /\
  (forall m r, In (m, r) done -> exists r', lookupn m (fobj st) = Some r').

Lemma fuse_visit_inv : forall done st n nd inputs st' r,
  FI done st -> nth_error h n = Some nd -> lookupn n done = None ->
  gather fuse_output st done (nins nd) = Ok (Ready inputs) ->
  fuse_visit func orig_count st n nd inputs = Ok (st', r) -> FI ((n, r) :: done) st'.
Proof.
  intros done st n nd inputs st' r (HT & HR & HO & HD) Hn _ Hg Hv.
  apply gather_spec in Hg. unfold fuse_output in Hg. unfold fuse_visit in Hv.
  set (G := fun y : nat * string => (obj_of (fobj st) (fst y), snd y)).
  set (cur0 := mkNode (nname nd) (nouts nd) (npay nd)
                      (map (fun x => (fst x, (obj_of (fobj st) (fst (snd x)), snd (snd x)))) (nins nd))) in *.
  (* every parent is done, hence has an object *)
  assert (Hpar : forall i, In i (nins nd) -> exists rp ro, lookupn (fst (snd i)) done = Some rp /\
                    lookupn (fst (snd i)) (fobj st) = Some ro).
  { intros i Hi. destruct (Forall2_ex_r _ _ _ _ _ Hg i Hi) as (x & _ & _ & rp & Hl & _).
    destruct (HD _ _ (lookupn_In _ _ _ _ Hl)) as (ro & Hro). eauto. }
  assert (Hobj : forall i, In i (nins nd) -> obj_of (fobj st) (fst (snd i)) < List.length (fheap st) /\
                    forall o, sem (fheap st) (obj_of (fobj st) (fst (snd i))) o = sem h (fst (snd i)) o).
  { intros i Hi. destruct (Hpar i Hi) as (rp & ro & _ & Hro). unfold obj_of. rewrite Hro.
    apply (HO _ _ (lookupn_In _ _ _ _ Hro)). }
  assert (HT0 : topo (fheap st ++ [cur0])).
  { apply topo_snoc; [assumption|]. simpl. apply Forall_forall. intros x Hx. apply in_map_iff in Hx.
    destruct Hx as (i & <- & Hi). simpl. apply (Hobj i Hi). }
  assert (HX0 : forall o, sem (fheap st ++ [cur0]) (List.length (fheap st)) o = sem h n o).
  { intros o. apply (new_node_sem P V interp h (fheap st) n nd cur0 Ht Hn eq_refl eq_refl). simpl.
    clear -Hobj. induction (nins nd) as [|i l IH]; simpl; constructor.
    - simpl. split; [reflexivity|]. apply (Hobj i). now left.
    - apply IH. intros j Hj. apply Hobj. now right. }
  assert (Hfst : map fst inputs = map fst (nins nd)).
  { clear -Hg. induction Hg as [|i x li lx (Hf & _) _ IH]; simpl; [reflexivity|]. now rewrite Hf, IH. }
  assert (HFi : Forall (fun x => fst (snd x) < List.length (fheap st) /\
                   exists q, lookup (fst x) (nins cur0) = Some (q, snd (snd x)) /\ q < List.length (fheap st) /\
                             forall o, sem (fheap st) q o = sem (fheap st) (fst (snd x)) o) inputs).
  { apply Forall_forall. intros x Hx.
    destruct (Forall2_ex_l _ _ _ _ _ Hg x Hx) as (i & Hi & Hf & rp & Hl & Ho).
    apply out_node_ok in Ho. destruct Ho as (Hxe & Hlt & _).
    destruct (HR _ _ (lookupn_In _ _ _ _ Hl)) as [_ Hrs].
    rewrite Hxe. simpl. split; [assumption|].
    exists (obj_of (fobj st) (fst (snd i))). split.
    - unfold cur0. simpl.
      change (map (fun x0 => (fst x0, (obj_of (fobj st) (fst (snd x0)), snd (snd x0)))) (nins nd))
        with (map (fun x0 => (fst x0, G (snd x0))) (nins nd)).
      rewrite (lookup_map_snd _ _ G (fst x) (nins nd)).
      rewrite Hf. destruct i as [ik [ip io]]. simpl.
      rewrite (lookup_nodup_in _ ik (ip, io) (nins nd) (Hkeys n nd Hn) Hi). reflexivity.
    - destruct (Hobj i Hi) as [Hol Hos]. split; [assumption|]. intros o. rewrite Hos, Hrs. reflexivity. }
  destruct (fuse_inputs func (fcount st) (fheap st ++ [cur0]) cur0 (List.length (fheap st)) true false (fcalls st) inputs) as [[[[[H1 cur1] self1] any1] calls1]|] eqn:Hfi; simpl in Hv; [|discriminate].
  assert (HS0 : List.length (fheap st) < List.length (fheap st ++ [cur0]) /\
                forall o, sem (fheap st ++ [cur0]) (List.length (fheap st)) o = sem h n o).
  { split; [rewrite app_length; simpl; lia|exact HX0]. }
  destruct (fuse_inputs_spec _ (sem h n) _ _ _ _ _ _ _ _ _ _ _ _ HT0 HX0 HS0 (eq_ind_r (fun l => NoDup l) (Hkeys n nd Hn) Hfst) HFi Hfi)
    as ((ext & He) & (Hp1 & Hh1 & Hs1) & HT1 & (Hsl & Hss) & Hnf).
  destruct any1.
  - injection Hv as <- <-. unfold FI. simpl.
    assert (Hlen : List.length H1 - 1 = List.length Hp1) by (rewrite Hh1, app_length; simpl; lia).
    assert (Hext : H1 = fheap st ++ ([cur0] ++ ext)) by (rewrite He, <- app_assoc; reflexivity).
    split; [assumption|]. split; [|split].
    + intros m r' [Heq|Hin].
      * injection Heq as <- <-. rewrite Hlen. split; [rewrite Hh1, app_length; simpl; lia|]. exact Hs1.
      * rewrite Hext. apply (reps_app P V interp h (fheap st) _ done HR); assumption.
    + intros m r' [Heq|Hin].
      * injection Heq as <- <-. split; [exact Hsl|exact Hss].
      * rewrite Hext. apply (reps_app P V interp h (fheap st) _ (fobj st) HO); assumption.
    + intros m r' [Heq|Hin].
      * injection Heq as <- <-. simpl. rewrite Nat.eqb_refl. eauto.
      * simpl. destruct (Nat.eqb m n); [eauto|]. eapply HD; eassumption.
  - injection Hv as <- <-. unfold FI. simpl.
    assert (Hnew : forall o, sem (fheap st ++ [mkNode (nname nd) (nouts nd) (npay nd) inputs]) (List.length (fheap st)) o = sem h n o).
    { intros o. apply (new_node_sem P V interp h (fheap st) n nd); try assumption; try reflexivity.
      simpl. exact (gathered_sem P V interp h (fheap st) done _ _ HR Hg). }
    split; [apply topo_snoc; [assumption|]; simpl; exact (gathered_lt P (fheap st) done _ _ Hg)|].
    split; [|split].
    + intros m r' [Heq|Hin].
      * injection Heq as <- <-. split; [rewrite app_length; simpl; lia|]. exact Hnew.
      * apply (reps_app P V interp h (fheap st) _ done HR); assumption.
    + intros m r' [Heq|Hin].
      * injection Heq as <- <-. split; [rewrite app_length; simpl; lia|]. exact Hnew.
      * apply (reps_app P V interp h (fheap st) _ (fobj st) HO); assumption.
    + intros m r' [Heq|Hin].
      * injection Heq as <- <-. simpl. rewrite Nat.eqb_refl. eauto.
      * simpl. destruct (Nat.eqb m n); [eauto|]. eapply HD; eassumption.
Qed.

End FuseP.

Lemma fuse_preserves_sem :
  forall (P V : Type) (interp : option P -> list string -> list (string * V) -> string -> V)
         (func : node P -> string -> node P -> string -> option (bool * node P)) (g g' : graph P) calls,
  topo (heap g) ->
  (forall n nd, nth_error (heap g) n = Some nd -> NoDup (map fst (nins nd))) ->
  (forall (H : list (node P)) rp pn pout cur cin ip fused,
     topo H -> nth_error H rp = Some pn ->
     Forall (fun x => fst (snd x) < List.length H) (nins cur) ->
     func pn pout cur cin = Some (ip, fused) ->
     Forall (fun x => fst (snd x) < List.length H) (nins fused) /\
     (forall k, k <> cin -> lookup k (nins fused) = lookup k (nins cur)) /\
     (forall q, lookup cin (nins cur) = Some (q, pout) -> (forall o, sem interp H q o = sem interp H rp o) ->
        forall o, sem interp (H ++ [fused]) (List.length H) o = sem interp (H ++ [cur]) (List.length H) o)) ->
  fuse_nodes func g = Ok (g', calls) ->
  Forall2 (fun s s' => forall o, sem interp (heap g') s' o = sem interp (heap g) s o) (sinks g) (sinks g').
Proof.
  intros P V interp func g g' calls Ht Hk Hc H. unfold fuse_nodes in H.
  destruct (consumer_count g) as [oc|]; simpl in H; [|discriminate].
  destruct (transform (fuse_visit func oc) fuse_output (heap g) (sinks g) (mkF [] [] [] [])) as [[[st rs] done]|] eqn:Htr; simpl in H; [|discriminate].
  injection H as <- _. simpl.
  destruct (transform_inv P _ _ _ _ _ (heap g) (FI P V interp (heap g))
              (fuse_visit_inv P V interp func oc (heap g) Ht Hk Hc) (sinks g) (mkF [] [] [] []) st rs done) as [(HT & HR & _) HF].
  - split; [apply topo_nil|]. split; [intros m r []|]. split; intros m r [].
  - exact Htr.
  - clear Htr. induction HF as [|s r ls lr Hl _ IH]; constructor; [|exact IH].
    intros o. apply (HR _ _ (lookupn_In _ _ _ _ Hl)).
Qed.
