(* Graph objects over time (Graph/GraphOps.v): which graphs an operation can change.
   - every operation but `a += b` leaves the sinks of every existing graph as they are;
   - `a += b` changes exactly the graphs that hold the list object a holds;
   - every operation but Graph(a.sinks) gives its result a list object no other graph holds,
     so in a program that never hands a graph's own list to the constructor no two graphs
     share a list: `a += b` changes a and nothing else, and a graph returned by empty(), +,
     join_namespaced or a transformer is never changed by what is done to other graphs.
   - join_namespaced at node level: every renamed sink denotes what the sink denoted. *)
From Coq Require Import List String Bool Arith Lia.
From EKW Require Import Graph.GStore Graph.Denote Graph.Engine Graph.Rename Graph.CopyProofs Graph.GraphOps.
Import ListNotations.
Open Scope string_scope.
Open Scope list_scope.

Definition gwf (st : gstate) : Prop := Forall (fun i => i < List.length (glists st)) (gvars st).

(* v and a hold the same list object *)
Definition aliases (st : gstate) (v a : nat) : Prop := exists i, lid st v = Ok i /\ lid st a = Ok i.

Lemma nth_error_set_nth_eq : forall A (l : list A) n x, n < List.length l -> nth_error (set_nth n x l) n = Some x.
Proof.
  induction l as [|y l IH]; intros n x Hn; simpl in Hn; [lia|].
  destruct n; simpl; [reflexivity|]. apply IH. lia.
Qed.

Lemma nth_error_set_nth_neq : forall A (l : list A) n m x, n <> m -> nth_error (set_nth n x l) m = nth_error l m.
Proof.
  induction l as [|y l IH]; intros n m x Hn; simpl; [reflexivity|].
  destruct n; destruct m; simpl; try reflexivity; [lia|]. apply IH. lia.
Qed.

Lemma set_nth_length : forall A (l : list A) n x, List.length (set_nth n x l) = List.length l.
Proof. induction l as [|y l IH]; intros n x; simpl; [reflexivity|]. destruct n; simpl; [reflexivity|]. now rewrite IH. Qed.

Lemma lid_Ok : forall st v i, lid st v = Ok i <-> nth_error (gvars st) v = Some i.
Proof.
  intros st v i. unfold lid. destruct (nth_error (gvars st) v) as [j|]; split; intros H; try discriminate; congruence.
Qed.

Lemma sinks_of_Ok : forall st v l, sinks_of st v = Ok l <->
  exists i, nth_error (gvars st) v = Some i /\ nth_error (glists st) i = Some l.
Proof.
  intros st v l. unfold sinks_of, lid. destruct (nth_error (gvars st) v) as [i|]; simpl.
  - destruct (nth_error (glists st) i) as [l'|] eqn:E; split.
    + intros H. injection H as <-. eauto.
    + intros (j & Hj & Hl). injection Hj as <-. congruence.
    + discriminate.
    + intros (j & Hj & Hl). injection Hj as <-. congruence.
  - split; [discriminate|]. intros (j & Hj & _). discriminate.
Qed.

Lemma gwf_alloc : forall st l, gwf st -> gwf (alloc st l).
Proof.
  intros st l H. unfold gwf, alloc in *. simpl. rewrite app_length. simpl. apply Forall_app. split.
  - eapply Forall_impl; [|exact H]. simpl. intros; lia.
  - constructor; [lia|constructor].
Qed.

Lemma sinks_of_alloc_old : forall st l v lv, gwf st -> sinks_of st v = Ok lv -> sinks_of (alloc st l) v = Ok lv.
Proof.
  intros st l v lv Hw H. apply sinks_of_Ok in H. destruct H as (i & Hv & Hl). apply sinks_of_Ok. exists i.
  unfold alloc. simpl. split.
  - rewrite nth_error_app1; [assumption|]. apply nth_error_Some. congruence.
  - rewrite nth_error_app1; [assumption|]. apply nth_error_Some. congruence.
Qed.

Lemma sinks_of_alloc_new : forall st l, sinks_of (alloc st l) (List.length (gvars st)) = Ok l.
Proof.
  intros st l. apply sinks_of_Ok. exists (List.length (glists st)). unfold alloc. simpl.
  split; (rewrite nth_error_app2 by lia; rewrite Nat.sub_diag; reflexivity).
Qed.

(* 1. well-formedness is kept *)
Lemma gstep_wf : forall st op st', gwf st -> gstep st op = Ok st' -> gwf st'.
Proof.
  intros st op st' Hw H. destruct op as [l| |a|a b|a b|parts|a pos l]; simpl in H.
  - injection H as <-. now apply gwf_alloc.
  - injection H as <-. now apply gwf_alloc.
  - destruct (lid st a) as [i|] eqn:Hi; simpl in H; [|discriminate]. injection H as <-.
    unfold gwf in *. simpl. apply Forall_app. split; [assumption|]. constructor; [|constructor].
    apply lid_Ok in Hi. rewrite Forall_forall in Hw. apply Hw. eapply nth_error_In; eassumption.
  - destruct (sinks_of st a); simpl in H; [|discriminate]. destruct (sinks_of st b); simpl in H; [|discriminate].
    injection H as <-. now apply gwf_alloc.
  - destruct (lid st a) as [i|]; simpl in H; [|discriminate].
    destruct (sinks_of st a); simpl in H; [|discriminate]. destruct (sinks_of st b); simpl in H; [|discriminate].
    injection H as <-. unfold gwf in *. simpl. now rewrite set_nth_length.
  - destruct parts as [|p parts]; [discriminate|].
    destruct (join_parts st (p :: parts)); simpl in H; [|discriminate]. injection H as <-. now apply gwf_alloc.
  - destruct (sinks_of st a) as [la|]; simpl in H; [|discriminate].
    destruct (negb pos || Nat.eqb (List.length l) (List.length la)); [|discriminate]. injection H as <-. now apply gwf_alloc.
Qed.

(* 2. an existing graph keeps its sinks, unless the operation is `a += b` and the graph holds a's list *)
Theorem gstep_old : forall st op st' v lv, gwf st -> gstep st op = Ok st' -> sinks_of st v = Ok lv ->
  (forall a b, op = GIAdd a b -> ~ aliases st v a) -> sinks_of st' v = Ok lv.
Proof.
  intros st op st' v lv Hw H Hv Hna. destruct op as [l| |a|a b|a b|parts|a pos l]; simpl in H.
  - injection H as <-. now apply sinks_of_alloc_old.
  - injection H as <-. now apply sinks_of_alloc_old.
  - destruct (lid st a) as [i|] eqn:Hi; simpl in H; [|discriminate]. injection H as <-.
    apply sinks_of_Ok in Hv. destruct Hv as (j & Hj & Hl). apply sinks_of_Ok. exists j. simpl. split; [|assumption].
    rewrite nth_error_app1; [assumption|]. apply nth_error_Some. congruence.
  - destruct (sinks_of st a); simpl in H; [|discriminate]. destruct (sinks_of st b); simpl in H; [|discriminate].
    injection H as <-. now apply sinks_of_alloc_old.
  - destruct (lid st a) as [i|] eqn:Hi; simpl in H; [|discriminate].
    destruct (sinks_of st a); simpl in H; [|discriminate]. destruct (sinks_of st b); simpl in H; [|discriminate].
    injection H as <-. apply sinks_of_Ok in Hv. destruct Hv as (j & Hj & Hl). apply sinks_of_Ok. exists j. simpl.
    split; [assumption|]. rewrite nth_error_set_nth_neq; [assumption|].
    intros Heq. subst j. apply (Hna a b eq_refl). exists i. split; [now apply lid_Ok|assumption].
  - destruct parts as [|p parts]; [discriminate|].
    destruct (join_parts st (p :: parts)); simpl in H; [|discriminate]. injection H as <-. now apply sinks_of_alloc_old.
  - destruct (sinks_of st a) as [la|]; simpl in H; [|discriminate].
    destruct (negb pos || Nat.eqb (List.length l) (List.length la)); [|discriminate]. injection H as <-. now apply sinks_of_alloc_old.
Qed.

(* 3. `a += b`: every graph holding a's list now has the sinks of a followed by those of b *)
Theorem gstep_iadd : forall st a b st' v la lb, gwf st -> gstep st (GIAdd a b) = Ok st' ->
  aliases st v a -> sinks_of st a = Ok la -> sinks_of st b = Ok lb -> sinks_of st' v = Ok (la ++ lb).
Proof.
  intros st a b st' v la lb Hw H (i & Hvi & Hai) Ha Hb. simpl in H. rewrite Hai, Ha, Hb in H. simpl in H. injection H as <-.
  apply sinks_of_Ok. exists i. simpl. split; [now apply lid_Ok|].
  apply nth_error_set_nth_eq. apply lid_Ok in Hai. unfold gwf in Hw. rewrite Forall_forall in Hw. apply Hw.
  eapply nth_error_In; eassumption.
Qed.

(* 4. what the graph an operation returns holds *)
Definition creates (op : gop) : bool := match op with GIAdd _ _ => false | _ => true end.

Fixpoint concat_parts (parts : list (nat * list nat)) : list nat :=
  match parts with [] => [] | (_, l) :: r => l ++ concat_parts r end.

Lemma join_parts_concat : forall st parts l, join_parts st parts = Ok l ->
  l = concat_parts parts /\
  Forall (fun p => exists la, sinks_of st (fst p) = Ok la /\ List.length (snd p) = List.length la) parts.
Proof.
  intros st parts. induction parts as [|[a la'] r IH]; intros l H; simpl in H.
  - injection H as <-. split; [reflexivity|constructor].
  - destruct (sinks_of st a) as [la|] eqn:Ea; simpl in H; [|discriminate].
    destruct (Nat.eqb (List.length la') (List.length la)) eqn:El; [|discriminate].
    destruct (join_parts st r) as [rest|]; simpl in H; [|discriminate]. injection H as <-.
    destruct (IH rest eq_refl) as [-> HF]. split; [reflexivity|]. constructor; [|assumption].
    simpl. exists la. split; [exact Ea|]. now apply Nat.eqb_eq.
Qed.

Theorem gstep_new : forall st op st', gstep st op = Ok st' -> creates op = true ->
  List.length (gvars st') = S (List.length (gvars st)) /\
  match op with
  | GNew l => sinks_of st' (List.length (gvars st)) = Ok l
  | GEmpty => sinks_of st' (List.length (gvars st)) = Ok []
  | GWrap a => lid st' (List.length (gvars st)) = lid st a
  | GAdd a b => exists la lb, sinks_of st a = Ok la /\ sinks_of st b = Ok lb /\
                              sinks_of st' (List.length (gvars st)) = Ok (la ++ lb)
  | GJoin parts => sinks_of st' (List.length (gvars st)) = Ok (concat_parts parts) /\
                   Forall (fun p => exists la, sinks_of st (fst p) = Ok la /\ List.length (snd p) = List.length la) parts
  | GTrans a pos l => sinks_of st' (List.length (gvars st)) = Ok l /\
                      exists la, sinks_of st a = Ok la /\ (pos = true -> List.length l = List.length la)
  | GIAdd _ _ => True
  end.
Proof.
  intros st op st' H Hc. destruct op as [l| |a|a b|a b|parts|a pos l]; simpl in H; try discriminate Hc.
  - injection H as <-. split; [unfold alloc; simpl; rewrite app_length; simpl; lia|apply sinks_of_alloc_new].
  - injection H as <-. split; [unfold alloc; simpl; rewrite app_length; simpl; lia|apply sinks_of_alloc_new].
  - destruct (lid st a) as [i|] eqn:Hi; simpl in H; [|discriminate]. injection H as <-. simpl.
    split; [rewrite app_length; simpl; lia|]. unfold lid at 1. simpl.
    rewrite nth_error_app2 by lia. rewrite Nat.sub_diag. reflexivity.
  - destruct (sinks_of st a) as [la|]; simpl in H; [|discriminate]. destruct (sinks_of st b) as [lb|]; simpl in H; [|discriminate].
    injection H as <-. split; [unfold alloc; simpl; rewrite app_length; simpl; lia|].
    exists la, lb. split; [reflexivity|]. split; [reflexivity|apply sinks_of_alloc_new].
  - destruct parts as [|p parts]; [discriminate|].
    destruct (join_parts st (p :: parts)) as [l|] eqn:Ej; simpl in H; [|discriminate]. injection H as <-.
    destruct (join_parts_concat _ _ _ Ej) as [-> HF].
    split; [unfold alloc; simpl; rewrite app_length; simpl; lia|]. split; [apply sinks_of_alloc_new|assumption].
  - destruct (sinks_of st a) as [la|]; simpl in H; [|discriminate].
    destruct (negb pos || Nat.eqb (List.length l) (List.length la)) eqn:E; [|discriminate]. injection H as <-.
    split; [unfold alloc; simpl; rewrite app_length; simpl; lia|]. split; [apply sinks_of_alloc_new|].
    exists la. split; [reflexivity|]. intros ->. simpl in E. now apply Nat.eqb_eq.
Qed.

Lemma NoDup_app_snoc : forall A (l : list A) x, NoDup l -> ~ In x l -> NoDup (l ++ [x]).
Proof.
  induction l as [|y l IH]; intros x Hn Hx; simpl.
  - constructor; [intros []|constructor].
  - inversion Hn as [|? ? Hy Hn']; subst. constructor.
    + intros Hin. apply in_app_or in Hin. destruct Hin as [Hin|[Heq|[]]]; [now apply Hy|].
      subst. apply Hx. now left.
    + apply IH; [assumption|]. intros Hin. apply Hx. now right.
Qed.

(* 5. no two graphs share a list, as long as no graph's own list is handed to the constructor *)
Lemma gstep_nodup : forall st op st', gwf st -> NoDup (gvars st) -> wrap_free op = true ->
  gstep st op = Ok st' -> NoDup (gvars st').
Proof.
  assert (Hal : forall st l, gwf st -> NoDup (gvars st) -> NoDup (gvars (alloc st l))).
  { intros st l Hw Hn. unfold alloc. simpl. apply NoDup_app_snoc; [assumption|].
    intros Hin. unfold gwf in Hw. rewrite Forall_forall in Hw. specialize (Hw _ Hin). lia. }
  intros st op st' Hw Hn Hf H. destruct op as [l| |a|a b|a b|parts|a pos l]; simpl in H; try discriminate Hf.
  - injection H as <-. now apply Hal.
  - injection H as <-. now apply Hal.
  - destruct (sinks_of st a); simpl in H; [|discriminate]. destruct (sinks_of st b); simpl in H; [|discriminate].
    injection H as <-. now apply Hal.
  - destruct (lid st a); simpl in H; [|discriminate].
    destruct (sinks_of st a); simpl in H; [|discriminate]. destruct (sinks_of st b); simpl in H; [|discriminate].
    injection H as <-. assumption.
  - destruct parts as [|p parts]; [discriminate|].
    destruct (join_parts st (p :: parts)); simpl in H; [|discriminate]. injection H as <-. now apply Hal.
  - destruct (sinks_of st a) as [la|]; simpl in H; [|discriminate].
    destruct (negb pos || Nat.eqb (List.length l) (List.length la)); [|discriminate]. injection H as <-. now apply Hal.
Qed.

Lemma grun_inv : forall ops st st', gwf st -> NoDup (gvars st) -> forallb wrap_free ops = true ->
  grun st ops = Ok st' -> gwf st' /\ NoDup (gvars st').
Proof.
  induction ops as [|op r IH]; intros st st' Hw Hn Hf H; simpl in H.
  - injection H as <-. split; assumption.
  - simpl in Hf. apply andb_true_iff in Hf. destruct Hf as [Hf1 Hf2].
    destruct (gstep st op) as [st1|] eqn:E; simpl in H; [|discriminate].
    apply (IH st1 st' (gstep_wf _ _ _ Hw E) (gstep_nodup _ _ _ Hw Hn Hf1 E) Hf2 H).
Qed.

Lemma aliases_nodup : forall st v a, NoDup (gvars st) -> aliases st v a -> v = a.
Proof.
  intros st v a Hn (i & Hv & Ha). apply lid_Ok in Hv. apply lid_Ok in Ha.
  apply (proj1 (NoDup_nth_error (gvars st)) Hn v a); [|congruence].
  apply nth_error_Some. congruence.
Qed.

(* the frame property of a whole program: after any wrap-free history, one more operation
   changes no existing graph -- except `a += b`, which changes a (to a's sinks followed by
   b's) and nothing else *)
Theorem grun_frame : forall ops op st st' v lv,
  forallb wrap_free ops = true -> grun ginit ops = Ok st -> gstep st op = Ok st' ->
  sinks_of st v = Ok lv ->
  match op with
  | GIAdd a b => if Nat.eqb v a then exists lb, sinks_of st b = Ok lb /\ sinks_of st' v = Ok (lv ++ lb)
                 else sinks_of st' v = Ok lv
  | _ => sinks_of st' v = Ok lv
  end.
Proof.
  intros ops op st st' v lv Hf Hr Hs Hv.
  destruct (grun_inv ops ginit st) as [Hw Hn]; try assumption; [constructor|constructor|].
  destruct op as [l| |a|a b|a b|parts|a pos l];
    try (apply (gstep_old _ _ _ _ _ Hw Hs Hv); intros; discriminate).
  destruct (Nat.eqb v a) eqn:E.
  - apply Nat.eqb_eq in E. subst v. pose proof Hs as Hs'. simpl in Hs'.
    destruct (lid st a) as [i|] eqn:Hi; simpl in Hs'; [|discriminate].
    rewrite Hv in Hs'. simpl in Hs'. destruct (sinks_of st b) as [lb|] eqn:Hb; simpl in Hs'; [|discriminate].
    exists lb. split; [reflexivity|].
    apply (gstep_iadd st a b st' a lv lb Hw Hs); [exists i; split; assumption|assumption|assumption].
  - apply (gstep_old _ _ _ _ _ Hw Hs Hv). intros a' b' Heq Hal. injection Heq as <- <-.
    apply Nat.eqb_neq in E. apply E. now apply (aliases_nodup st).
Qed.

(* Graph.empty() is a unit for += : e = Graph.empty(); e += b  gives e the sinks of b and
   changes no other graph (grun_frame) *)
Corollary empty_iadd : forall st b lb st1 st2, gwf st -> sinks_of st b = Ok lb ->
  gstep st GEmpty = Ok st1 -> gstep st1 (GIAdd (List.length (gvars st)) b) = Ok st2 ->
  sinks_of st2 (List.length (gvars st)) = Ok lb.
Proof.
  intros st b lb st1 st2 Hw Hb H1 H2. simpl in H1. injection H1 as <-.
  pose proof (gwf_alloc st [] Hw) as Hw1.
  apply (gstep_iadd (alloc st []) (List.length (gvars st)) b st2 (List.length (gvars st)) [] lb Hw1 H2).
  - exists (List.length (glists st)). assert (Hl : lid (alloc st []) (List.length (gvars st)) = Ok (List.length (glists st))).
    { apply lid_Ok. unfold alloc. simpl. rewrite nth_error_app2 by lia. now rewrite Nat.sub_diag. }
    split; exact Hl.
  - apply sinks_of_alloc_new.
  - now apply sinks_of_alloc_old.
Qed.

(* ------------------------------------------------------------------ join_namespaced on nodes *)
Section Join.
Variable P V : Type.
Variable interp : option P -> list string -> list (string * V) -> string -> V.

Theorem join_preserves_sem : forall (gs : list (string * graph P)) rs,
  Forall (fun x => topo (heap (snd x))) gs -> join_namespaced gs = Ok rs ->
  Forall2 (fun x g' => Forall2 (fun s s' => forall o, sem interp (heap g') s' o = sem interp (heap (snd x)) s o)
                               (sinks (snd x)) (sinks g')) gs rs.
Proof.
  intros gs rs Ht H. unfold join_namespaced in H.
  assert (Hm : map_res (fun x => rename_nodes (fun n => (fst x ++ "." ++ n)%string) (snd x)) gs = Ok rs).
  { destruct gs; [discriminate|exact H]. }
  clear H. revert rs Hm. induction Ht as [|x gs Hx _ IH]; intros rs Hm; cbn [map_res] in Hm.
  - injection Hm as <-. constructor.
  - destruct (rename_nodes (fun n => (fst x ++ "." ++ n)%string) (snd x)) as [g'|] eqn:Er; cbn [bind] in Hm; [|discriminate].
    destruct (map_res _ gs) as [rest|] eqn:Em; cbn [bind] in Hm; [|discriminate]. injection Hm as <-.
    constructor; [|apply IH; reflexivity].
    exact (rename_preserves_sem P V interp _ (snd x) g' Hx Er).
Qed.

(* the joined graph has one sink per sink of every input graph, in keyword order *)
Lemma joined_sinks_length : forall (gs : list (string * graph P)) rs,
  join_namespaced gs = Ok rs ->
  map (fun g' => List.length (sinks g')) rs = map (fun x => List.length (sinks (snd x))) gs.
Proof.
  intros gs rs H.
  assert (Ht : forall (gs : list (string * graph P)) rs,
            map_res (fun x => rename_nodes (fun n => (fst x ++ "." ++ n)%string) (snd x)) gs = Ok rs ->
            map (fun g' => List.length (sinks g')) rs = map (fun x => List.length (sinks (snd x))) gs).
  { clear. induction gs as [|x gs IH]; intros rs Hm; cbn [map_res] in Hm.
    - injection Hm as <-. reflexivity.
    - destruct (rename_nodes _ (snd x)) as [g'|] eqn:Er; cbn [bind] in Hm; [|discriminate].
      destruct (map_res _ gs) as [rest|] eqn:Em; cbn [bind] in Hm; [|discriminate]. injection Hm as <-.
      simpl. rewrite (IH rest eq_refl). f_equal.
      unfold rename_nodes in Er.
      destruct (transform _ _ _ _ _) as [[[st' rs'] done]|] eqn:Htr; simpl in Er; [|discriminate].
      injection Er as <-. simpl. unfold transform in Htr.
      destruct (loop _ _ _ _ _) as [ds|]; simpl in Htr; [|discriminate].
      destruct (map_res _ (sinks (snd x))) as [rs2|] eqn:Emr; simpl in Htr; [|discriminate].
      injection Htr as _ <- _. clear -Emr. revert rs2 Emr. induction (sinks (snd x)) as [|s l IHl]; intros rs2 Emr; simpl in Emr.
      + injection Emr as <-. reflexivity.
      + destruct (lookupn s (fst ds)); simpl in Emr; [|discriminate].
        destruct (map_res _ l) as [r2|]; simpl in Emr; [|discriminate]. injection Emr as <-. simpl. f_equal. now apply IHl. }
  unfold join_namespaced in H. destruct gs; [discriminate|]. now apply Ht.
Qed.

End Join.
