(* Model of earthkit/workflows/graph/export.py (serialise, deserialise, to_json, from_json),
   Node.serialise / Output.serialise (nodes.py), Graph.__eq__ (graph.py) and
   Cascade.serialise / from_serialised (earthkit/workflows/__init__.py), as of the
   worktree commits  6965c06 (sinks = nodes nobody consumes)  and
   a846c94 (_deserialise_node's own parameters positional-only).
   External libraries enter as Section variables: graphlib.TopologicalSorter.static_order,
   json.dumps/loads, dill.dump/load, and the payload's own ==, .serialise().
   No proofs in this file. *)
From Coq Require Import List String Bool Arith.
From EKW Require Import Graph.GStore.
Import ListNotations.
Open Scope string_scope.
Open Scope list_scope.

(* a serialised reference: the bare parent name (default output) or (parent, output);
   `tup` records tuple (as written by Output.serialise) versus list (after JSON) *)
Inductive ssrc := SBare (p : string) | SPair (tup : bool) (p o : string).

Definition src_parent (s : ssrc) : string := match s with SBare p => p | SPair _ p _ => p end.
Definition src_out (s : ssrc) : option string := match s with SBare _ => None | SPair _ _ o => Some o end.

Fixpoint dict_set {A} (k : string) (v : A) (l : list (string * A)) : list (string * A) :=
  match l with
  | [] => [(k, v)]
  | (k', v') :: r => if String.eqb k k' then (k, v) :: r else (k', v') :: dict_set k v r
  end.

Fixpoint list_eqb {A} (eqb : A -> A -> bool) (a b : list A) : bool :=
  match a, b with
  | [], [] => true
  | x :: a', y :: b' => eqb x y && list_eqb eqb a' b'
  | _, _ => false
  end.

(* set equality of dict key views *)
Definition keys_seteq (a b : list string) : bool :=
  forallb (fun k => smemb k b) a && forallb (fun k => smemb k a) b.

Definition deps_t := list (string * list string).
Definition deps_for (n : string) (deps : deps_t) : list string :=
  match lookup n deps with Some l => l | None => [] end.
Definition all_names (deps : deps_t) : list string := map fst deps ++ List.concat (map snd deps).

(* `order` is a topological order of `deps`: no repetition, every node after all of its
   predecessors, and exactly the names that occur (keys and predecessors) *)
Fixpoint topo_scan (deps : deps_t) (seen order : list string) : bool :=
  match order with
  | [] => true
  | n :: r => negb (smemb n seen) && forallb (fun d => smemb d seen) (deps_for n deps)
              && topo_scan deps (n :: seen) r
  end.
Definition topo_okb (deps : deps_t) (order : list string) : bool :=
  topo_scan deps [] order
  && forallb (fun n => smemb n order) (all_names deps)
  && forallb (fun n => smemb n (all_names deps)) order.

Section Export.
Variable P : Type.
Variable peqb : P -> P -> bool.    (* not (a != b) on payloads *)
Variable pser : P -> P.            (* payload.serialise() if it has one, else the payload *)
Variable jp : P -> P.              (* json.loads(json.dumps(payload)) *)
Variable static_order : deps_t -> res (list string).   (* graphlib; Err "CycleError" *)

Notation node := (node P).
Notation graph := (graph P).
Notation vnode := (vnode P).

(* the serialised node: keys "outputs", "inputs", "payload" (each may be absent in a
   hand-written dict: data.get(..., default)) *)
Record snode := mkS {
  s_outs : option (list string);
  s_ins : option (list (string * ssrc));
  s_pay : option P }.
Definition sgraph := list (string * snode).

(* ---------------------------------------------------------------- serialise *)
(* Output.serialise *)
Definition out_ser (pname oname : string) : ssrc :=
  if String.eqb oname DEFAULT_OUTPUT then SBare pname else SPair true pname oname.

(* Node.serialise *)
Definition node_ser (v : vnode) : snode :=
  mkS (Some (vouts v))
      (Some (map (fun x => (fst x, out_ser (fst (snd x)) (snd (snd x)))) (vins v)))
      (option_map pser (vpay v)).

(* serialise: for node in graph.nodes(): assert node.name not in data; data[name] = ... *)
Fixpoint ser_loop (vs : list vnode) (data : sgraph) : res sgraph :=
  match vs with
  | [] => Ok data
  | v :: r => if smemb (vname v) (map fst data) then Err "AssertionError"
              else ser_loop r (data ++ [(vname v, node_ser v)])
  end.
Definition serialise (g : graph) : res sgraph :=
  bind (vnodes g) (fun vs => ser_loop vs []).

(* ---------------------------------------------------------------- deserialise *)
Definition ins_of (sn : snode) : list (string * ssrc) :=
  match s_ins sn with Some l => l | None => [] end.
Definition outs_of (sn : snode) : list string :=
  match s_outs sn with Some l => l | None => [] end.

Definition deps_of (data : sgraph) : deps_t :=
  map (fun x => (fst x, map (fun y => src_parent (snd y)) (ins_of (snd x)))) data.

(* nodes[src].get_output() / nodes[parent].get_output(oname) *)
Definition resolve (m : list (string * nat)) (h : list node) (s : ssrc) : res (nat * string) :=
  match lookup (src_parent s) m with
  | None => Err "KeyError"
  | Some k =>
      match nth_error h k with
      | None => Err "model:dangling"
      | Some nd => bind (get_output nd (src_out s)) (fun o => Ok (k, o))
      end
  end.

Fixpoint resolve_all (m : list (string * nat)) (h : list node) (ins : list (string * ssrc))
  : res (list (string * (nat * string))) :=
  match ins with
  | [] => Ok []
  | (i, s) :: r =>
      bind (resolve m h s) (fun x => bind (resolve_all m h r) (fun xs => Ok ((i, x) :: xs)))
  end.

(* default_node_factory(name, outputs, payload, **inputs) *)
Definition reserved_factory : list string := ["name"; "outputs"; "payload"].
Definition default_node_factory (name : string) (outs : list string) (pay : option P)
           (kw : list (string * (nat * string))) : res node :=
  if existsb (fun k => smemb k reserved_factory) (map fst kw) then Err "TypeError"
  else match outs with
       | [] => mk_node name (Some []) pay kw
       | _ => mk_node name (Some outs) pay kw
       end.

(* _deserialise_node(name, data, node_factory, /, **inputs) *)
Definition deserialise_node (name : string) (sn : snode) (kw : list (string * (nat * string))) : res node :=
  default_node_factory name (outs_of sn) (s_pay sn) kw.

Record bstate := mkB { b_map : list (string * nat); b_heap : list node; b_sinks : list nat }.

(* `sink_rule` = true : the code as fixed (a sink is a node nobody consumes);
   false: the rule before commit 6965c06 (a sink is a node without outputs) *)
Definition build_step (sink_rule : bool) (data : sgraph) (consumed : list string) (st : bstate) (name : string)
  : res bstate :=
  match lookup name data with
  | None => Err "KeyError"
  | Some sn =>
      bind (resolve_all (b_map st) (b_heap st) (ins_of sn)) (fun kw =>
      bind (deserialise_node name sn kw) (fun nd =>
        let k := List.length (b_heap st) in
        let is_sink := if sink_rule then negb (smemb name consumed)
                       else match nouts nd with [] => true | _ => false end in
        Ok (mkB ((name, k) :: b_map st) (b_heap st ++ [nd])
                (if is_sink then b_sinks st ++ [k] else b_sinks st))))
  end.

Fixpoint build (sink_rule : bool) (data : sgraph) (consumed : list string) (st : bstate) (order : list string)
  : res bstate :=
  match order with
  | [] => Ok st
  | n :: r => bind (build_step sink_rule data consumed st n) (fun st' => build sink_rule data consumed st' r)
  end.

Definition deserialise_gen (sink_rule : bool) (data : sgraph) : res graph :=
  let deps := deps_of data in
  let consumed := List.concat (map snd deps) in
  bind (static_order deps) (fun order =>
  bind (build sink_rule data consumed (mkB [] [] []) order) (fun st =>
  Ok (mkGraph (b_heap st) (b_sinks st)))).

Definition deserialise : sgraph -> res graph := deserialise_gen true.
Definition deserialise_before_fix : sgraph -> res graph := deserialise_gen false.

(* ---------------------------------------------------------------- Graph.__eq__ *)
Definition mkdict (vs : list vnode) : list (string * vnode) :=
  fold_left (fun d v => dict_set (vname v) v d) vs [].

Definition pay_eqb (a b : option P) : bool :=
  match a, b with
  | None, None => true
  | Some x, Some y => peqb x y
  | _, _ => false
  end.

Definition veqb (v ov : vnode) : bool :=
  String.eqb (vname v) (vname ov)
  && list_eqb String.eqb (vouts v) (vouts ov)
  && keys_seteq (map fst (vins v)) (map fst (vins ov))
  && forallb (fun x => match lookup (fst x) (vins ov) with
                       | None => false
                       | Some os => String.eqb (fst (snd x)) (fst os) && String.eqb (snd (snd x)) (snd os)
                       end) (vins v)
  && pay_eqb (vpay v) (vpay ov).

Definition graph_eq (a b : graph) : res bool :=
  bind (vnodes a) (fun va => bind (vnodes b) (fun vb =>
    let da := mkdict va in
    let db := mkdict vb in
    if negb (keys_seteq (map fst da) (map fst db)) then Ok false
    else Ok (forallb (fun x => match lookup (fst x) db with
                               | None => false
                               | Some ov => veqb (snd x) ov
                               end) da))).

(* ---------------------------------------------------------------- JSON, dill *)
Definition jsonify_src (s : ssrc) : ssrc :=
  match s with SBare p => SBare p | SPair _ p o => SPair false p o end.
(* what json.loads(json.dumps(d)) is assumed to return for a serialised graph *)
Definition jsonify (d : sgraph) : sgraph :=
  map (fun x => (fst x, mkS (s_outs (snd x))
                            (option_map (map (fun y => (fst y, jsonify_src (snd y)))) (s_ins (snd x)))
                            (option_map jp (s_pay (snd x))))) d.

Variable J : Type.
Variable dumps : sgraph -> J.
Variable loads : J -> res sgraph.
Definition to_json (g : graph) : res J := bind (serialise g) (fun d => Ok (dumps d)).
Definition from_json (j : J) : res graph := bind (loads j) deserialise.

Variable F : Type.
Variable dill_dump : sgraph -> F.
Variable dill_load : F -> res sgraph.
(* Cascade(graph).serialise(file); Cascade.from_serialised(file)._graph *)
Definition cascade_serialise (g : graph) : res F := bind (serialise g) (fun d => Ok (dill_dump d)).
Definition cascade_from_serialised (f : F) : res graph := bind (dill_load f) deserialise.

End Export.

Arguments mkS {P}. Arguments s_outs {P}. Arguments s_ins {P}. Arguments s_pay {P}.
Arguments mkB {P}. Arguments b_map {P}. Arguments b_heap {P}. Arguments b_sinks {P}.
