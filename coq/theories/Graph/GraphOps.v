(* Model of Graph OBJECTS over time (graph.py:14-77, rename.py:54-75): Graph.__init__,
   Graph.empty, __add__, __iadd__, join_namespaced, and the `graph()` step of the
   transformers, at the level of the sink LISTS.

   A Graph object has one attribute, `sinks`, a Python list OBJECT.  List objects are mutable
   and can be shared, so the model keeps a store of list objects (`glists`, index = identity
   of the list) and, per graph object, which list it holds (`gvars`, index = identity of the
   graph).  A sink is a node identity (nat); what the nodes are is the business of the
   per-transformation models.
     Graph(sinks)        keeps the list it is given (self.sinks = sinks, no copy): GNew for a
                         list literal / freshly built list, GWrap a for Graph(a.sinks);
     Graph.empty()       cls(sinks=[]): a fresh empty list per call;
     a + b               Graph(self.sinks + other.sinks): a fresh list;
     a += b              self.sinks.extend(other.sinks): writes the list object a holds --
                         every graph holding that list object sees it;
     join_namespaced(ns=g, ..)  reduce(add, (rename_nodes(f_i, g_i) for ...)): no graph -> TypeError
                         (reduce of an empty iterable without initial value); one graph -> the
                         renamed graph; otherwise left-nested sums: in every case a fresh
                         list holding the renamed sinks of the graphs in keyword order;
     transformer.graph() Graph([done[s] for s in g.sinks]) (copy, rename, fuse),
                         Graph(list(set(...))) (dedup): a fresh list.
   Which node objects a transformer returns (the same ones, written in place, or new ones)
   is read off the observation: GTrans / the parts of GJoin carry the observed sinks, the
   model checks what the source fixes (positional transformers and the parts of a join keep
   the number of sinks) and allocates the list.  No proofs in this file. *)
From Coq Require Import List String Bool Arith.
From EKW Require Import Graph.GStore Graph.Engine Graph.Rename.
Import ListNotations.
Open Scope string_scope.
Open Scope list_scope.

Record gstate := mkGS { glists : list (list nat); gvars : list nat }.

Definition ginit : gstate := mkGS [] [].

Inductive gop :=
| GNew (l : list nat)                        (* Graph([...]) *)
| GEmpty                                     (* Graph.empty() *)
| GWrap (a : nat)                            (* Graph(a.sinks) *)
| GAdd (a b : nat)                           (* a + b *)
| GIAdd (a b : nat)                          (* a += b *)
| GJoin (parts : list (nat * list nat))      (* join_namespaced(ns_1=g_1, ...): (g_i, renamed sinks of g_i) *)
| GTrans (a : nat) (positional : bool) (l : list nat).   (* copy/rename/fuse (positional) or dedup of a *)

(* a.sinks *)
Definition lid (st : gstate) (v : nat) : res nat :=
  match nth_error (gvars st) v with Some i => Ok i | None => Err "model:no-such-graph" end.

Definition sinks_of (st : gstate) (v : nat) : res (list nat) :=
  bind (lid st v) (fun i =>
  match nth_error (glists st) i with Some l => Ok l | None => Err "model:no-such-list" end).

(* a new graph object holding a new list object *)
Definition alloc (st : gstate) (l : list nat) : gstate :=
  mkGS (glists st ++ [l]) (gvars st ++ [List.length (glists st)]).

Fixpoint set_nth {A} (n : nat) (x : A) (l : list A) {struct l} : list A :=
  match l, n with
  | [], _ => []
  | _ :: r, 0 => x :: r
  | y :: r, S k => y :: set_nth k x r
  end.

Fixpoint join_parts (st : gstate) (parts : list (nat * list nat)) : res (list nat) :=
  match parts with
  | [] => Ok []
  | (a, l) :: r =>
      bind (sinks_of st a) (fun la =>
      if Nat.eqb (List.length l) (List.length la)
      then bind (join_parts st r) (fun rest => Ok (l ++ rest))
      else Err "model:join-length")
  end.

Definition gstep (st : gstate) (op : gop) : res gstate :=
  match op with
  | GNew l => Ok (alloc st l)
  | GEmpty => Ok (alloc st [])
  | GWrap a => bind (lid st a) (fun i => Ok (mkGS (glists st) (gvars st ++ [i])))
  | GAdd a b =>
      bind (sinks_of st a) (fun la => bind (sinks_of st b) (fun lb => Ok (alloc st (la ++ lb))))
  | GIAdd a b =>
      bind (lid st a) (fun i =>
      bind (sinks_of st a) (fun la => bind (sinks_of st b) (fun lb =>
      Ok (mkGS (set_nth i (la ++ lb) (glists st)) (gvars st)))))
  | GJoin parts =>
      match parts with
      | [] => Err "TypeError"
      | _ => bind (join_parts st parts) (fun l => Ok (alloc st l))
      end
  | GTrans a positional l =>
      bind (sinks_of st a) (fun la =>
      if negb positional || Nat.eqb (List.length l) (List.length la) then Ok (alloc st l)
      else Err "model:sink-count")
  end.

Fixpoint grun (st : gstate) (ops : list gop) : res gstate :=
  match ops with
  | [] => Ok st
  | op :: r => bind (gstep st op) (fun st' => grun st' r)
  end.

(* the sinks of every graph object, in order of creation *)
Definition all_sinks (st : gstate) : list (list nat) :=
  map (fun i => nth i (glists st) []) (gvars st).

(* programs that never hand a graph's own list to the constructor *)
Definition wrap_free (op : gop) : bool := match op with GWrap _ => false | _ => true end.

(* ------------------------------------------------------------------ join_namespaced on nodes *)
(* node level: every graph is renamed with its namespace (Graph/Rename.v); the joined graph
   is the disjoint union: a sink is (i, s), node s of the i-th renamed graph.  (Graphs that
   share node objects are renamed more than once by the source; names are not part of what
   a node denotes.) *)
Definition join_namespaced {P} (gs : list (string * graph P)) : res (list (graph P)) :=
  match gs with
  | [] => Err "TypeError"
  | _ => map_res (fun x => rename_nodes (fun n => (fst x ++ "." ++ n)%string) (snd x)) gs
  end.

Definition joined_sinks {P} (rs : list (graph P)) : list (nat * nat) :=
  flat_map (fun ir => map (pair (fst ir)) (sinks (snd ir))) (combine (seq 0 (List.length rs)) rs).
