(* Executable checker used by harness/c11.py for programs over Graph objects (sessions):
   the model of Graph/GraphOps.v is run on the operations the harness performed on real
   Graph objects; after every operation the sinks of ALL graph objects created so far, as
   observed on the real objects (node identities numbered by the harness), must be the
   model's. *)
From Coq Require Import List String Bool Arith.
From EKW Require Import Graph.GStore Graph.Export Graph.GraphOps.
Import ListNotations.
Open Scope string_scope.
Open Scope list_scope.

Fixpoint check_run (st : gstate) (steps : list (gop * list (list nat))) : bool :=
  match steps with
  | [] => true
  | (op, obs) :: r =>
      match gstep st op with
      | Err _ => false
      | Ok st' => list_eqb (list_eqb Nat.eqb) (all_sinks st') obs && check_run st' r
      end
  end.

Definition check_session (case : list (gop * list (list nat))) : bool := check_run ginit case.
