(* None of the six transformations runs out of the model's fuel on an acyclic graph with
   valid sinks (for expand: when the expander's sub-graphs are acyclic with valid sinks). *)
From Coq Require Import List String Bool Arith Lia.
From EKW Require Import Graph.GStore Graph.ExportProofs Graph.Denote Graph.Engine Graph.EngineProofs Graph.EngineFuel.
From EKW Require Import Graph.Copy Graph.Rename Graph.Dedup Graph.Split Graph.Expand Graph.Fuse.
Import ListNotations.
Open Scope string_scope.
Open Scope list_scope.

Definition valid_sinks {P} (g : graph P) : Prop := Forall (fun s => s < List.length (heap g)) (sinks g).

Lemma out_node_fuel : forall P (h' : list (node P)) r o, out_node h' r o <> Err OOF.
Proof. intros P h' r o. unfold out_node. destruct (nth_error h' r) as [nd|]; [destruct (smemb o (nouts nd))|]; discriminate. Qed.

Lemma mk_node_fuel : forall P name outs (pay : option P) kw, mk_node name outs pay kw <> Err OOF.
Proof. intros. unfold mk_node. destruct (existsb _ _); discriminate. Qed.

Ltac bind_fuel H := let Heq := fresh in intros Heq; apply H; exact Heq.

Section All.
Variable P : Type.

Lemma copy_fuel : forall g : graph P, topo (heap g) -> valid_sinks g -> copy_graph g <> Err OOF.
Proof.
  intros g Ht Hs. unfold copy_graph.
  destruct (transform copy_visit out_node (heap g) (sinks g) []) as [x|e] eqn:Htr; simpl; [discriminate|].
  intros Heq. injection Heq as ->. revert Htr.
  apply (transform_fuel P _ _ _ copy_visit out_node (heap g) Ht); [|apply out_node_fuel|exact Hs].
  intros st n nd inputs. unfold copy_visit.
  destruct (mk_node (nname nd) (Some (nouts nd)) (npay nd) (nins nd)) as [c|e'] eqn:Hm; simpl; [discriminate|].
  intros Heq. injection Heq as ->. exact (mk_node_fuel _ _ _ _ _ Hm).
Qed.

Lemma rename_fuel : forall func (g : graph P), topo (heap g) -> valid_sinks g -> rename_nodes func g <> Err OOF.
Proof.
  intros func g Ht Hs. unfold rename_nodes.
  destruct (transform (rename_visit func) out_node (heap g) (sinks g) []) as [x|e] eqn:Htr; simpl; [discriminate|].
  intros Heq. injection Heq as ->. revert Htr.
  apply (transform_fuel P _ _ _ (rename_visit func) out_node (heap g) Ht); [|apply out_node_fuel|exact Hs].
  intros st n nd inputs. unfold rename_visit. discriminate.
Qed.

Lemma dedup_fuel : forall pred (g : graph P), topo (heap g) -> valid_sinks g -> deduplicate_nodes pred g <> Err OOF.
Proof.
  intros pred g Ht Hs. unfold deduplicate_nodes.
  destruct (transform (dedup_visit pred) dedup_output (heap g) (sinks g) (mkD [] [])) as [[[st rs] done]|e] eqn:Htr; simpl.
  - unfold dedup_finish.
    match goal with |- bind ?m _ <> _ => destruct m as [refs|e] eqn:Hm end; simpl; [discriminate|].
    intros Heq. injection Heq as ->. clear -Hm. revert Hm. induction rs as [|r rs IH]; simpl; [discriminate|].
    destruct (nth_error (dheap st) r) as [nd|]; [|discriminate].
    destruct (find_node pred st nd); simpl; [|discriminate].
    match goal with |- bind ?m _ = _ -> _ => destruct m as [ys|e'] eqn:Hm' end; simpl; [discriminate|].
    intros Heq. injection Heq as ->. now apply IH.
  - intros Heq. injection Heq as ->. revert Htr.
    apply (transform_fuel P _ _ _ (dedup_visit pred) dedup_output (heap g) Ht); [| |exact Hs].
    + intros st n nd inputs. unfold dedup_visit. destruct (find_node _ _ _); discriminate.
    + intros st r o. apply out_node_fuel.
Qed.

Lemma split_fuel : forall (K : Type) keqb (key : node P -> K) cut_name (g : graph P),
  topo (heap g) -> valid_sinks g -> split_graph_k keqb key cut_name g <> Err OOF.
Proof.
  intros K keqb key cut_name g Ht Hs. unfold split_graph_k.
  destruct (transform (split_visit keqb key cut_name) split_output (heap g) (sinks g) (mkS [] [] [] [] [])) as [x|e] eqn:Htr; simpl; [discriminate|].
  intros Heq. injection Heq as ->. revert Htr.
  apply (transform_fuel P _ _ _ (split_visit keqb key cut_name) split_output (heap g) Ht); [| |exact Hs].
  - intros st n nd inputs. unfold split_visit. destruct (cut_inputs _ _ _ _ _ _). discriminate.
  - intros st r o. unfold split_output. destruct (nth_error _ _) as [nd|]; [destruct (smemb _ _)|]; discriminate.
Qed.

Lemma fuse_inputs_fuel : forall func cnt inputs h' (cur : node P) self is_self any calls,
  fuse_inputs func cnt h' cur self is_self any calls inputs <> Err OOF.
Proof.
  intros func cnt inputs. induction inputs as [|[iname [rp oname]] rest IH]; intros h' cur self is_self any calls; simpl; [discriminate|].
  destruct (Nat.ltb 1 (count_of rp cnt)); [apply IH|].
  destruct (nth_error h' rp) as [pn|]; [|discriminate].
  destruct (func pn oname cur iname) as [[ip fused]|]; apply IH.
Qed.

Lemma fuse_fuel : forall func (g : graph P), topo (heap g) -> valid_sinks g -> fuse_nodes func g <> Err OOF.
Proof.
  intros func g Ht Hs. unfold fuse_nodes, consumer_count.
  destruct (nodes_ok P g Ht Hs) as (ns & -> & _). simpl.
  set (oc := fun p : nat => count_occ_nat p (flat_map (fun x : nat * node P => parents (snd x)) ns)).
  destruct (transform (fuse_visit func oc) fuse_output (heap g) (sinks g) (mkF [] [] [] [])) as [x|e] eqn:Htr; simpl; [discriminate|].
  intros Heq. injection Heq as ->. revert Htr.
  apply (transform_fuel P _ _ _ (fuse_visit func oc) fuse_output (heap g) Ht); [| |exact Hs].
  - intros st n nd inputs. unfold fuse_visit.
    match goal with |- bind ?m _ <> _ => destruct m as [[[[[h1 cur] self] any] calls]|e'] eqn:Hm end; simpl.
    + destruct any; discriminate.
    + intros Heq. injection Heq as ->. exact (fuse_inputs_fuel _ _ _ _ _ _ _ _ _ Hm).
  - intros st r o. apply out_node_fuel.
Qed.

Lemma splicer_visit_fuel : forall pname spi spo (h' : list (node P)) n s inputs,
  splicer_visit pname spi spo h' n s inputs <> Err OOF.
Proof.
  intros. unfold splicer_visit.
  destruct (nins s).
  - destruct (lookup (nname s) spi); [|discriminate].
    match goal with |- bind ?m _ <> _ => destruct m eqn:Hm end; simpl; [discriminate|].
    intros Heq. injection Heq as ->. exact (mk_node_fuel _ _ _ _ _ Hm).
  - destruct (nouts s); [|discriminate].
    destruct (smemb _ _); [|discriminate].
    match goal with |- bind ?m _ <> _ => destruct m eqn:Hm end; simpl; [discriminate|].
    intros Heq. injection Heq as ->. exact (mk_node_fuel _ _ _ _ _ Hm).
Qed.

Lemma map_res_fuel : forall A B (f : A -> res B) l, (forall x, f x <> Err OOF) -> map_res f l <> Err OOF.
Proof.
  intros A B f l Hf. induction l as [|x l IH]; simpl; [discriminate|].
  destruct (f x) eqn:Hx; simpl; [|intros Heq; injection Heq as ->; exact (Hf _ Hx)].
  destruct (map_res f l); simpl; [discriminate|exact IH].
Qed.

Lemma expand_fuel : forall (expander : node P -> option (subspec P)) (g : graph P),
  topo (heap g) -> valid_sinks g ->
  (forall nd sub imap omap, expander nd = Some (sub, imap, omap) -> topo (heap sub) /\ valid_sinks sub) ->
  expand_graph expander g <> Err OOF.
Proof.
  intros expander g Ht Hs Hsub. unfold expand_graph.
  destruct (transform (expand_visit expander) expand_output (heap g) (sinks g) []) as [x|e] eqn:Htr; simpl; [discriminate|].
  intros Heq. injection Heq as ->. revert Htr.
  apply (transform_fuel P _ _ _ (expand_visit expander) expand_output (heap g) Ht); [| |exact Hs].
  - intros st n nd inputs. unfold expand_visit.
    destruct (expander nd) as [[[sub imap] omap]|] eqn:He; [|discriminate].
    destruct (Hsub _ _ _ _ He) as [Hts Hss].
    destruct (mk_sp_inputs inputs imap) as [spi|e'] eqn:Hi; simpl.
    + unfold splice.
      match goal with |- bind ?m _ <> _ => destruct m as [y|e'] eqn:Hm end; simpl.
      * destruct (splicer_sort _ _ _ _ _ _). discriminate.
      * intros Heq. injection Heq as ->. revert Hm.
        apply (transform_fuel P _ _ _ (splicer_visit (nname nd) spi (mk_sp_outputs (nouts nd) omap)) out_node (heap sub) Hts);
          [intros; apply splicer_visit_fuel|intros; apply out_node_fuel|exact Hss].
    + intros Heq. injection Heq as ->. revert Hi. unfold mk_sp_inputs. destruct imap as [m|]; [|discriminate].
      apply map_res_fuel. intros x. destruct (lookup (snd x) inputs); discriminate.
  - intros st r o. destruct r as [r|leaves om inner]; simpl; [apply out_node_fuel|].
    destruct (lookup o om); [|discriminate]. destruct (lookup_last _ _); [apply out_node_fuel|discriminate].
Qed.

End All.
