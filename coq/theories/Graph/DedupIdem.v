(* deduplicate_nodes is idempotent: applied to its own result it merges nothing -- the
   second run maps the reachable nodes of its input one-to-one onto the nodes it creates,
   keeping names, outputs, payloads, inputs (and their order) and the sinks (in order). *)
From Coq Require Import List String Bool Arith Lia.
From EKW Require Import Graph.GStore Graph.Denote Graph.Engine Graph.EngineProofs Graph.Dedup Graph.DedupProofs.
Import ListNotations.
Open Scope string_scope.
Open Scope list_scope.

Lemma nodup_nat_NoDup : forall l seen, NoDup (nodup_nat l seen).
Proof.
  induction l as [|x l IH]; intros seen; simpl; [constructor|].
  destruct (memb x seen); [apply IH|]. constructor; [|apply IH].
  intros H. apply nodup_nat_In in H. destruct H as [_ H]. apply H. now left.
Qed.

Lemma nodup_nat_id : forall l seen, NoDup l -> (forall x, In x l -> ~ In x seen) -> nodup_nat l seen = l.
Proof.
  induction l as [|x l IH]; intros seen ND Hs; simpl; [reflexivity|].
  inversion ND as [|? ? Hx ND']; subst.
  assert (Hm : memb x seen = false).
  { unfold memb. destruct (existsb (Nat.eqb x) seen) eqn:E; [|reflexivity].
    apply existsb_exists in E. destruct E as (y & Hy & Hxy). apply Nat.eqb_eq in Hxy. subst y.
    exfalso. apply (Hs x); [now left|assumption]. }
  rewrite Hm. f_equal. apply IH; [assumption|].
  intros y Hy [<-|Hin]; [contradiction|]. apply (Hs y); [now right|assumption].
Qed.

Lemma In_lookupn_some : forall A (l : list (nat * A)) n r, In (n, r) l -> lookupn n l <> None.
Proof.
  induction l as [|[k v] l IH]; intros n r H; [contradiction|]. simpl.
  destruct (Nat.eqb n k) eqn:E; [discriminate|].
  destruct H as [Heq|H]; [injection Heq as -> ->; rewrite Nat.eqb_refl in E; discriminate|]. eapply IH; eassumption.
Qed.

Lemma Forall2_impl_in' : forall A B (R R' : A -> B -> Prop) l l',
  (forall a b, R a b -> R' a b) -> Forall2 R l l' -> Forall2 R' l l'.
Proof. intros A B R R' l l' H HF. induction HF; constructor; auto. Qed.

Section Idem.
Variable P : Type.
Variable pred : node P -> node P -> bool.
Hypothesis pred_spec : forall a b, pred a b = true <-> npay a = npay b.
Variable h : list (node P).
Variable sk : list nat.
(* what the first run guarantees (DedupProofs.no_two_equal) *)
Hypothesis Hnodup : forall a b nda ndb, reachable h sk a -> reachable h sk b -> a <> b ->
  nth_error h a = Some nda -> nth_error h b = Some ndb ->
  ~ (npay nda = npay ndb /\ nouts nda = nouts ndb /\ forall k, lookup k (nins nda) = lookup k (nins ndb)).

(* ndr is nd with every parent replaced by its image under done *)
Definition img (done : list (nat * nat)) (nd ndr : node P) : Prop :=
  nname ndr = nname nd /\ nouts ndr = nouts nd /\ npay ndr = npay nd /\
  Forall2 (fun i x => fst x = fst i /\ snd (snd x) = snd (snd i) /\ In (fst (snd i), fst (snd x)) done)
          (nins nd) (nins ndr).

Lemma img_mono : forall done e nd ndr, img done nd ndr -> img (e :: done) nd ndr.
Proof.
  intros done e nd ndr (H1 & H2 & H3 & H4). repeat split; try assumption.
  eapply Forall2_impl_in'; [|exact H4]. simpl. intros a b (Ha & Hb & Hc). repeat split; auto.
Qed.

Lemma img_lookup : forall done nd ndr, img done nd ndr -> forall k,
  match lookup k (nins nd), lookup k (nins ndr) with
  | Some (p, o), Some (r, o') => o = o' /\ In (p, r) done
  | None, None => True
  | _, _ => False
  end.
Proof.
  intros done nd ndr (_ & _ & _ & HF) k. induction HF as [|[ik [p o]] [xk [r o']] li lx (H1 & H2 & H3) _ IH]; simpl; [exact I|].
  simpl in *. subst xk o'. destruct (String.eqb k ik); [auto|exact IH].
Qed.

Definition DK (done : list (nat * nat)) (st : dstate P) : Prop :=
  (forall m r, In (m, r) done -> reachable h sk m /\ In r (dreg st) /\
     exists nd ndr, nth_error h m = Some nd /\ nth_error (dheap st) r = Some ndr /\ img done nd ndr) /\
  (forall r, In r (dreg st) -> exists m, In (m, r) done) /\
  (forall m m' r, In (m, r) done -> In (m', r) done -> m = m') /\
  (forall m r r', In (m, r) done -> In (m, r') done -> r = r') /\
  (forall r, In r (dreg st) -> r < List.length (dheap st)).

(* a registered node that _cmp_nodes and pred identify with the image of n IS the image of n *)
Lemma match_same : forall done st n nd nd' other ond,
  DK done st -> reachable h sk n -> nth_error h n = Some nd -> img done nd nd' ->
  In other (dreg st) -> nth_error (dheap st) other = Some ond ->
  cmp_nodes nd' ond = true -> pred nd' ond = true -> In (n, other) done.
Proof.
  intros done st n nd nd' other ond (Ha & Hb & Hc & Hd & Hf) Hrn Hn Himg Hreg Hoth Hcmp Hpred.
  destruct (Hb other Hreg) as (m & Hm).
  destruct (Ha m other Hm) as (Hrm & _ & ndm & ndr & Hnm & Hnr & Himgm).
  rewrite Hoth in Hnr. injection Hnr as <-.
  destruct (Nat.eq_dec n m) as [->|Hne]; [assumption|].
  exfalso. apply (Hnodup n m nd ndm Hrn Hrm Hne Hn Hnm).
  pose proof (img_lookup _ _ _ Himg) as Hi1. pose proof (img_lookup _ _ _ Himgm) as Hi2.
  destruct Himg as (_ & Ho1 & Hp1 & _). destruct Himgm as (_ & Ho2 & Hp2 & _).
  split; [|split].
  - rewrite <- Hp1, <- Hp2. now apply pred_spec.
  - rewrite <- Ho1, <- Ho2. now apply cmp_nodes_outs.
  - intros k. pose proof (cmp_nodes_lookup _ _ _ k Hcmp) as Hl.
    specialize (Hi1 k). specialize (Hi2 k).
    destruct (lookup k (nins nd)) as [[p o]|]; destruct (lookup k (nins nd')) as [[r o']|]; try contradiction;
    destruct (lookup k (nins ndm)) as [[p2 o2]|]; destruct (lookup k (nins ond)) as [[r2 o2']|]; try contradiction;
    try discriminate; [|reflexivity].
    injection Hl as -> ->. destruct Hi1 as [-> Hin1]. destruct Hi2 as [-> Hin2].
    rewrite (Hc p p2 r2 Hin1 Hin2). reflexivity.
Qed.

Lemma visit_idem_inv : forall done st n nd inputs st' r,
  reachable h sk n -> DK done st -> nth_error h n = Some nd -> lookupn n done = None ->
  gather dedup_output st done (nins nd) = Ok (Ready inputs) ->
  dedup_visit pred st n nd inputs = Ok (st', r) -> DK ((n, r) :: done) st'.
Proof.
  intros done st n nd inputs st' r Hrn HK Hn Hund Hg Hv.
  apply gather_spec in Hg. unfold dedup_output in Hg. unfold dedup_visit in Hv.
  set (nd' := mkNode (nname nd) (nouts nd) (npay nd) inputs) in *.
  assert (Himg : img done nd nd').
  { repeat split; try reflexivity. simpl.
    eapply Forall2_impl_in'; [|exact Hg]. simpl. intros i x (H1 & r0 & Hl & Ho).
    apply out_node_ok in Ho. destruct Ho as (-> & _). simpl. repeat split; auto. now apply lookupn_In. }
  destruct (find_node pred st nd') as [other|] eqn:Hf.
  - exfalso. apply find_node_some in Hf. destruct Hf as (Hreg & ond & Hoth & Hc & Hp).
    pose proof (match_same done st n nd nd' other ond HK Hrn Hn Himg Hreg Hoth Hc Hp) as Hin.
    exact (In_lookupn_some _ _ _ _ Hin Hund).
  - injection Hv as <- <-. destruct HK as (Ha & Hb & Hc & Hd & Hf').
    assert (Hrlt : forall m r0, In (m, r0) done -> r0 < List.length (dheap st)).
    { intros m r0 Hin. destruct (Ha m r0 Hin) as (_ & Hreg & _). now apply Hf'. }
    unfold DK. simpl. split; [|split; [|split; [|split]]].
    + intros m r0 [Heq|Hin].
      * injection Heq as <- <-. split; [assumption|]. split; [apply in_or_app; right; now left|].
        exists nd, nd'. split; [assumption|]. split; [|now apply img_mono].
        rewrite nth_error_app2 by lia. now rewrite Nat.sub_diag.
      * destruct (Ha m r0 Hin) as (H1 & H2 & nd0 & ndr & H3 & H4 & H5).
        split; [assumption|]. split; [apply in_or_app; now left|].
        exists nd0, ndr. split; [assumption|]. split; [|now apply img_mono].
        rewrite nth_error_app1; [assumption|]. apply nth_error_Some. congruence.
    + intros r0 Hin. apply in_app_or in Hin. destruct Hin as [Hin|[<-|[]]].
      * destruct (Hb r0 Hin) as (m & Hm). exists m. now right.
      * exists n. now left.
    + intros m m' r0 [H1|H1] [H2|H2].
      * congruence.
      * injection H1 as <- <-. specialize (Hrlt _ _ H2). lia.
      * injection H2 as <- <-. specialize (Hrlt _ _ H1). lia.
      * eapply Hc; eassumption.
    + intros m r0 r1 [H1|H1] [H2|H2].
      * congruence.
      * injection H1 as <- <-. exfalso. exact (In_lookupn_some _ _ _ _ H2 Hund).
      * injection H2 as <- <-. exfalso. exact (In_lookupn_some _ _ _ _ H1 Hund).
      * eapply Hd; eassumption.
    + intros r0 Hin. rewrite app_length. simpl. apply in_app_or in Hin. destruct Hin as [Hin|[<-|[]]]; [specialize (Hf' _ Hin)|]; lia.
Qed.

Lemma idem_run : forall (g1 g2 : graph P), h = heap g1 -> sk = sinks g1 -> NoDup sk ->
  deduplicate_nodes pred g1 = Ok g2 ->
  exists done,
    Forall2 (fun s s' => In (s, s') done) (sinks g1) (sinks g2) /\
    (forall m r, In (m, r) done -> reachable h sk m /\
       exists nd ndr, nth_error h m = Some nd /\ nth_error (heap g2) r = Some ndr /\ img done nd ndr) /\
    (forall m m' r, In (m, r) done -> In (m', r) done -> m = m').
Proof.
  intros g1 g2 Hh Hsk ND H. unfold deduplicate_nodes in H. rewrite <- Hh, <- Hsk in H.
  destruct (transform (dedup_visit pred) dedup_output h sk (mkD [] [])) as [[[st rs] done]|] eqn:Htr; simpl in H; [|discriminate].
  destruct (transform_inv_r P _ _ _ (dedup_visit pred) dedup_output h (reachable h sk)
              (fun n nd p Hr Hn Hp => reach_parent h sk n nd p Hr Hn Hp) DK visit_idem_inv sk (mkD [] []) st rs done)
    as [HK HF].
  - apply Forall_forall. intros s Hs. now apply reach_sink.
  - unfold DK. simpl. repeat split; try (intros; contradiction).
  - exact Htr.
  - pose proof HK as (Ha & Hb & Hc & Hd & Hf).
    unfold dedup_finish in H.
    match type of H with bind ?m _ = _ => destruct m as [refs|] eqn:Hm; simpl in H; [|discriminate] end.
    injection H as <-. simpl. rewrite <- Hsk.
    assert (Hrefs_gen : forall l lr, Forall2 (fun s r => lookupn s done = Some r) l lr ->
              forall refs0, map_res (fun r => match nth_error (dheap st) r with
                                              | None => Err "model:dangling"
                                              | Some nd => match find_node pred st nd with
                                                           | Some ref => Ok ref
                                                           | None => Err "AssertionError"
                                                           end
                                              end) lr = Ok refs0 -> refs0 = lr).
    { intros l lr HF0. induction HF0 as [|s r ls lr Hl _ IH]; simpl; intros refs0 Hm0.
      - now injection Hm0 as <-.
      - apply lookupn_In in Hl. destruct (Ha s r Hl) as (Hrs & _ & nds & ndr & Hns & Hnr & Himg).
        rewrite Hnr in Hm0. destruct (find_node pred st ndr) as [ref|] eqn:Hfind; simpl in Hm0; [|discriminate].
        match type of Hm0 with bind ?m _ = _ => destruct m as [refs1|] eqn:Hm1; simpl in Hm0; [|discriminate] end.
        injection Hm0 as <-. apply find_node_some in Hfind. destruct Hfind as (Hreg & ond & Hoth & Hcmp & Hp).
        pose proof (match_same done st s nds ndr ref ond HK Hrs Hns Himg Hreg Hoth Hcmp Hp) as Hin.
        rewrite (Hd s r ref Hl Hin). f_equal. now apply IH. }
    pose proof (Hrefs_gen _ _ HF refs Hm) as Hrefs. subst refs.
    assert (NDr_gen : forall l lr, Forall2 (fun s r => lookupn s done = Some r) l lr -> NoDup l -> NoDup lr).
    { intros l lr HF0. induction HF0 as [|s r ls lr Hl HF1 IH]; intros ND0; [constructor|].
      inversion ND0 as [|? ? Hs ND']; subst. constructor; [|now apply IH].
      intros Hin. destruct (Forall2_ex_l _ _ _ _ _ HF1 r Hin) as (s' & Hs' & Hl').
      apply lookupn_In in Hl. apply lookupn_In in Hl'. rewrite (Hc s s' r Hl Hl') in Hs. contradiction. }
    pose proof (NDr_gen _ _ HF ND) as NDr.
    rewrite (nodup_nat_id rs [] NDr) by (intros x _ []).
    exists done. split; [|split; [|exact Hc]].
    + eapply Forall2_impl_in'; [|exact HF]. intros a b Hl. now apply lookupn_In.
    + intros m r Hin. destruct (Ha m r Hin) as (H1 & _ & nd & ndr & H2 & H3 & H4). split; [assumption|]. eauto.
Qed.

End Idem.

Lemma dedup_sinks_nodup : forall P pred (g g1 : graph P), deduplicate_nodes pred g = Ok g1 -> NoDup (sinks g1).
Proof.
  intros P pred g g1 H. unfold deduplicate_nodes in H.
  destruct (transform (dedup_visit pred) dedup_output (heap g) (sinks g) (mkD [] [])) as [[[st rs] done]|]; simpl in H; [|discriminate].
  unfold dedup_finish in H.
  match type of H with bind ?m _ = _ => destruct m as [refs|]; simpl in H; [|discriminate] end.
  injection H as <-. simpl. apply nodup_nat_NoDup.
Qed.

(* idempotence: the second run is an isomorphism from the reachable part of g1 onto g2 *)
Theorem dedup_idempotent : forall P (pred : node P -> node P -> bool),
  (forall a b, pred a b = true <-> npay a = npay b) ->
  forall g g1 g2 : graph P,
  deduplicate_nodes pred g = Ok g1 -> deduplicate_nodes pred g1 = Ok g2 ->
  exists done,
    Forall2 (fun s s' => In (s, s') done) (sinks g1) (sinks g2) /\
    (forall m r, In (m, r) done -> reachable (heap g1) (sinks g1) m /\
       exists nd ndr, nth_error (heap g1) m = Some nd /\ nth_error (heap g2) r = Some ndr /\ img P done nd ndr) /\
    (forall m m' r, In (m, r) done -> In (m', r) done -> m = m').
Proof.
  intros P pred Hp g g1 g2 H1 H2.
  exact (idem_run P pred Hp (heap g1) (sinks g1) (no_two_equal P pred (heap g) Hp g g1 eq_refl H1)
                  g1 g2 eq_refl eq_refl (dedup_sinks_nodup P pred g g1 H1) H2).
Qed.
