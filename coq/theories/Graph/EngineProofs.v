(* Lemmas about [sem] (append-only heaps keep old values; unfolding equation) and the
   generic engine lemma: an invariant preserved by every visit holds when the loop ends,
   for any fuel, any stack, any graph. *)
From Coq Require Import List String Bool Arith Lia.
From EKW Require Import Graph.GStore Graph.Denote Graph.Engine.
Import ListNotations.
Open Scope string_scope.
Open Scope list_scope.

(* ------------------------------------------------------------------ lookupn *)
Lemma lookupn_In : forall A n (l : list (nat * A)) r, lookupn n l = Some r -> In (n, r) l.
Proof.
  induction l as [|[k v] l IH]; simpl; intros r H; [discriminate|].
  destruct (Nat.eqb n k) eqn:E.
  - apply Nat.eqb_eq in E. injection H as <-. subst. now left.
  - right. now apply IH.
Qed.

Lemma lookupn_None_notin : forall A n (l : list (nat * A)), lookupn n l = None -> ~ In n (map fst l).
Proof.
  induction l as [|[k v] l IH]; simpl; intros H; [tauto|].
  destruct (Nat.eqb n k) eqn:E; [discriminate|].
  apply Nat.eqb_neq in E. intros [->|H1]; [congruence|]. now apply IH.
Qed.

Lemma In_lookupn : forall A (l : list (nat * A)) n r, NoDup (map fst l) -> In (n, r) l -> lookupn n l = Some r.
Proof.
  induction l as [|[k v] l IH]; simpl; intros n r ND H; [contradiction|].
  inversion ND as [|? ? Hk ND']; subst.
  destruct H as [H|H].
  - injection H as -> ->. now rewrite Nat.eqb_refl.
  - destruct (Nat.eqb n k) eqn:E.
    + apply Nat.eqb_eq in E. subst. exfalso. apply Hk. apply in_map_iff. now exists (k, r).
    + now apply IH.
Qed.

(* ------------------------------------------------------------------ sem *)
Section SemLemmas.
Variable P V : Type.
Variable interp : option P -> list string -> list (string * V) -> string -> V.
Notation sem := (sem interp).
Notation vals := (vals interp).
Notation nodeval := (nodeval interp).

Lemma vals_snoc : forall h nd, vals (h ++ [nd]) = vals h ++ [nodeval (vals h) nd].
Proof. intros. unfold Denote.vals. rewrite fold_left_app. reflexivity. Qed.

Lemma vals_length : forall h, List.length (vals h) = List.length h.
Proof.
  intros h. induction h as [|nd h IH] using rev_ind; [reflexivity|].
  rewrite vals_snoc, !app_length, IH. reflexivity.
Qed.

Lemma vals_app : forall h ext, exists t, vals (h ++ ext) = vals h ++ t.
Proof.
  intros h ext. induction ext as [|nd ext IH] using rev_ind.
  - exists []. now rewrite !app_nil_r.
  - destruct IH as [t Ht]. rewrite app_assoc, vals_snoc, Ht.
    eexists. rewrite <- app_assoc. reflexivity.
Qed.

(* appending to a heap does not change what the old nodes denote *)
Lemma sem_old : forall h ext n o, n < List.length h -> sem (h ++ ext) n o = sem h n o.
Proof.
  intros h ext n o Hn. unfold Denote.sem. destruct (vals_app h ext) as [t ->].
  rewrite app_nth1; [reflexivity|]. now rewrite vals_length.
Qed.

(* a node appended at the end denotes interp over what its inputs denote *)
Lemma sem_new : forall h nd o,
  sem (h ++ [nd]) (List.length h) o =
  interp (npay nd) (nouts nd)
         (map (fun x => (fst x, sem h (fst (snd x)) (snd (snd x)))) (nins nd)) o.
Proof.
  intros h nd o. unfold Denote.sem. rewrite vals_snoc.
  rewrite app_nth2; rewrite vals_length; [|lia]. rewrite Nat.sub_diag. reflexivity.
Qed.

Lemma sem_unfold : forall h n nd o, topo h -> nth_error h n = Some nd ->
  sem h n o = interp (npay nd) (nouts nd)
                     (map (fun x => (fst x, sem h (fst (snd x)) (snd (snd x)))) (nins nd)) o.
Proof.
  intros h n nd o Ht Hn.
  destruct (nth_error_split h n Hn) as (h1 & h2 & -> & Hlen).
  replace (h1 ++ nd :: h2) with ((h1 ++ [nd]) ++ h2) by (rewrite <- app_assoc; reflexivity).
  rewrite sem_old by (rewrite app_length; simpl; lia).
  rewrite <- Hlen, sem_new. f_equal.
  apply map_ext_in. intros [i [p po]] Hin. simpl. f_equal.
  assert (Hp : p < List.length h1).
  { rewrite Hlen. apply (Ht n nd Hn). unfold parents. apply in_map_iff. now exists (i, (p, po)). }
  rewrite sem_old by (rewrite app_length; simpl; lia).
  rewrite sem_old by lia. reflexivity.
Qed.

End SemLemmas.

Lemma combine_seq_In : forall A (l : list A) k n x, nth_error l n = Some x ->
  In (k + n, x) (combine (seq k (List.length l)) l).
Proof.
  induction l as [|y l IH]; intros k n x Hn; [destruct n; discriminate|].
  destruct n as [|n]; simpl in *.
  - injection Hn as ->. left. now rewrite Nat.add_0_r.
  - right. replace (k + S n) with (S k + n) by lia. now apply IH.
Qed.

Lemma topob_topo : forall P (h : list (node P)), topob h = true -> topo h.
Proof.
  intros P h H n nd Hn p Hp. unfold topob in H. rewrite forallb_forall in H.
  specialize (H _ (combine_seq_In _ h 0 n nd Hn)). simpl in H. rewrite forallb_forall in H.
  specialize (H p Hp). now apply Nat.ltb_lt in H.
Qed.

(* ------------------------------------------------------------------ engine *)
Section EngineLemmas.
Variable P : Type.
Variables St R Ou : Type.
Variable visit : St -> nat -> node P -> list (string * Ou) -> res (St * R).
Variable output : St -> R -> string -> res Ou.
Variable h : list (node P).

Notation gather := (gather output).
Notation loop := (loop visit output).

(* what a completed scan returned: one transformed output per input, in order *)
Lemma gather_spec : forall st done ins inputs,
  gather st done ins = Ok (Ready inputs) ->
  Forall2 (fun i x => fst x = fst i /\
                      exists r, lookupn (fst (snd i)) done = Some r /\
                                output st r (snd (snd i)) = Ok (snd x)) ins inputs.
Proof.
  intros st done ins. induction ins as [|[iname [p oname]] ins IH]; simpl; intros inputs H.
  - injection H as <-. constructor.
  - destruct (lookupn p done) as [r|] eqn:Hl; [|discriminate].
    destruct (output st r oname) as [o|] eqn:Ho; simpl in H; [|discriminate].
    destruct (gather st done ins) as [[q|l]|] eqn:Hg; simpl in H; try discriminate.
    injection H as <-. constructor; [|now apply IH].
    simpl. split; [reflexivity|]. exists r. split; assumption.
Qed.

Variable Inv : list (nat * R) -> St -> Prop.
Hypothesis Hvisit : forall done st n nd inputs st' r,
  Inv done st -> nth_error h n = Some nd -> lookupn n done = None ->
  gather st done (nins nd) = Ok (Ready inputs) ->
  visit st n nd inputs = Ok (st', r) -> Inv ((n, r) :: done) st'.

Lemma loop_inv : forall fuel todo done st done' st',
  Inv done st -> loop fuel h todo done st = Ok (done', st') -> Inv done' st'.
Proof.
  induction fuel as [|f IH]; intros todo done st done' st' HI H; simpl in H; [discriminate|].
  destruct todo as [|n rest]; [injection H as <- <-; exact HI|].
  destruct (lookupn n done) eqn:Hl; [eapply IH; eassumption|].
  destruct (nth_error h n) as [nd|] eqn:Hn; [|discriminate].
  destruct (gather st done (nins nd)) as [[p|inputs]|] eqn:Hg; try discriminate.
  - eapply IH; eassumption.
  - destruct (visit st n nd inputs) as [[st1 r]|] eqn:Hv; [|discriminate].
    eapply IH; [|eassumption]. eapply Hvisit; eassumption.
Qed.

Lemma transform_inv : forall sinks st st' rs done,
  Inv [] st -> transform visit output h sinks st = Ok (st', rs, done) ->
  Inv done st' /\ Forall2 (fun s r => lookupn s done = Some r) sinks rs.
Proof.
  intros sinks st st' rs done HI H. unfold transform in H.
  destruct (loop (engine_fuel h sinks) h (rev sinks) [] st) as [[d s]|] eqn:Hl; simpl in H; [|discriminate].
  match type of H with bind ?m _ = _ => destruct m as [rs0|] eqn:Hm; simpl in H; [|discriminate] end.
  injection H as <- <- <-.
  split; [eapply loop_inv; eassumption|].
  clear Hl. revert rs0 Hm. induction sinks as [|x sinks IHs]; simpl; intros rs0 Hm.
  - injection Hm as <-. constructor.
  - destruct (lookupn x d) eqn:Hx; simpl in Hm; [|discriminate].
    match type of Hm with bind ?m _ = _ => destruct m as [rs1|] eqn:Hm1; simpl in Hm; [|discriminate] end.
    injection Hm as <-. constructor; [assumption|]. now apply IHs.
Qed.

End EngineLemmas.

(* ------------------------------------------------------------------ results that denote their originals *)
Lemma out_node_ok : forall P (h' : list (node P)) r o x,
  out_node h' r o = Ok x -> x = (r, o) /\ r < List.length h' /\
  exists nd, nth_error h' r = Some nd /\ smemb o (nouts nd) = true.
Proof.
  intros P h' r o x H. unfold out_node in H.
  destruct (nth_error h' r) as [nd|] eqn:Hn; [|discriminate].
  destruct (smemb o (nouts nd)) eqn:Hm; [|discriminate]. injection H as <-.
  split; [reflexivity|]. split; [apply nth_error_Some; congruence|]. now exists nd.
Qed.

Section Rep.
Variable P V : Type.
Variable interp : option P -> list string -> list (string * V) -> string -> V.
Notation sem := (sem interp).

(* a node appended to the result heap with the payload and outputs of an input node, and
   inputs that denote what that node's inputs denote, denotes what that node denotes *)
Lemma new_node_sem : forall (h h' : list (node P)) n nd nd',
  topo h -> nth_error h n = Some nd ->
  npay nd' = npay nd -> nouts nd' = nouts nd ->
  Forall2 (fun i x => fst x = fst i /\
                      sem h' (fst (snd x)) (snd (snd x)) = sem h (fst (snd i)) (snd (snd i)))
          (nins nd) (nins nd') ->
  forall o, sem (h' ++ [nd']) (List.length h') o = sem h n o.
Proof.
  intros h h' n nd nd' Ht Hn Hp Ho HF o.
  rewrite sem_new, (sem_unfold _ _ interp h n nd o Ht Hn), Hp, Ho. f_equal.
  induction HF as [|i x li lx [H1 H2] _ IH]; [reflexivity|].
  simpl. rewrite H1, H2, IH. reflexivity.
Qed.

(* the invariant shared by the transformers whose NodeLike is a node of the result heap *)
Definition reps (h h' : list (node P)) (done : list (nat * nat)) : Prop :=
  forall m r, In (m, r) done -> r < List.length h' /\ forall o, sem h' r o = sem h m o.

Lemma reps_app : forall h h' ext done, reps h h' done -> reps h (h' ++ ext) done.
Proof.
  intros h h' ext done H m r Hin. destruct (H m r Hin) as [Hl Hs].
  split; [rewrite app_length; lia|]. intros o. rewrite sem_old by assumption. apply Hs.
Qed.

Lemma gathered_sem : forall (h h' : list (node P)) done ins (inputs : list (string * (nat * string))),
  reps h h' done ->
  Forall2 (fun i x => fst x = fst i /\
                      exists r, lookupn (fst (snd i)) done = Some r /\
                                out_node h' r (snd (snd i)) = Ok (snd x)) ins inputs ->
  Forall2 (fun i x => fst x = fst i /\
                      sem h' (fst (snd x)) (snd (snd x)) = sem h (fst (snd i)) (snd (snd i)))
          ins inputs.
Proof.
  intros h h' done ins inputs HR HF.
  induction HF as [|i x li lx [H1 (r & Hl & Ho)] _ IH]; constructor; [|assumption].
  split; [assumption|]. apply out_node_ok in Ho. destruct Ho as (Hx & _).
  rewrite Hx. simpl. apply (HR _ _ (lookupn_In _ _ _ _ Hl)).
Qed.

Lemma gathered_lt : forall (h' : list (node P)) (done : list (nat * nat)) ins (inputs : list (string * (nat * string))),
  Forall2 (fun i x => fst x = fst i /\
                      exists r, lookupn (fst (snd i)) done = Some r /\
                                out_node h' r (snd (snd i)) = Ok (snd x)) ins inputs ->
  Forall (fun x => fst (snd x) < List.length h') inputs.
Proof.
  intros h' done ins inputs HF.
  induction HF as [|i x li lx [H1 (r & Hl & Ho)] _ IH]; constructor; [|assumption].
  apply out_node_ok in Ho. destruct Ho as (Hx & Hlt & _). rewrite Hx. exact Hlt.
Qed.

End Rep.

Lemma topo_snoc : forall P (h' : list (node P)) nd',
  topo h' -> Forall (fun x => fst (snd x) < List.length h') (nins nd') -> topo (h' ++ [nd']).
Proof.
  intros P h' nd' Ht HF n nd Hn p Hp.
  destruct (Nat.lt_ge_cases n (List.length h')) as [Hlt|Hge].
  - rewrite nth_error_app1 in Hn by assumption. eapply Ht; eassumption.
  - rewrite nth_error_app2 in Hn by assumption.
    destruct (n - List.length h') as [|k] eqn:Hk; simpl in Hn; [|destruct k; discriminate].
    injection Hn as <-. unfold parents in Hp. apply in_map_iff in Hp. destruct Hp as (x & <- & Hx).
    rewrite Forall_forall in HF. specialize (HF x Hx). lia.
Qed.

Lemma topo_nil : forall P, topo (@nil (node P)).
Proof. intros P n nd Hn. destruct n; discriminate. Qed.

(* ------------------------------------------------------------------ string-keyed association lists *)
Lemma lookup_None_smemb : forall A k (l : list (string * A)), lookup k l = None <-> smemb k (map fst l) = false.
Proof.
  induction l as [|[k' v] l IH]; simpl; [tauto|].
  destruct (String.eqb k k'); simpl; [split; discriminate|exact IH].
Qed.

Lemma lookup_map_snd : forall A B (G : A -> B) k (l : list (string * A)),
  lookup k (map (fun x => (fst x, G (snd x))) l) = option_map G (lookup k l).
Proof.
  induction l as [|[k' v] l IH]; simpl; [reflexivity|].
  destruct (String.eqb k k'); [reflexivity|exact IH].
Qed.

Lemma smemb_In : forall k l, smemb k l = true <-> In k l.
Proof.
  intros k l. unfold smemb. rewrite existsb_exists. split.
  - intros (x & Hx & He). apply String.eqb_eq in He. now subst.
  - intros H. exists k. split; [assumption|apply String.eqb_refl].
Qed.

(* ------------------------------------------------------------------ engine, with a predicate on visited nodes *)
(* every node the loop visits satisfies any predicate that holds of the sinks and is closed
   under "is a parent of" (reachability); the visit step may use it *)
Section EngineReach.
Variable P : Type.
Variables St R Ou : Type.
Variable visit : St -> nat -> node P -> list (string * Ou) -> res (St * R).
Variable output : St -> R -> string -> res Ou.
Variable h : list (node P).
Variable Rch : nat -> Prop.
Hypothesis Rch_parent : forall n nd p, Rch n -> nth_error h n = Some nd -> In p (parents nd) -> Rch p.
Variable Inv : list (nat * R) -> St -> Prop.
Hypothesis Hvisit : forall done st n nd inputs st' r,
  Rch n -> Inv done st -> nth_error h n = Some nd -> lookupn n done = None ->
  gather output st done (nins nd) = Ok (Ready inputs) ->
  visit st n nd inputs = Ok (st', r) -> Inv ((n, r) :: done) st'.

Lemma gather_push_parent : forall st done ins p, gather output st done ins = Ok (Push p) ->
  In p (map (fun x => fst (snd x)) ins).
Proof.
  intros st done ins. induction ins as [|[iname [q oname]] ins IH]; simpl; intros p H; [discriminate|].
  destruct (lookupn q done) as [r|].
  - destruct (output st r oname) as [o|]; simpl in H; [|discriminate].
    destruct (gather output st done ins) as [[q'|l]|] eqn:Hg; simpl in H; try discriminate.
    injection H as <-. right. now apply IH.
  - injection H as <-. now left.
Qed.

Lemma loop_inv_r : forall fuel todo done st done' st',
  Forall Rch todo -> Inv done st -> loop visit output fuel h todo done st = Ok (done', st') -> Inv done' st'.
Proof.
  induction fuel as [|f IH]; intros todo done st done' st' HR HI H; simpl in H; [discriminate|].
  destruct todo as [|n rest]; [injection H as <- <-; exact HI|].
  inversion HR as [|? ? Hn HR']; subst.
  destruct (lookupn n done) eqn:Hl; [eapply IH; eassumption|].
  destruct (nth_error h n) as [nd|] eqn:Hnd; [|discriminate].
  destruct (gather output st done (nins nd)) as [[p|inputs]|] eqn:Hg; try discriminate.
  - eapply IH; [|eassumption|eassumption]. constructor; [|assumption].
    eapply Rch_parent; [exact Hn|exact Hnd|]. unfold parents. eapply gather_push_parent; eassumption.
  - destruct (visit st n nd inputs) as [[st1 r]|] eqn:Hv; [|discriminate].
    eapply IH; [eassumption| |eassumption]. eapply Hvisit; eassumption.
Qed.

Lemma transform_inv_r : forall sinks st st' rs done,
  Forall Rch sinks -> Inv [] st -> transform visit output h sinks st = Ok (st', rs, done) ->
  Inv done st' /\ Forall2 (fun s r => lookupn s done = Some r) sinks rs.
Proof.
  intros sinks st st' rs done HR HI H. unfold transform in H.
  destruct (loop visit output (engine_fuel h sinks) h (rev sinks) [] st) as [[d s]|] eqn:Hl; simpl in H; [|discriminate].
  match type of H with bind ?m _ = _ => destruct m as [rs0|] eqn:Hm; simpl in H; [|discriminate] end.
  injection H as <- <- <-.
  split; [eapply loop_inv_r; [|eassumption|eassumption]; apply Forall_rev; assumption|].
  clear Hl HR. revert rs0 Hm. induction sinks as [|x sinks IHs]; simpl; intros rs0 Hm.
  - injection Hm as <-. constructor.
  - destruct (lookupn x d) eqn:Hx; simpl in Hm; [|discriminate].
    match type of Hm with bind ?m _ = _ => destruct m as [rs1|] eqn:Hm1; simpl in Hm; [|discriminate] end.
    injection Hm as <-. constructor; [assumption|]. now apply IHs.
Qed.

End EngineReach.
