(* Proofs about Graph/ExportSession.v: whatever sequence of writes and replacements of its
   graph a Cascade object goes through, the file a name holds at the end reads back equal to
   the graph the object had when that name was written LAST (not to an earlier graph of the
   object), and names that were not written keep their content.  By induction over the list
   of operations: no bound on its length. *)
From Coq Require Import List String Bool Arith Lia.
From EKW Require Import Graph.GStore Graph.Export Graph.ExportProofs Graph.ExportSession.
Import ListNotations.
Open Scope string_scope.
Open Scope list_scope.

Lemma lookup_dict_set_same : forall A k (v : A) l, lookup k (dict_set k v l) = Some v.
Proof.
  intros A k v l. induction l as [|[k' v'] r IH]; simpl.
  - rewrite String.eqb_refl. reflexivity.
  - destruct (String.eqb k k') eqn:E; simpl.
    + rewrite String.eqb_refl. reflexivity.
    + rewrite E. exact IH.
Qed.

Lemma lookup_dict_set_other : forall A k k' (v : A) l, String.eqb k' k = false ->
  lookup k (dict_set k' v l) = lookup k l.
Proof.
  intros A k k' v l Hne.
  assert (Hne' : String.eqb k k' = false) by (rewrite String.eqb_sym; exact Hne).
  induction l as [|[k2 v2] r IH]; simpl.
  - rewrite Hne'. reflexivity.
  - destruct (String.eqb k' k2) eqn:E; simpl.
    + apply String.eqb_eq in E. subst k2. rewrite Hne'. reflexivity.
    + destruct (String.eqb k k2); [reflexivity | exact IH].
Qed.

Section SessionProofs.
Variable P : Type.
Variable peqb : P -> P -> bool.
Variable pser : P -> P.
Variable static_order : deps_t -> res (list string).
Hypothesis static_order_sound : forall deps order,
  static_order deps = Ok order -> topo_okb deps order = true.
Hypothesis static_order_complete : forall deps,
  (exists o, topo_okb deps o = true) -> exists order, static_order deps = Ok order.
Variable F : Type.
Variable dill_dump : sgraph P -> F.
Variable dill_load : F -> res (sgraph P).
Hypothesis dill_roundtrip : forall d, dill_load (dill_dump d) = Ok d.

Notation graph := (graph P).
Notation cop := (cop P).
Notation cstate := (@cstate P F).
Notation crun := (crun P pser F dill_dump).
Notation cstep := (cstep P pser F dill_dump).

(* the domain of the property *)
Definition in_domain (g : graph) : Prop :=
  wf P g /\ kw_ok P g /\ unique_names P g /\ payload_through P peqb pser g.

(* "file reads back equal to g" *)
Definition reads_back (file : F) (g : graph) : Prop :=
  exists g', cascade_from_serialised P static_order F dill_load file = Ok g' /\
             graph_eq P peqb g' g = Ok true.

Lemma write_ok : forall g, in_domain g ->
  exists file, cascade_serialise P pser F dill_dump g = Ok file /\ reads_back file g.
Proof.
  intros g [Hwf [Hkw [Hun Hpay]]].
  destruct (roundtrip_file P peqb pser static_order static_order_sound static_order_complete
              F dill_dump dill_load dill_roundtrip g Hwf Hkw Hun Hpay) as [file [g' [Hs [Hd He]]]].
  exists file. split; [exact Hs|]. exists g'. split; assumption.
Qed.

Lemma crun_app : forall a b (st : cstate),
  crun st (a ++ b) = bind (crun st a) (fun st' => crun st' b).
Proof.
  induction a as [|op a IH]; intros b st; simpl; [reflexivity|].
  destruct (cstep st op) as [st1|e]; simpl; [apply IH | reflexivity].
Qed.

Lemma written_app : forall a b (g : graph),
  written P g (a ++ b) = written P g a ++ written P (cur P g a) b.
Proof.
  induction a as [|[f|g'] a IH]; intros b g; simpl; [reflexivity | rewrite IH; reflexivity | apply IH].
Qed.

Lemma cur_app : forall a b (g : graph), cur P g (a ++ b) = cur P (cur P g a) b.
Proof. induction a as [|[f|g'] a IH]; intros b g; simpl; [reflexivity | apply IH | apply IH]. Qed.

(* a session whose written graphs are in the domain never fails, and the object ends with
   the graph it was given last *)
Lemma crun_ok : forall ops (st : cstate), Forall in_domain (written P (c_graph st) ops) ->
  exists st', crun st ops = Ok st' /\ c_graph st' = cur P (c_graph st) ops.
Proof.
  induction ops as [|[f|g'] ops IH]; intros st Hdom; simpl in *.
  - exists st. split; reflexivity.
  - inversion Hdom as [|x l Hg Hrest]; subst.
    destruct (write_ok _ Hg) as [file [Hs _]]. rewrite Hs. cbn [bind].
    destruct (IH (mkC (c_graph st) (dict_set f file (c_files st))) Hrest) as [st' [Hr Hc]].
    exists st'. split; [exact Hr | exact Hc].
  - destruct (IH (mkC g' (c_files st)) Hdom) as [st' [Hr Hc]].
    exists st'. split; [exact Hr | exact Hc].
Qed.

(* names that are not written keep their content *)
Lemma crun_keeps : forall ops (st st' : cstate) file, crun st ops = Ok st' -> writes P file ops = false ->
  lookup file (c_files st') = lookup file (c_files st).
Proof.
  induction ops as [|[f|g'] ops IH]; intros st st' file Hr Hw; simpl in *.
  - injection Hr as <-. reflexivity.
  - apply orb_false_iff in Hw. destruct Hw as [Hne Hw].
    destruct (cascade_serialise P pser F dill_dump (c_graph st)) as [x|e]; simpl in Hr; [|discriminate Hr].
    rewrite (IH _ _ _ Hr Hw). simpl. apply lookup_dict_set_other. exact Hne.
  - rewrite (IH _ _ _ Hr Hw). reflexivity.
Qed.

(* THE session theorem: after any session, the file written last under `file` reads back
   equal to the graph the object had at that write *)
Theorem session_file : forall (g0 : graph) (files : list (string * F)) ops1 file ops2,
  Forall in_domain (written P g0 (ops1 ++ CWrite file :: ops2)) ->
  writes P file ops2 = false ->
  exists st' content,
    crun (cnew P F g0 files) (ops1 ++ CWrite file :: ops2) = Ok st' /\
    c_graph st' = cur P g0 (ops1 ++ CWrite file :: ops2) /\
    lookup file (c_files st') = Some content /\
    reads_back content (cur P g0 ops1).
Proof.
  intros g0 files ops1 file ops2 Hdom Hnw.
  destruct (crun_ok _ (cnew P F g0 files) Hdom) as [st' [Hr Hc]].
  exists st'. rewrite Hr.
  rewrite written_app in Hdom. apply Forall_app in Hdom. destruct Hdom as [Hd1 Hd2].
  destruct (crun_ok ops1 (cnew P F g0 files) Hd1) as [st1 [Hr1 Hc1]]. simpl in Hc1.
  rewrite crun_app in Hr. rewrite Hr1 in Hr. cbn [bind] in Hr. simpl in Hr, Hd2.
  inversion Hd2 as [|x l Hg Hrest]; subst.
  destruct (write_ok _ Hg) as [content [Hs Hback]].
  rewrite Hc1 in Hr. rewrite Hs in Hr. cbn [bind] in Hr.
  exists content. split; [reflexivity|]. split; [exact Hc|]. split.
  - rewrite (crun_keeps _ _ _ _ Hr Hnw). simpl. apply lookup_dict_set_same.
  - exact Hback.
Qed.

(* names never written in the session still hold what they held before *)
Theorem session_other_files : forall (g0 : graph) (files : list (string * F)) ops st' file,
  crun (cnew P F g0 files) ops = Ok st' -> writes P file ops = false ->
  lookup file (c_files st') = lookup file files.
Proof. intros g0 files ops st' file Hr Hw. exact (crun_keeps _ _ _ _ Hr Hw). Qed.

End SessionProofs.
