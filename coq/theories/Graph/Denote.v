(* What a graph computes.  A node's output denotes  interp payload outputs [(iname, value
   of the connected parent output)] oname ; "the same expression over payloads" is equality
   of [sem] under EVERY interpretation [interp] of payloads into EVERY value type V.  The
   free interpretation (V := expr, interp := E) gives the syntactic expression tree; it is
   what the checkers evaluate.

   Heaps are the id-addressed stores of Graph/GStore.v.  [vals] runs over the heap from
   index 0 upwards, so a node sees the values of smaller indices only: on a heap whose
   inputs point to smaller indices (the harness numbering, see GStore.v) [sem] satisfies
   the expected unfolding equation (EngineProofs.sem_unfold).  No proofs in this file. *)
From Coq Require Import List String Bool Arith.
From EKW Require Import Graph.GStore.
Import ListNotations.
Open Scope string_scope.
Open Scope list_scope.

Section Sem.
Variable P V : Type.
Variable interp : option P -> list string -> list (string * V) -> string -> V.

(* value of a reference that points outside the heap: cannot occur in Python (pointers do
   not dangle); every model function answers Err "model:dangling" before using it *)
Definition dv : string -> V := fun _ => interp None [] [] "".

Definition nodeval (acc : list (string -> V)) (nd : node P) : string -> V :=
  fun o => interp (npay nd) (nouts nd)
             (map (fun x => (fst x, nth (fst (snd x)) acc dv (snd (snd x)))) (nins nd)) o.

Definition vals (h : list (node P)) : list (string -> V) :=
  fold_left (fun acc nd => acc ++ [nodeval acc nd]) h [].

(* value of output [o] of the node at index [n] *)
Definition sem (h : list (node P)) (n : nat) (o : string) : V := nth n (vals h) dv o.

End Sem.

Arguments dv {P V}. Arguments nodeval {P V}. Arguments vals {P V}. Arguments sem {P V}.

(* the free interpretation *)
Inductive expr (P : Type) : Type :=
  E (pay : option P) (outs : list string) (args : list (string * expr P)) (o : string).
Arguments E {P}.

Definition denote {P} (h : list (node P)) (n : nat) (o : string) : expr P := sem E h n o.

(* every input points to a smaller index (acyclic, numbered parents first) *)
Definition topo {P} (h : list (node P)) : Prop :=
  forall n nd, nth_error h n = Some nd -> forall p, In p (parents nd) -> p < n.

Definition topob {P} (h : list (node P)) : bool :=
  forallb (fun x => forallb (fun p => Nat.ltb p (fst x)) (parents (snd x)))
          (combine (seq 0 (List.length h)) h).
