(* Id-addressed model of earthkit.workflows.graph: Node, Output, Graph.nodes().
   Python Node objects form a pointer DAG; here a node lives at an index of `heap`
   and an input  iname -> Output(parent, oname)  is  (iname, (parent index, oname)).
   Convention (trusted glue, harness/c12.py): the harness numbers the objects of a real
   graph in a topological order (an object can only point to objects that exist), so
   "acyclic" is "every input points to a smaller index".  No proofs in this file. *)
From Coq Require Import List String Bool Arith.
Import ListNotations.
Open Scope string_scope.
Open Scope list_scope.

Inductive res (A : Type) : Type := Ok (a : A) | Err (e : string).
Arguments Ok {A} a.
Arguments Err {A} e.

Definition bind {A B} (r : res A) (f : A -> res B) : res B :=
  match r with Ok a => f a | Err e => Err e end.

Definition memb (n : nat) (l : list nat) : bool := existsb (Nat.eqb n) l.
Definition smemb (s : string) (l : list string) : bool := existsb (String.eqb s) l.

Fixpoint lookup {A} (k : string) (l : list (string * A)) : option A :=
  match l with
  | [] => None
  | (k', v) :: r => if String.eqb k k' then Some v else lookup k r
  end.

Definition DEFAULT_OUTPUT : string := "0".

Section Store.
Variable P : Type.   (* payloads *)

(* Node: name, outputs, payload, inputs (a dict: insertion ordered, keys distinct) *)
Record node := mkNode {
  nname : string;
  nouts : list string;
  npay : option P;
  nins : list (string * (nat * string)) }.

(* Graph(sinks) *)
Record graph := mkGraph { heap : list node; sinks : list nat }.

Definition parents (nd : node) : list nat := map (fun x => fst (snd x)) (nins nd).

(* Node.__init__(self, name, outputs=None, payload=None, **kwargs): a keyword that is
   also a parameter name cannot be bound twice -> TypeError.  Inputs are given as Output
   objects here (already resolved). *)
Definition reserved_ctor : list string := ["self"; "name"; "outputs"; "payload"].

Definition mk_node (name : string) (outs : option (list string)) (pay : option P)
           (kw : list (string * (nat * string))) : res node :=
  if existsb (fun k => smemb k reserved_ctor) (map fst kw) then Err "TypeError"
  else Ok (mkNode name (match outs with None => [DEFAULT_OUTPUT] | Some o => o end) pay kw).

(* Node.get_output(name=None) *)
Definition get_output (nd : node) (o : option string) : res string :=
  let name := match o with None => DEFAULT_OUTPUT | Some n => n end in
  if smemb name (nouts nd) then Ok name else Err "AttributeError".

(* Graph.nodes(forwards=False): stack loop.  `todo` has its top at the head, `done` holds
   the yielded nodes, latest first.  Per iteration: pop; skip if done; push every input's
   parent that is not done (the last one pushed ends on top); yield; mark done. *)
Fixpoint dfs (fuel : nat) (h : list node) (todo : list nat) (done : list (nat * node))
  : res (list (nat * node)) :=
  match fuel with
  | O => Err "model:OutOfFuel"
  | S f =>
      match todo with
      | [] => Ok (rev done)
      | n :: rest =>
          if memb n (map fst done) then dfs f h rest done
          else match nth_error h n with
               | None => Err "model:dangling"   (* no Python counterpart: pointers cannot dangle *)
               | Some nd =>
                   dfs f h (rev (filter (fun p => negb (memb p (map fst done))) (parents nd)) ++ rest)
                       ((n, nd) :: done)
               end
      end
  end.

Definition fuel_of (g : graph) : nat :=
  S (List.length (sinks g) + list_sum (map (fun nd => S (List.length (nins nd))) (heap g))).

Definition nodes (g : graph) : res (list (nat * node)) :=
  dfs (fuel_of g) (heap g) (rev (sinks g)) [].

(* What the code reads off a node: src.parent.name, src.name for every input.
   `name_of` is only applied to parents of nodes returned by `nodes`, which has already
   answered Err "model:dangling" if one of them is not in the heap. *)
Definition name_of (h : list node) (p : nat) : string :=
  match nth_error h p with Some nd => nname nd | None => "" end.

Record vnode := mkV {
  vname : string;
  vouts : list string;
  vpay : option P;
  vins : list (string * (string * string)) }.

Definition view (h : list node) (nd : node) : vnode :=
  mkV (nname nd) (nouts nd) (npay nd)
      (map (fun x => (fst x, (name_of h (fst (snd x)), snd (snd x)))) (nins nd)).

Definition vnodes (g : graph) : res (list vnode) :=
  bind (nodes g) (fun ns => Ok (map (fun x => view (heap g) (snd x)) ns)).

End Store.

Arguments mkNode {P}.
Arguments nname {P}. Arguments nouts {P}. Arguments npay {P}. Arguments nins {P}.
Arguments mkGraph {P}. Arguments heap {P}. Arguments sinks {P}.
Arguments parents {P}. Arguments mk_node {P}. Arguments get_output {P}.
Arguments dfs {P}. Arguments fuel_of {P}. Arguments nodes {P}. Arguments name_of {P}.
Arguments mkV {P}. Arguments vname {P}. Arguments vouts {P}. Arguments vpay {P}. Arguments vins {P}.
Arguments view {P}. Arguments vnodes {P}.
