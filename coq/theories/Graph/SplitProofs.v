(* split_graph: the parts re-joined along the cut edges denote what the input denotes. *)
From Coq Require Import List String Bool Arith Lia.
From EKW Require Import Graph.GStore Graph.Denote Graph.Engine Graph.EngineProofs Graph.Split.
Import ListNotations.
Open Scope string_scope.
Open Scope list_scope.

Lemma lookupn_app_ge : forall A (extra st : list (nat * A)) n,
  (forall s v, In (s, v) extra -> n < s) -> lookupn n (extra ++ st) = lookupn n st.
Proof.
  induction extra as [|[k v] extra IH]; intros st n H; simpl; [reflexivity|].
  destruct (Nat.eqb n k) eqn:E.
  - apply Nat.eqb_eq in E. specialize (H k v (or_introl eq_refl)). lia.
  - apply IH. intros s w Hin. apply (H s w). now right.
Qed.

Lemma Forall2_impl_in : forall A B (R R' : A -> B -> Prop) l l',
  (forall a b, In a l -> R a b -> R' a b) -> Forall2 R l l' -> Forall2 R' l l'.
Proof.
  intros A B R R' l l' H HF. induction HF as [|x y l l' Hxy _ IH]; constructor.
  - apply H; [now left|assumption].
  - apply IH. intros a b Ha. apply H. now right.
Qed.

Section Rj.
Variable P V : Type.
Variable interp : option P -> list string -> list (string * V) -> string -> V.
Notation sem := (sem interp).
Notation sem_rj := (sem_rj interp).
Notation vals_rj := (vals_rj interp).
Notation nodeval_rj := (nodeval_rj interp).

Lemma vals_rj_snoc : forall st h nd, vals_rj st (h ++ [nd]) = vals_rj st h ++ [nodeval_rj st (vals_rj st h) nd].
Proof. intros. unfold Split.vals_rj. rewrite fold_left_app. reflexivity. Qed.

Lemma vals_rj_length : forall st h, List.length (vals_rj st h) = List.length h.
Proof.
  intros st h. induction h as [|nd h IH] using rev_ind; [reflexivity|].
  rewrite vals_rj_snoc, !app_length, IH. reflexivity.
Qed.

Lemma vals_rj_app : forall st h ext, exists t, vals_rj st (h ++ ext) = vals_rj st h ++ t.
Proof.
  intros st h ext. induction ext as [|nd ext IH] using rev_ind.
  - exists []. now rewrite !app_nil_r.
  - destruct IH as [t Ht]. rewrite app_assoc, vals_rj_snoc, Ht.
    eexists. rewrite <- app_assoc. reflexivity.
Qed.

Lemma sem_rj_old : forall st h ext n o, n < List.length h -> sem_rj st (h ++ ext) n o = sem_rj st h n o.
Proof.
  intros st h ext n o Hn. unfold Split.sem_rj. destruct (vals_rj_app st h ext) as [t ->].
  rewrite app_nth1; [reflexivity|]. now rewrite vals_rj_length.
Qed.

(* entries for nodes that do not exist yet do not matter *)
Lemma vals_rj_extra : forall extra st h,
  (forall s v, In (s, v) extra -> List.length h <= s) -> vals_rj (extra ++ st) h = vals_rj st h.
Proof.
  intros extra st h. induction h as [|nd h IH] using rev_ind; intros H; [reflexivity|].
  rewrite app_length in H. simpl in H.
  rewrite !vals_rj_snoc, IH by (intros s v Hin; specialize (H s v Hin); lia).
  f_equal. f_equal. unfold Split.nodeval_rj. rewrite vals_rj_length.
  rewrite lookupn_app_ge; [reflexivity|]. intros s v Hin. specialize (H s v Hin). lia.
Qed.

Lemma sem_rj_stable : forall extra st h ext n o,
  n < List.length h -> (forall s v, In (s, v) extra -> List.length h <= s) ->
  sem_rj (extra ++ st) (h ++ ext) n o = sem_rj st h n o.
Proof.
  intros extra st h ext n o Hn He. rewrite sem_rj_old by assumption.
  unfold Split.sem_rj. now rewrite vals_rj_extra.
Qed.

Lemma sem_rj_new_plain : forall st h nd o, lookupn (List.length h) st = None ->
  sem_rj st (h ++ [nd]) (List.length h) o =
  interp (npay nd) (nouts nd) (map (fun x => (fst x, sem_rj st h (fst (snd x)) (snd (snd x)))) (nins nd)) o.
Proof.
  intros st h nd o Hl. unfold Split.sem_rj. rewrite vals_rj_snoc.
  rewrite app_nth2; rewrite vals_rj_length; [|lia]. rewrite Nat.sub_diag. simpl.
  unfold Split.nodeval_rj. rewrite vals_rj_length, Hl. reflexivity.
Qed.

Lemma sem_rj_new_source : forall st h nd p o o', lookupn (List.length h) st = Some (p, o) ->
  sem_rj st (h ++ [nd]) (List.length h) o' = sem_rj st h p o.
Proof.
  intros st h nd p o o' Hl. unfold Split.sem_rj. rewrite vals_rj_snoc.
  rewrite app_nth2; rewrite vals_rj_length; [|lia]. rewrite Nat.sub_diag. simpl.
  unfold Split.nodeval_rj. rewrite vals_rj_length, Hl. reflexivity.
Qed.

Section WithKey.
Variable K : Type.
Variable keqb : K -> K -> bool.
Variable key : node P -> K.
Variable cut_name : cutedge K -> string.
Variable h : list (node P).
Hypothesis Ht : topo h.

Notation sstate := (sstate P K).

Definition bounded (st : sstate) : Prop := forall s v, In (s, v) (stands st) -> s < List.length (sheap st).

(* st' extends st: more nodes, more cut entries, all about the new nodes *)
Definition extends (st st' : sstate) : Prop :=
  exists ext extra, sheap st' = sheap st ++ ext /\ stands st' = extra ++ stands st /\
    forall s v, In (s, v) extra -> List.length (sheap st) <= s < List.length (sheap st').

Lemma extends_refl : forall st, extends st st.
Proof. intros st. exists [], []. rewrite app_nil_r. split; [reflexivity|]. split; [reflexivity|]. intros s v []. Qed.

Lemma extends_trans : forall a b c, extends a b -> extends b c -> extends a c.
Proof.
  intros a b c (e1 & x1 & H1 & H2 & H3) (e2 & x2 & H4 & H5 & H6).
  exists (e1 ++ e2), (x2 ++ x1). rewrite H4, H1, H5, H2, !app_assoc.
  split; [reflexivity|]. split; [reflexivity|].
  intros s v H. rewrite H1 in H6. rewrite !app_length in *.
  apply in_app_or in H as [H|H].
  - specialize (H6 s v H). rewrite H4, H1, !app_length in H6. lia.
  - specialize (H3 s v H). rewrite H1, app_length in H3. lia.
Qed.

Lemma extends_sem : forall st st' n o, extends st st' -> n < List.length (sheap st) ->
  sem_rj (stands st') (sheap st') n o = sem_rj (stands st) (sheap st) n o.
Proof.
  intros st st' n o (ext & extra & -> & -> & H) Hn. apply sem_rj_stable; [assumption|].
  intros s v Hin. specialize (H s v Hin). lia.
Qed.

Lemma extends_len : forall st st', extends st st' -> List.length (sheap st) <= List.length (sheap st').
Proof. intros st st' (ext & extra & -> & _ & _). rewrite app_length. lia. Qed.

Lemma cut_inputs_spec : forall k dname inputs st st' l,
  bounded st ->
  Forall (fun x => fst (snd (snd x)) < List.length (sheap st)) inputs ->
  cut_inputs keqb cut_name k dname st inputs = (st', l) ->
  extends st st' /\ bounded st' /\
  Forall2 (fun x y => fst y = fst x /\ fst (snd y) < List.length (sheap st') /\
                      sem_rj (stands st') (sheap st') (fst (snd y)) (snd (snd y)) =
                      sem_rj (stands st) (sheap st) (fst (snd (snd x))) (snd (snd (snd x)))) inputs l.
Proof.
  intros k dname inputs. induction inputs as [|[iname [ik [p po]]] rest IH]; intros st st' l Hb HF Hc; simpl in Hc.
  - injection Hc as <- <-. split; [apply extends_refl|]. split; [assumption|constructor].
  - inversion HF as [|? ? Hp HF']; subst. simpl in Hp.
    destruct (keqb ik k).
    + destruct (cut_inputs keqb cut_name k dname st rest) as [st1 l1] eqn:Hr. injection Hc as <- <-.
      destruct (IH st st1 l1 Hb HF' Hr) as (He & Hb1 & H2).
      split; [assumption|]. split; [assumption|]. constructor; [|assumption]. simpl.
      split; [reflexivity|]. split; [pose proof (extends_len _ _ He); lia|].
      now apply extends_sem.
    + match type of Hc with (let '(_, _) := cut_inputs _ _ _ _ ?s1 _ in _) = _ => set (st1 := s1) in * end.
      destruct (cut_inputs keqb cut_name k dname st1 rest) as [st2 l2] eqn:Hr. injection Hc as <- <-.
      set (sid := List.length (sheap st)) in *.
      assert (He1 : extends st st1).
      { eexists _, [(S sid, (p, po))]. split; [reflexivity|]. split; [reflexivity|].
        intros s v [Heq|[]]. injection Heq as <- <-. unfold st1. simpl. rewrite app_length. simpl. unfold sid. lia. }
      assert (Hb1 : bounded st1).
      { intros s v [Heq|Hin].
        - injection Heq as <- <-. unfold st1. simpl. rewrite app_length. simpl. unfold sid. lia.
        - specialize (Hb s v Hin). unfold st1. simpl. rewrite app_length. simpl. lia. }
      assert (HF1 : Forall (fun x => fst (snd (snd x)) < List.length (sheap st1)) rest).
      { eapply Forall_impl; [|exact HF']. intros a Ha. pose proof (extends_len _ _ He1). simpl in *. lia. }
      destruct (IH st1 st2 l2 Hb1 HF1 Hr) as (He2 & Hb2 & H2).
      split; [eapply extends_trans; eassumption|]. split; [assumption|].
      constructor.
      * simpl. split; [reflexivity|].
        assert (Hlen1 : List.length (sheap st1) = S (S sid)) by (unfold st1; simpl; rewrite app_length; simpl; unfold sid; lia).
        split; [pose proof (extends_len _ _ He2); lia|].
        rewrite (extends_sem st1 st2 (S sid) DEFAULT_OUTPUT He2) by lia.
        unfold st1. simpl.
        replace (sheap st ++ [mkNode (cut_name (mkCut ik (name_of (sheap st) p) po k dname iname)) [] None [("input", (p, po))];
                              mkNode (cut_name (mkCut ik (name_of (sheap st) p) po k dname iname)) [DEFAULT_OUTPUT] None []])
          with ((sheap st ++ [mkNode (cut_name (mkCut ik (name_of (sheap st) p) po k dname iname)) [] None [("input", (p, po))]])
                ++ [mkNode (cut_name (mkCut ik (name_of (sheap st) p) po k dname iname)) [DEFAULT_OUTPUT] None []])
          by (rewrite <- app_assoc; reflexivity).
        replace (S sid) with (List.length (sheap st ++ [mkNode (cut_name (mkCut ik (name_of (sheap st) p) po k dname iname)) [] None [("input", (p, po))]]))
          by (rewrite app_length; simpl; unfold sid; lia).
        rewrite (sem_rj_new_source _ _ _ p po).
        2:{ simpl. rewrite app_length. simpl. replace (List.length (sheap st) + 1) with (S (List.length (sheap st))) by lia.
            rewrite Nat.eqb_refl. reflexivity. }
        apply (sem_rj_stable [(_, (p, po))] (stands st) (sheap st)); [assumption|].
        intros s v [Heq|[]]. injection Heq as <- _. rewrite app_length. simpl. lia.
      * eapply Forall2_impl_in; [|exact H2]. simpl. intros a b Hina (Ha & Hb' & Hs). split; [assumption|]. split; [assumption|].
        rewrite Hs. rewrite Forall_forall in HF'. exact (extends_sem st st1 _ _ He1 (HF' a Hina)).
Qed.

Lemma lookupn_bound_none : forall A (l : list (nat * A)) n, (forall s v, In (s, v) l -> s < n) -> lookupn n l = None.
Proof.
  induction l as [|[k v] l IH]; intros n H; simpl; [reflexivity|].
  destruct (Nat.eqb n k) eqn:E.
  - apply Nat.eqb_eq in E. specialize (H k v (or_introl eq_refl)). lia.
  - apply IH. intros s w Hin. apply (H s w). now right.
Qed.

Definition SI (done : list (nat * (K * nat))) (st : sstate) : Prop :=
  bounded st /\
  forall m kr, In (m, kr) done ->
    snd kr < List.length (sheap st) /\ forall o, sem_rj (stands st) (sheap st) (snd kr) o = sem h m o.

Lemma split_output_ok : forall (st : sstate) r o x, split_output st r o = Ok x ->
  x = (fst r, (snd r, o)) /\ snd r < List.length (sheap st).
Proof.
  intros st r o x H. unfold split_output in H.
  destruct (nth_error (sheap st) (snd r)) as [nd|] eqn:Hn; [|discriminate].
  destruct (smemb o (nouts nd)); [|discriminate]. injection H as <-.
  split; [reflexivity|]. apply nth_error_Some. congruence.
Qed.

Lemma split_visit_inv : forall done st n nd inputs st' r,
  SI done st -> nth_error h n = Some nd -> lookupn n done = None ->
  gather split_output st done (nins nd) = Ok (Ready inputs) ->
  split_visit keqb key cut_name st n nd inputs = Ok (st', r) -> SI ((n, r) :: done) st'.
Proof.
  intros done st n nd inputs st' r [Hb HR] Hn _ Hg Hv.
  apply gather_spec in Hg. unfold split_visit in Hv.
  destruct (cut_inputs keqb cut_name (key nd) (nname nd) st inputs) as [st1 l] eqn:Hc.
  injection Hv as <- <-.
  assert (HF : Forall (fun x => fst (snd (snd x)) < List.length (sheap st)) inputs).
  { clear -Hg. induction Hg as [|i x li lx (_ & r & _ & Ho) _ IH]; constructor; [|assumption].
    apply split_output_ok in Ho. destruct Ho as [Hx Hl]. rewrite Hx. exact Hl. }
  destruct (cut_inputs_spec _ _ _ _ _ _ Hb HF Hc) as (He & Hb1 & H2).
  split.
  - intros s v Hin. simpl in *. rewrite app_length. specialize (Hb1 s v Hin). lia.
  - intros m kr [Heq|Hin].
    + injection Heq as <- <-. simpl. split; [rewrite app_length; simpl; lia|]. intros o.
      rewrite sem_rj_new_plain by (apply lookupn_bound_none; exact Hb1).
      rewrite (sem_unfold _ _ interp h n nd o Ht Hn). simpl. f_equal.
      clear Hc HF Hn. revert l H2. induction Hg as [|i x li lx (Hfst & r & Hl & Ho) _ IH]; intros l H2; inversion H2 as [|? y ? ly (Hy1 & _ & Hy2) H2']; subst; [reflexivity|].
      simpl. rewrite (IH _ H2'). f_equal. rewrite Hy1, Hfst, Hy2. f_equal.
      apply split_output_ok in Ho. destruct Ho as [Hx _]. rewrite Hx. simpl.
      apply (HR _ _ (lookupn_In _ _ _ _ Hl)).
    + destruct (HR m kr Hin) as [Hl Hs]. simpl. split; [rewrite app_length; pose proof (extends_len _ _ He); lia|].
      intros o. rewrite sem_rj_old by (pose proof (extends_len _ _ He); lia).
      rewrite (extends_sem st st1 _ _ He Hl). apply Hs.
Qed.

Definition in_part (parts : list (K * list nat)) (x : nat) : Prop :=
  exists k ss, In (k, ss) parts /\ In x ss.

Lemma add_sink_keeps : forall k s l x, in_part l x -> in_part (add_sink keqb k s l) x.
Proof.
  intros k s l x (k0 & ss & Hin & Hx). induction l as [|[k' ss'] l IH]; [contradiction|].
  simpl. destruct Hin as [Heq|Hin].
  - injection Heq as -> ->. destruct (keqb k0 k).
    + exists k0, (ss ++ [s]). split; [now left|apply in_or_app; now left].
    + exists k0, ss. split; [now left|assumption].
  - destruct (keqb k' k).
    + exists k0, ss. split; [now right|assumption].
    + destruct (IH Hin) as (k1 & ss1 & H1 & H2). exists k1, ss1. split; [now right|assumption].
Qed.

Lemma add_sink_adds : forall k s l, in_part (add_sink keqb k s l) s.
Proof.
  intros k s l. induction l as [|[k' ss'] l IH]; simpl.
  - exists k, [s]. split; now left.
  - destruct (keqb k' k).
    + exists k', (ss' ++ [s]). split; [now left|apply in_or_app; right; now left].
    + destruct IH as (k1 & ss1 & H1 & H2). exists k1, ss1. split; [now right|assumption].
Qed.

Lemma fold_add_sink_in : forall rs l kr, In kr rs ->
  in_part (fold_left (fun l kr => add_sink keqb (fst kr) (snd kr) l) rs l) (snd kr).
Proof.
  induction rs as [|x rs IH]; intros l kr Hin; [contradiction|]. simpl.
  destruct Hin as [->|Hin]; [|now apply IH].
  assert (Hk : forall rs l x, in_part l x -> in_part (fold_left (fun l kr => add_sink keqb (fst kr) (snd kr) l) rs l) x).
  { clear. induction rs as [|y rs IH]; intros l x H; [assumption|]. simpl. apply IH. now apply add_sink_keeps. }
  apply Hk. apply add_sink_adds.
Qed.

(* every sink of the input is a sink of one of the parts and, the cut sources standing for
   the outputs they replaced, denotes what it denoted in the input *)
Lemma split_rejoin_sem : forall (g : graph P) r, h = heap g ->
  split_graph keqb key cut_name g = Ok r ->
  exists rs, Forall2 (fun s x => in_part (rparts r) x /\
                                 forall o, sem_rj (rstands r) (rheap r) x o = sem h s o) (sinks g) rs.
Proof.
  intros g r Hh H. unfold split_graph in H. rewrite <- Hh in H.
  destruct (transform (split_visit keqb key cut_name) split_output h (sinks g) (mkS [] [] [] [] [])) as [[[st rs] done]|] eqn:Htr; simpl in H; [|discriminate].
  injection H as <-.
  destruct (transform_inv P _ _ _ _ _ h SI split_visit_inv (sinks g) (mkS [] [] [] [] []) st rs done) as [[Hb HR] HF];
    [split; [intros s v []|intros m kr []]|exact Htr|].
  exists (map snd rs). simpl. clear Htr.
  assert (Hall : forall kr, In kr rs -> in_part (fold_left (fun l kr => add_sink keqb (fst kr) (snd kr) l) rs (ssinks st)) (snd kr))
    by (intros kr Hin; now apply fold_add_sink_in).
  revert Hall. generalize (fold_left (fun l kr => add_sink keqb (fst kr) (snd kr) l) rs (ssinks st)) as parts.
  induction HF as [|s kr ls lr Hl _ IH]; intros parts Hall; simpl; constructor.
  - split; [apply Hall; now left|]. intros o. apply (HR _ _ (lookupn_In _ _ _ _ Hl)).
  - apply IH. intros kr0 Hin. apply Hall. now right.
Qed.

End WithKey.
End Rj.
