(* split_graph_k: the parts re-joined along the cut edges denote what the input denotes. *)
From Coq Require Import List String Bool Arith Lia.
From EKW Require Import Graph.GStore Graph.Denote Graph.Engine Graph.EngineProofs Graph.Split.
Import ListNotations.
Open Scope string_scope.
Open Scope list_scope.

Lemma lookupn_app_ge : forall A (extra st : list (nat * A)) n,
  (forall s v, In (s, v) extra -> n < s) -> lookupn n (extra ++ st) = lookupn n st.
Proof.
  induction extra as [|[k v] extra IH]; intros st n H; simpl; [reflexivity|].
  destruct (Nat.eqb n k) eqn:E.
  - apply Nat.eqb_eq in E. specialize (H k v (or_introl eq_refl)). lia.
  - apply IH. intros s w Hin. apply (H s w). now right.
Qed.

Lemma Forall2_impl_in : forall A B (R R' : A -> B -> Prop) l l',
  (forall a b, In a l -> R a b -> R' a b) -> Forall2 R l l' -> Forall2 R' l l'.
Proof.
  intros A B R R' l l' H HF. induction HF as [|x y l l' Hxy _ IH]; constructor.
  - apply H; [now left|assumption].
  - apply IH. intros a b Ha. apply H. now right.
Qed.

Section Rj.
Variable P V : Type.
Variable interp : option P -> list string -> list (string * V) -> string -> V.
Notation sem := (sem interp).
Notation sem_rj := (sem_rj interp).
Notation vals_rj := (vals_rj interp).
Notation nodeval_rj := (nodeval_rj interp).

Lemma vals_rj_snoc : forall st h nd, vals_rj st (h ++ [nd]) = vals_rj st h ++ [nodeval_rj st (vals_rj st h) nd].
Proof. intros. unfold Split.vals_rj. rewrite fold_left_app. reflexivity. Qed.

Lemma vals_rj_length : forall st h, List.length (vals_rj st h) = List.length h.
Proof.
  intros st h. induction h as [|nd h IH] using rev_ind; [reflexivity|].
  rewrite vals_rj_snoc, !app_length, IH. reflexivity.
Qed.

Lemma vals_rj_app : forall st h ext, exists t, vals_rj st (h ++ ext) = vals_rj st h ++ t.
Proof.
  intros st h ext. induction ext as [|nd ext IH] using rev_ind.
  - exists []. now rewrite !app_nil_r.
  - destruct IH as [t Ht]. rewrite app_assoc, vals_rj_snoc, Ht.
    eexists. rewrite <- app_assoc. reflexivity.
Qed.

Lemma sem_rj_old : forall st h ext n o, n < List.length h -> sem_rj st (h ++ ext) n o = sem_rj st h n o.
Proof.
  intros st h ext n o Hn. unfold Split.sem_rj. destruct (vals_rj_app st h ext) as [t ->].
  rewrite app_nth1; [reflexivity|]. now rewrite vals_rj_length.
Qed.

(* entries for nodes that do not exist yet do not matter *)
Lemma vals_rj_extra : forall extra st h,
  (forall s v, In (s, v) extra -> List.length h <= s) -> vals_rj (extra ++ st) h = vals_rj st h.
Proof.
  intros extra st h. induction h as [|nd h IH] using rev_ind; intros H; [reflexivity|].
  rewrite app_length in H. simpl in H.
  rewrite !vals_rj_snoc, IH by (intros s v Hin; specialize (H s v Hin); lia).
  f_equal. f_equal. unfold Split.nodeval_rj. rewrite vals_rj_length.
  rewrite lookupn_app_ge; [reflexivity|]. intros s v Hin. specialize (H s v Hin). lia.
Qed.

Lemma sem_rj_stable : forall extra st h ext n o,
  n < List.length h -> (forall s v, In (s, v) extra -> List.length h <= s) ->
  sem_rj (extra ++ st) (h ++ ext) n o = sem_rj st h n o.
Proof.
  intros extra st h ext n o Hn He. rewrite sem_rj_old by assumption.
  unfold Split.sem_rj. now rewrite vals_rj_extra.
Qed.

Lemma sem_rj_new_plain : forall st h nd o, lookupn (List.length h) st = None ->
  sem_rj st (h ++ [nd]) (List.length h) o =
  interp (npay nd) (nouts nd) (map (fun x => (fst x, sem_rj st h (fst (snd x)) (snd (snd x)))) (nins nd)) o.
Proof.
  intros st h nd o Hl. unfold Split.sem_rj. rewrite vals_rj_snoc.
  rewrite app_nth2; rewrite vals_rj_length; [|lia]. rewrite Nat.sub_diag. simpl.
  unfold Split.nodeval_rj. rewrite vals_rj_length, Hl. reflexivity.
Qed.

Lemma sem_rj_new_source : forall st h nd p o o', lookupn (List.length h) st = Some (p, o) ->
  sem_rj st (h ++ [nd]) (List.length h) o' = sem_rj st h p o.
Proof.
  intros st h nd p o o' Hl. unfold Split.sem_rj. rewrite vals_rj_snoc.
  rewrite app_nth2; rewrite vals_rj_length; [|lia]. rewrite Nat.sub_diag. simpl.
  unfold Split.nodeval_rj. rewrite vals_rj_length, Hl. reflexivity.
Qed.

Section WithKey.
Variable K : Type.
Variable keqb : K -> K -> bool.
Variable key : node P -> K.
Variable cut_name : cutedge K -> string.
Variable h : list (node P).
Hypothesis Ht : topo h.

Notation sstate := (sstate P K).

Definition bounded (st : sstate) : Prop := forall s v, In (s, v) (stands st) -> s < List.length (sheap st).

(* st' extends st: more nodes, more cut entries, all about the new nodes *)
Definition extends (st st' : sstate) : Prop :=
  exists ext extra, sheap st' = sheap st ++ ext /\ stands st' = extra ++ stands st /\
    forall s v, In (s, v) extra -> List.length (sheap st) <= s < List.length (sheap st').

Lemma extends_refl : forall st, extends st st.
Proof. intros st. exists [], []. rewrite app_nil_r. split; [reflexivity|]. split; [reflexivity|]. intros s v []. Qed.

Lemma extends_trans : forall a b c, extends a b -> extends b c -> extends a c.
Proof.
  intros a b c (e1 & x1 & H1 & H2 & H3) (e2 & x2 & H4 & H5 & H6).
  exists (e1 ++ e2), (x2 ++ x1). rewrite H4, H1, H5, H2, !app_assoc.
  split; [reflexivity|]. split; [reflexivity|].
  intros s v H. rewrite H1 in H6. rewrite !app_length in *.
  apply in_app_or in H as [H|H].
  - specialize (H6 s v H). rewrite H4, H1, !app_length in H6. lia.
  - specialize (H3 s v H). rewrite H1, app_length in H3. lia.
Qed.

Lemma extends_sem : forall st st' n o, extends st st' -> n < List.length (sheap st) ->
  sem_rj (stands st') (sheap st') n o = sem_rj (stands st) (sheap st) n o.
Proof.
  intros st st' n o (ext & extra & -> & -> & H) Hn. apply sem_rj_stable; [assumption|].
  intros s v Hin. specialize (H s v Hin). lia.
Qed.

Lemma extends_len : forall st st', extends st st' -> List.length (sheap st) <= List.length (sheap st').
Proof. intros st st' (ext & extra & -> & _ & _). rewrite app_length. lia. Qed.

Lemma cut_inputs_spec : forall k dname inputs st st' l,
  bounded st ->
  Forall (fun x => fst (snd (snd x)) < List.length (sheap st)) inputs ->
  cut_inputs keqb cut_name k dname st inputs = (st', l) ->
  extends st st' /\ bounded st' /\
  Forall2 (fun x y => fst y = fst x /\ fst (snd y) < List.length (sheap st') /\
                      sem_rj (stands st') (sheap st') (fst (snd y)) (snd (snd y)) =
                      sem_rj (stands st) (sheap st) (fst (snd (snd x))) (snd (snd (snd x)))) inputs l.
Proof.
  intros k dname inputs. induction inputs as [|[iname [ik [p po]]] rest IH]; intros st st' l Hb HF Hc; simpl in Hc.
  - injection Hc as <- <-. split; [apply extends_refl|]. split; [assumption|constructor].
  - inversion HF as [|? ? Hp HF']; subst. simpl in Hp.
    destruct (keqb ik k).
    + destruct (cut_inputs keqb cut_name k dname st rest) as [st1 l1] eqn:Hr. injection Hc as <- <-.
      destruct (IH st st1 l1 Hb HF' Hr) as (He & Hb1 & H2).
      split; [assumption|]. split; [assumption|]. constructor; [|assumption]. simpl.
      split; [reflexivity|]. split; [pose proof (extends_len _ _ He); lia|].
      now apply extends_sem.
    + match type of Hc with (let '(_, _) := cut_inputs _ _ _ _ ?s1 _ in _) = _ => set (st1 := s1) in * end.
      destruct (cut_inputs keqb cut_name k dname st1 rest) as [st2 l2] eqn:Hr. injection Hc as <- <-.
      set (sid := List.length (sheap st)) in *.
      assert (He1 : extends st st1).
      { eexists _, [(S sid, (p, po))]. split; [reflexivity|]. split; [reflexivity|].
        intros s v [Heq|[]]. injection Heq as <- <-. unfold st1. simpl. rewrite app_length. simpl. unfold sid. lia. }
      assert (Hb1 : bounded st1).
      { intros s v [Heq|Hin].
        - injection Heq as <- <-. unfold st1. simpl. rewrite app_length. simpl. unfold sid. lia.
        - specialize (Hb s v Hin). unfold st1. simpl. rewrite app_length. simpl. lia. }
      assert (HF1 : Forall (fun x => fst (snd (snd x)) < List.length (sheap st1)) rest).
      { eapply Forall_impl; [|exact HF']. intros a Ha. pose proof (extends_len _ _ He1). simpl in *. lia. }
      destruct (IH st1 st2 l2 Hb1 HF1 Hr) as (He2 & Hb2 & H2).
      split; [eapply extends_trans; eassumption|]. split; [assumption|].
      constructor.
      * simpl. split; [reflexivity|].
        assert (Hlen1 : List.length (sheap st1) = S (S sid)) by (unfold st1; simpl; rewrite app_length; simpl; unfold sid; lia).
        split; [pose proof (extends_len _ _ He2); lia|].
        rewrite (extends_sem st1 st2 (S sid) DEFAULT_OUTPUT He2) by lia.
        unfold st1. simpl.
        replace (sheap st ++ [mkNode (cut_name (mkCut ik (name_of (sheap st) p) po k dname iname)) [] None [("input", (p, po))];
                              mkNode (cut_name (mkCut ik (name_of (sheap st) p) po k dname iname)) [DEFAULT_OUTPUT] None []])
          with ((sheap st ++ [mkNode (cut_name (mkCut ik (name_of (sheap st) p) po k dname iname)) [] None [("input", (p, po))]])
                ++ [mkNode (cut_name (mkCut ik (name_of (sheap st) p) po k dname iname)) [DEFAULT_OUTPUT] None []])
          by (rewrite <- app_assoc; reflexivity).
        replace (S sid) with (List.length (sheap st ++ [mkNode (cut_name (mkCut ik (name_of (sheap st) p) po k dname iname)) [] None [("input", (p, po))]]))
          by (rewrite app_length; simpl; unfold sid; lia).
        rewrite (sem_rj_new_source _ _ _ p po).
        2:{ simpl. rewrite app_length. simpl. replace (List.length (sheap st) + 1) with (S (List.length (sheap st))) by lia.
            rewrite Nat.eqb_refl. reflexivity. }
        apply (sem_rj_stable [(_, (p, po))] (stands st) (sheap st)); [assumption|].
        intros s v [Heq|[]]. injection Heq as <- _. rewrite app_length. simpl. lia.
      * eapply Forall2_impl_in; [|exact H2]. simpl. intros a b Hina (Ha & Hb' & Hs). split; [assumption|]. split; [assumption|].
        rewrite Hs. rewrite Forall_forall in HF'. exact (extends_sem st st1 _ _ He1 (HF' a Hina)).
Qed.

Lemma lookupn_bound_none : forall A (l : list (nat * A)) n, (forall s v, In (s, v) l -> s < n) -> lookupn n l = None.
Proof.
  induction l as [|[k v] l IH]; intros n H; simpl; [reflexivity|].
  destruct (Nat.eqb n k) eqn:E.
  - apply Nat.eqb_eq in E. specialize (H k v (or_introl eq_refl)). lia.
  - apply IH. intros s w Hin. apply (H s w). now right.
Qed.

Definition SI (done : list (nat * (K * nat))) (st : sstate) : Prop :=
  bounded st /\
  forall m kr, In (m, kr) done ->
    snd kr < List.length (sheap st) /\ forall o, sem_rj (stands st) (sheap st) (snd kr) o = sem h m o.

Lemma split_output_ok : forall (st : sstate) r o x, split_output st r o = Ok x ->
  x = (fst r, (snd r, o)) /\ snd r < List.length (sheap st).
Proof.
  intros st r o x H. unfold split_output in H.
  destruct (nth_error (sheap st) (snd r)) as [nd|] eqn:Hn; [|discriminate].
  destruct (smemb o (nouts nd)); [|discriminate]. injection H as <-.
  split; [reflexivity|]. apply nth_error_Some. congruence.
Qed.

Lemma split_visit_inv : forall done st n nd inputs st' r,
  SI done st -> nth_error h n = Some nd -> lookupn n done = None ->
  gather split_output st done (nins nd) = Ok (Ready inputs) ->
  split_visit keqb key cut_name st n nd inputs = Ok (st', r) -> SI ((n, r) :: done) st'.
Proof.
  intros done st n nd inputs st' r [Hb HR] Hn _ Hg Hv.
  apply gather_spec in Hg. unfold split_visit in Hv.
  destruct (cut_inputs keqb cut_name (key nd) (nname nd) st inputs) as [st1 l] eqn:Hc.
  injection Hv as <- <-.
  assert (HF : Forall (fun x => fst (snd (snd x)) < List.length (sheap st)) inputs).
  { clear -Hg. induction Hg as [|i x li lx (_ & r & _ & Ho) _ IH]; constructor; [|assumption].
    apply split_output_ok in Ho. destruct Ho as [Hx Hl]. rewrite Hx. exact Hl. }
  destruct (cut_inputs_spec _ _ _ _ _ _ Hb HF Hc) as (He & Hb1 & H2).
  split.
  - intros s v Hin. simpl in *. rewrite app_length. specialize (Hb1 s v Hin). lia.
  - intros m kr [Heq|Hin].
    + injection Heq as <- <-. simpl. split; [rewrite app_length; simpl; lia|]. intros o.
      rewrite sem_rj_new_plain by (apply lookupn_bound_none; exact Hb1).
      rewrite (sem_unfold _ _ interp h n nd o Ht Hn). simpl. f_equal.
      clear Hc HF Hn. revert l H2. induction Hg as [|i x li lx (Hfst & r & Hl & Ho) _ IH]; intros l H2; inversion H2 as [|? y ? ly (Hy1 & _ & Hy2) H2']; subst; [reflexivity|].
      simpl. rewrite (IH _ H2'). f_equal. rewrite Hy1, Hfst, Hy2. f_equal.
      apply split_output_ok in Ho. destruct Ho as [Hx _]. rewrite Hx. simpl.
      apply (HR _ _ (lookupn_In _ _ _ _ Hl)).
    + destruct (HR m kr Hin) as [Hl Hs]. simpl. split; [rewrite app_length; pose proof (extends_len _ _ He); lia|].
      intros o. rewrite sem_rj_old by (pose proof (extends_len _ _ He); lia).
      rewrite (extends_sem st st1 _ _ He Hl). apply Hs.
Qed.

Definition in_part (parts : list (K * list nat)) (x : nat) : Prop :=
  exists k ss, In (k, ss) parts /\ In x ss.

Lemma add_sink_keeps : forall k s l x, in_part l x -> in_part (add_sink keqb k s l) x.
Proof.
  intros k s l x (k0 & ss & Hin & Hx). induction l as [|[k' ss'] l IH]; [contradiction|].
  simpl. destruct Hin as [Heq|Hin].
  - injection Heq as -> ->. destruct (keqb k0 k).
    + exists k0, (ss ++ [s]). split; [now left|apply in_or_app; now left].
    + exists k0, ss. split; [now left|assumption].
  - destruct (keqb k' k).
    + exists k0, ss. split; [now right|assumption].
    + destruct (IH Hin) as (k1 & ss1 & H1 & H2). exists k1, ss1. split; [now right|assumption].
Qed.

Lemma add_sink_adds : forall k s l, in_part (add_sink keqb k s l) s.
Proof.
  intros k s l. induction l as [|[k' ss'] l IH]; simpl.
  - exists k, [s]. split; now left.
  - destruct (keqb k' k).
    + exists k', (ss' ++ [s]). split; [now left|apply in_or_app; right; now left].
    + destruct IH as (k1 & ss1 & H1 & H2). exists k1, ss1. split; [now right|assumption].
Qed.

Lemma fold_add_sink_in : forall rs l kr, In kr rs ->
  in_part (fold_left (fun l kr => add_sink keqb (fst kr) (snd kr) l) rs l) (snd kr).
Proof.
  induction rs as [|x rs IH]; intros l kr Hin; [contradiction|]. simpl.
  destruct Hin as [->|Hin]; [|now apply IH].
  assert (Hk : forall rs l x, in_part l x -> in_part (fold_left (fun l kr => add_sink keqb (fst kr) (snd kr) l) rs l) x).
  { clear. induction rs as [|y rs IH]; intros l x H; [assumption|]. simpl. apply IH. now apply add_sink_keeps. }
  apply Hk. apply add_sink_adds.
Qed.

(* every sink of the input is a sink of one of the parts and, the cut sources standing for
   the outputs they replaced, denotes what it denoted in the input *)
Lemma split_rejoin_sem : forall (g : graph P) r, h = heap g ->
  split_graph_k keqb key cut_name g = Ok r ->
  exists rs, Forall2 (fun s x => in_part (rparts r) x /\
                                 forall o, sem_rj (rstands r) (rheap r) x o = sem h s o) (sinks g) rs.
Proof.
  intros g r Hh H. unfold split_graph_k in H. rewrite <- Hh in H.
  destruct (transform (split_visit keqb key cut_name) split_output h (sinks g) (mkS [] [] [] [] [])) as [[[st rs] done]|] eqn:Htr; simpl in H; [|discriminate].
  injection H as <-.
  destruct (transform_inv P _ _ _ _ _ h SI split_visit_inv (sinks g) (mkS [] [] [] [] []) st rs done) as [[Hb HR] HF];
    [split; [intros s v []|intros m kr []]|exact Htr|].
  exists (map snd rs). simpl. clear Htr.
  assert (Hall : forall kr, In kr rs -> in_part (fold_left (fun l kr => add_sink keqb (fst kr) (snd kr) l) rs (ssinks st)) (snd kr))
    by (intros kr Hin; now apply fold_add_sink_in).
  revert Hall. generalize (fold_left (fun l kr => add_sink keqb (fst kr) (snd kr) l) rs (ssinks st)) as parts.
  induction HF as [|s kr ls lr Hl _ IH]; intros parts Hall; simpl; constructor.
  - split; [apply Hall; now left|]. intros o. apply (HR _ _ (lookupn_In _ _ _ _ Hl)).
  - apply IH. intros kr0 Hin. apply Hall. now right.
Qed.

(* ------------------------------------------------------------------ the cuts, exactly *)
(* what is created for one reported cut edge c: a sink and a source carrying the cut's name,
   the sink without outputs, fed (input "input") by output c_sout of the node called
   c_snode and listed among the sinks of the source part; the source without inputs *)
Definition cut_ok (hp : list (node P)) (sl : list (K * list nat)) (c : cutedge K) (pr : nat * nat) : Prop :=
  exists snk src p,
    nth_error hp (fst pr) = Some snk /\ nth_error hp (snd pr) = Some src /\
    nname snk = cut_name c /\ nname src = cut_name c /\
    nouts snk = [] /\ nouts src = [DEFAULT_OUTPUT] /\ nins src = [] /\
    nins snk = [("input", (p, c_sout c))] /\ p < List.length hp /\ name_of hp p = c_snode c /\
    exists k' ss, In (k', ss) sl /\ In (fst pr) ss /\ (k' = c_skey c \/ keqb k' (c_skey c) = true).

Definition sinks_mono (sl sl' : list (K * list nat)) : Prop :=
  forall k ss x, In (k, ss) sl -> In x ss -> exists ss', In (k, ss') sl' /\ In x ss'.

Lemma sinks_mono_refl : forall sl, sinks_mono sl sl.
Proof. intros sl k ss x H1 H2. eauto. Qed.

Lemma sinks_mono_trans : forall a b c, sinks_mono a b -> sinks_mono b c -> sinks_mono a c.
Proof. intros a b c H1 H2 k ss x Ha Hx. destruct (H1 _ _ _ Ha Hx) as (ss' & Hb & Hx'). eapply H2; eassumption. Qed.

Lemma add_sink_mono : forall k s l, sinks_mono l (add_sink keqb k s l).
Proof.
  intros k s l k0 ss x Hin Hx. induction l as [|[k' ss'] l IH]; [contradiction|]. simpl.
  destruct Hin as [Heq|Hin].
  - injection Heq as -> ->. destruct (keqb k0 k).
    + exists (ss ++ [s]). split; [now left|apply in_or_app; now left].
    + exists ss. split; [now left|assumption].
  - destruct (keqb k' k).
    + exists ss. split; [now right|assumption].
    + destruct (IH Hin) as (ss1 & H1 & H2). exists ss1. split; [now right|assumption].
Qed.

Lemma add_sink_adds_key : forall k s l, exists k' ss,
  In (k', ss) (add_sink keqb k s l) /\ In s ss /\ (k' = k \/ keqb k' k = true).
Proof.
  intros k s l. induction l as [|[k' ss'] l IH]; simpl.
  - exists k, [s]. split; [now left|]. split; [now left|now left].
  - destruct (keqb k' k) eqn:E.
    + exists k', (ss' ++ [s]). split; [now left|]. split; [apply in_or_app; right; now left|now right].
    + destruct IH as (k1 & ss1 & H1 & H2 & H3). exists k1, ss1. split; [now right|]. split; assumption.
Qed.

Lemma name_of_app : forall (hp ext : list (node P)) p, p < List.length hp -> name_of (hp ++ ext) p = name_of hp p.
Proof. intros hp ext p Hp. unfold name_of. now rewrite nth_error_app1. Qed.

Lemma cut_ok_ext : forall hp ext sl sl' c pr, cut_ok hp sl c pr -> sinks_mono sl sl' -> cut_ok (hp ++ ext) sl' c pr.
Proof.
  intros hp ext sl sl' c pr (snk & src & p & H1 & H2 & H3 & H4 & H5 & H6 & H7 & H8 & H9 & H10 & k' & ss & H11 & H12 & H13) Hm.
  destruct (Hm _ _ _ H11 H12) as (ss' & Ha & Hb).
  exists snk, src, p.
  rewrite !nth_error_app1 by (apply nth_error_Some; congruence).
  rewrite name_of_app, app_length by assumption.
  repeat (split; [first [assumption|lia]|]). exists k', ss'. auto.
Qed.

Definition CE (st : sstate) : Prop := Forall2 (cut_ok (sheap st) (ssinks st)) (scuts st) (rev (spairs st)).

Lemma Forall2_snoc : forall A B (R : A -> B -> Prop) l l' a b, Forall2 R l l' -> R a b -> Forall2 R (l ++ [a]) (l' ++ [b]).
Proof. intros A B R l l' a b H Hab. induction H; simpl; constructor; auto. Qed.

Lemma cut_inputs_CE : forall k dname inputs st st' l,
  CE st -> Forall (fun x => fst (snd (snd x)) < List.length (sheap st)) inputs ->
  cut_inputs keqb cut_name k dname st inputs = (st', l) ->
  CE st' /\ (exists ext, sheap st' = sheap st ++ ext) /\ sinks_mono (ssinks st) (ssinks st').
Proof.
  intros k dname inputs. induction inputs as [|[iname [ik [p po]]] rest IH]; intros st st' l HC HF Hc; simpl in Hc.
  - injection Hc as <- <-. split; [assumption|]. split; [exists []; now rewrite app_nil_r|apply sinks_mono_refl].
  - inversion HF as [|? ? Hp HF']; subst. simpl in Hp.
    destruct (keqb ik k).
    + destruct (cut_inputs keqb cut_name k dname st rest) as [st1 l1] eqn:Hr. injection Hc as <- <-.
      exact (IH st st1 l1 HC HF' Hr).
    + match type of Hc with (let '(_, _) := cut_inputs _ _ _ _ ?s1 _ in _) = _ => set (st1 := s1) in * end.
      destruct (cut_inputs keqb cut_name k dname st1 rest) as [st2 l2] eqn:Hr. injection Hc as <- <-.
      set (cut := mkCut ik (name_of (sheap st) p) po k dname iname) in *.
      set (sid := List.length (sheap st)) in *.
      assert (HC1 : CE st1).
      { unfold CE, st1. simpl. apply Forall2_snoc.
        - eapply Forall2_impl_in; [|exact HC]. intros c pr _ Hq. eapply cut_ok_ext; [exact Hq|apply add_sink_mono].
        - set (A := mkNode (cut_name cut) [] None [("input", (p, po))]).
          set (B := mkNode (cut_name cut) [DEFAULT_OUTPUT] None []).
          assert (Hs1 : nth_error (sheap st ++ [A; B]) sid = Some A).
          { rewrite nth_error_app2 by (unfold sid; lia). unfold sid. rewrite Nat.sub_diag. reflexivity. }
          assert (Hs2 : nth_error (sheap st ++ [A; B]) (S sid) = Some B).
          { rewrite nth_error_app2 by (unfold sid; lia). unfold sid.
            replace (S (List.length (sheap st)) - List.length (sheap st)) with 1 by lia. reflexivity. }
          exists A, B, p. cbn [fst snd].
          split; [exact Hs1|]. split; [exact Hs2|].
          repeat (split; [reflexivity|]). rewrite app_length.
          split; [simpl; lia|]. split; [apply name_of_app; exact Hp|].
          destruct (add_sink_adds_key ik sid (ssinks st)) as (k' & ss & Ha & Hb & Hc'). exists k', ss. auto. }
      assert (HF1 : Forall (fun x => fst (snd (snd x)) < List.length (sheap st1)) rest).
      { eapply Forall_impl; [|exact HF']. intros a Ha. unfold st1. simpl. rewrite app_length. simpl in *. lia. }
      destruct (IH st1 st2 l2 HC1 HF1 Hr) as (HC2 & (ext & He) & Hm).
      split; [assumption|]. split.
      * eexists. rewrite He. unfold st1. simpl. rewrite <- app_assoc. reflexivity.
      * eapply sinks_mono_trans; [|exact Hm]. unfold st1. simpl. apply add_sink_mono.
Qed.

Lemma split_visit_CE : forall (done : list (nat * (K * nat))) st n nd inputs st' r,
  CE st -> nth_error h n = Some nd -> lookupn n done = None ->
  gather split_output st done (nins nd) = Ok (Ready inputs) ->
  split_visit keqb key cut_name st n nd inputs = Ok (st', r) -> CE st'.
Proof.
  intros done st n nd inputs st' r HC Hn _ Hg Hv.
  apply gather_spec in Hg. unfold split_visit in Hv.
  destruct (cut_inputs keqb cut_name (key nd) (nname nd) st inputs) as [st1 l] eqn:Hc.
  injection Hv as <- <-.
  assert (HF : Forall (fun x => fst (snd (snd x)) < List.length (sheap st)) inputs).
  { clear -Hg. induction Hg as [|i x li lx (_ & r & _ & Ho) _ IH]; constructor; [|assumption].
    apply split_output_ok in Ho. destruct Ho as [Hx Hl]. rewrite Hx. exact Hl. }
  destruct (cut_inputs_CE _ _ _ _ _ _ HC HF Hc) as (HC1 & _ & _).
  unfold CE. simpl. eapply Forall2_impl_in; [|exact HC1]. intros c pr _ Hq.
  eapply cut_ok_ext; [exact Hq|apply sinks_mono_refl].
Qed.

(* one (sink, source) pair per reported cut, in order, each as described by cut_ok *)
Lemma split_cuts_exact : forall (g : graph P) r, h = heap g ->
  split_graph_k keqb key cut_name g = Ok r ->
  Forall2 (cut_ok (rheap r) (rparts r)) (rcuts r) (rev (rpairs r)).
Proof.
  intros g r Hh H. unfold split_graph_k in H. rewrite <- Hh in H.
  destruct (transform (split_visit keqb key cut_name) split_output h (sinks g) (mkS [] [] [] [] [])) as [[[st rs] done]|] eqn:Htr; simpl in H; [|discriminate].
  injection H as <-.
  destruct (transform_inv P _ _ _ _ _ h (fun d s => CE s)
              (fun done st n nd inputs st' r HC Hn Hl Hg Hv => split_visit_CE done st n nd inputs st' r HC Hn Hl Hg Hv)
              (sinks g) (mkS [] [] [] [] []) st rs done) as [HC _]; [constructor|exact Htr|].
  simpl. eapply Forall2_impl_in; [|exact HC]. intros c pr _ Hq.
  rewrite <- (app_nil_r (sheap st)). eapply cut_ok_ext; [exact Hq|].
  clear. generalize (ssinks st). induction rs as [|x rs IH]; intros sl; simpl; [apply sinks_mono_refl|].
  eapply sinks_mono_trans; [apply add_sink_mono|apply IH].
Qed.

End WithKey.
End Rj.

(* ------------------------------------------------------------------ the parts are disjoint *)
From EKW Require Import Graph.DedupProofs.

Lemma nth_error_app_Some : forall A (l ext : list A) i x, nth_error l i = Some x -> nth_error (l ++ ext) i = Some x.
Proof. intros A l ext i x H. rewrite nth_error_app1; [assumption|]. apply nth_error_Some. congruence. Qed.

Section Partition.
Variable P K : Type.
Variable keqb : K -> K -> bool.
Hypothesis keqb_eq : forall a b, keqb a b = true <-> a = b.     (* K.__eq__ is equality *)
Variable key : node P -> K.
Variable cut_name : cutedge K -> string.
Variable h : list (node P).

Notation sstate := (sstate P K).

(* a labelling of the result heap by keys: edges stay inside one label, the sinks filed
   under k are labelled k, no key is listed twice *)
Definition labelled (labs : list K) (hp : list (node P)) (sl : list (K * list nat)) : Prop :=
  List.length labs = List.length hp /\
  (forall i nd p, nth_error hp i = Some nd -> In p (parents nd) ->
     exists k, nth_error labs i = Some k /\ nth_error labs p = Some k) /\
  (forall k ss x, In (k, ss) sl -> In x ss -> nth_error labs x = Some k) /\
  NoDup (map fst sl).

Lemma add_sink_labelled : forall labs hp sl k s, labelled labs hp sl -> nth_error labs s = Some k ->
  labelled labs hp (add_sink keqb k s sl).
Proof.
  intros labs hp sl k s (H1 & H2 & H3 & H4) Hs. split; [assumption|]. split; [assumption|].
  clear H1 H2. induction sl as [|[k' ss'] sl IH]; simpl.
  - split; [|repeat constructor; simpl; tauto]. intros k0 ss x [Heq|[]] Hx. injection Heq as <- <-.
    destruct Hx as [<-|[]]. assumption.
  - inversion H4 as [|? ? Hni ND]; subst.
    destruct (keqb k' k) eqn:E.
    + apply keqb_eq in E. subst k'. split; [|assumption].
      intros k0 ss x [Heq|Hin] Hx.
      * injection Heq as <- <-. apply in_app_or in Hx. destruct Hx as [Hx|[<-|[]]]; [|assumption].
        apply (H3 k ss' x); [now left|assumption].
      * apply (H3 k0 ss x); [now right|assumption].
    + destruct IH as [IH3 IH4]; [intros k0 ss x Hin Hx; apply (H3 k0 ss x); [now right|assumption]|assumption|].
      split.
      * intros k0 ss x [Heq|Hin] Hx; [injection Heq as <- <-; apply (H3 k' ss' x); [now left|assumption]|].
        now apply (IH3 k0 ss x).
      * simpl. constructor; [|assumption]. intros Hin. apply in_map_iff in Hin. destruct Hin as ([k1 ss1] & Hk & Hin1). simpl in Hk. subst k1.
        assert (Hc : k' = k \/ In k' (map fst sl)).
        { clear -Hin1. induction sl as [|[k2 ss2] sl IHs]; simpl in *.
          - destruct Hin1 as [Heq|[]]. injection Heq as <- _. now left.
          - destruct (keqb k2 k); destruct Hin1 as [Heq|Hin1]; try (injection Heq as <- _; right; now left).
            + right. right. apply in_map_iff. now exists (k', ss1).
            + destruct (IHs Hin1) as [->|H]; [now left|right; now right]. }
        destruct Hc as [->|Hc]; [|contradiction].
        assert (keqb k k = true) by (apply keqb_eq; reflexivity). congruence.
Qed.

Lemma labelled_app : forall labs hp sl k nd, labelled labs hp sl ->
  (forall p, In p (parents nd) -> nth_error labs p = Some k) ->
  labelled (labs ++ [k]) (hp ++ [nd]) sl.
Proof.
  intros labs hp sl k nd (H1 & H2 & H3 & H4) Hp. split; [rewrite !app_length; simpl; lia|]. split; [|split; [|assumption]].
  - intros i nd0 p Hi Hin.
    destruct (Nat.lt_ge_cases i (List.length hp)) as [Hlt|Hge].
    + rewrite nth_error_app1 in Hi by assumption. destruct (H2 i nd0 p Hi Hin) as (k0 & Ha & Hb).
      exists k0. split; apply nth_error_app_Some; assumption.
    + rewrite nth_error_app2 in Hi by assumption.
      destruct (i - List.length hp) as [|j] eqn:Hj; simpl in Hi; [|destruct j; discriminate].
      injection Hi as <-. exists k. split; [|apply nth_error_app_Some; now apply Hp].
      assert (i = List.length labs) by lia. subst i. rewrite nth_error_app2 by lia. now rewrite Nat.sub_diag.
  - intros k0 ss x Hin Hx. apply nth_error_app_Some. eapply H3; eassumption.
Qed.

Lemma cut_inputs_labelled : forall k dname inputs st st' l labs,
  labelled labs (sheap st) (ssinks st) ->
  Forall (fun x => nth_error labs (fst (snd (snd x))) = Some (fst (snd x))) inputs ->
  cut_inputs keqb cut_name k dname st inputs = (st', l) ->
  exists ext, labelled (labs ++ ext) (sheap st') (ssinks st') /\
              Forall (fun y => nth_error (labs ++ ext) (fst (snd y)) = Some k) l.
Proof.
  intros k dname inputs. induction inputs as [|[iname [ik [p po]]] rest IH]; intros st st' l labs HL HF Hc; simpl in Hc.
  - injection Hc as <- <-. exists []. rewrite app_nil_r. split; [assumption|constructor].
  - inversion HF as [|? ? Hp HF']; subst. simpl in Hp.
    destruct (keqb ik k) eqn:E.
    + apply keqb_eq in E. subst ik.
      destruct (cut_inputs keqb cut_name k dname st rest) as [st1 l1] eqn:Hr. injection Hc as <- <-.
      destruct (IH st st1 l1 labs HL HF' Hr) as (ext & HL1 & HF1). exists ext. split; [assumption|].
      constructor; [simpl; now apply nth_error_app_Some|assumption].
    + match type of Hc with (let '(_, _) := cut_inputs _ _ _ _ ?s1 _ in _) = _ => set (st1 := s1) in * end.
      destruct (cut_inputs keqb cut_name k dname st1 rest) as [st2 l2] eqn:Hr. injection Hc as <- <-.
      set (nm := cut_name (mkCut ik (name_of (sheap st) p) po k dname iname)) in *.
      assert (Hlen : List.length labs = List.length (sheap st)) by apply HL.
      assert (HL1 : labelled ((labs ++ [ik]) ++ [k]) (sheap st1) (ssinks st1)).
      { unfold st1. simpl.
        replace (sheap st ++ [mkNode nm [] None [("input", (p, po))]; mkNode nm [DEFAULT_OUTPUT] None []])
          with ((sheap st ++ [mkNode nm [] None [("input", (p, po))]]) ++ [mkNode nm [DEFAULT_OUTPUT] None []])
          by (rewrite <- app_assoc; reflexivity).
        apply add_sink_labelled.
        - apply labelled_app; [apply labelled_app; [assumption|]|intros q []].
          intros q [<-|[]]. simpl. exact Hp.
        - rewrite <- Hlen. rewrite <- app_assoc. rewrite nth_error_app2 by lia. now rewrite Nat.sub_diag. }
      assert (HF1 : Forall (fun x => nth_error ((labs ++ [ik]) ++ [k]) (fst (snd (snd x))) = Some (fst (snd x))) rest).
      { eapply Forall_impl; [|exact HF']. intros a Ha. rewrite <- app_assoc. now apply nth_error_app_Some. }
      destruct (IH st1 st2 l2 _ HL1 HF1 Hr) as (ext & HL2 & HF2).
      exists ([ik; k] ++ ext).
      replace (labs ++ [ik; k] ++ ext) with (((labs ++ [ik]) ++ [k]) ++ ext) by (rewrite <- !app_assoc; reflexivity).
      split; [assumption|]. constructor; [|assumption]. cbn [fst snd].
      apply nth_error_app_Some. rewrite <- Hlen.
      rewrite nth_error_app2 by (rewrite app_length; simpl; lia). rewrite app_length. cbn [List.length].
      replace (S (List.length labs) - (List.length labs + 1)) with 0 by lia. reflexivity.
Qed.

Definition PI (done : list (nat * (K * nat))) (st : sstate) : Prop :=
  exists labs, labelled labs (sheap st) (ssinks st) /\
               forall m kr, In (m, kr) done -> nth_error labs (snd kr) = Some (fst kr).

Lemma split_output_lab : forall (st : sstate) r o x, split_output st r o = Ok x -> x = (fst r, (snd r, o)).
Proof.
  intros st r o x H. unfold split_output in H.
  destruct (nth_error (sheap st) (snd r)) as [nd|]; [|discriminate].
  destruct (smemb o (nouts nd)); [|discriminate]. now injection H as <-.
Qed.

Lemma split_visit_PI : forall done st n nd inputs st' r,
  PI done st -> nth_error h n = Some nd -> lookupn n done = None ->
  gather split_output st done (nins nd) = Ok (Ready inputs) ->
  split_visit keqb key cut_name st n nd inputs = Ok (st', r) -> PI ((n, r) :: done) st'.
Proof.
  intros done st n nd inputs st' r (labs & HL & HD) Hn _ Hg Hv.
  apply gather_spec in Hg. unfold split_visit in Hv.
  destruct (cut_inputs keqb cut_name (key nd) (nname nd) st inputs) as [st1 l] eqn:Hc.
  injection Hv as <- <-.
  assert (HF : Forall (fun x => nth_error labs (fst (snd (snd x))) = Some (fst (snd x))) inputs).
  { clear -Hg HD. induction Hg as [|i x li lx (_ & r & Hl & Ho) _ IH]; constructor; [|assumption].
    apply split_output_lab in Ho. rewrite Ho. simpl. apply (HD _ _ (lookupn_In _ _ _ _ Hl)). }
  destruct (cut_inputs_labelled _ _ _ _ _ _ _ HL HF Hc) as (ext & HL1 & HF1).
  exists ((labs ++ ext) ++ [key nd]). split.
  - simpl. apply labelled_app; [assumption|]. intros p Hp. unfold parents in Hp. simpl in Hp.
    apply in_map_iff in Hp. destruct Hp as (y & <- & Hy). rewrite Forall_forall in HF1. now apply HF1.
  - intros m kr [Heq|Hin].
    + injection Heq as <- <-. simpl.
      assert (Hlen : List.length (labs ++ ext) = List.length (sheap st1)) by apply HL1.
      rewrite <- Hlen. rewrite nth_error_app2 by lia. now rewrite Nat.sub_diag.
    + rewrite <- app_assoc. apply nth_error_app_Some. exact (HD m kr Hin).
Qed.

Lemma nodup_fst_fun : forall A (l : list (K * A)) k a b, NoDup (map fst l) -> In (k, a) l -> In (k, b) l -> a = b.
Proof.
  induction l as [|[k' v] l IH]; intros k a b ND Ha Hb; [contradiction|].
  inversion ND as [|? ? Hni ND']; subst. simpl in Hni.
  destruct Ha as [Ha|Ha]; destruct Hb as [Hb|Hb].
  - congruence.
  - injection Ha as -> ->. exfalso. apply Hni. apply in_map_iff. now exists (k, b).
  - injection Hb as -> ->. exfalso. apply Hni. apply in_map_iff. now exists (k, a).
  - eapply IH; eassumption.
Qed.

(* a node of the result is reachable from the sinks of at most one part *)
Lemma split_partition : forall (g : graph P) r, h = heap g ->
  split_graph_k keqb key cut_name g = Ok r ->
  forall x k1 ss1 k2 ss2, In (k1, ss1) (rparts r) -> In (k2, ss2) (rparts r) ->
    reachable (rheap r) ss1 x -> reachable (rheap r) ss2 x -> (k1, ss1) = (k2, ss2).
Proof.
  intros g r Hh H. unfold split_graph_k in H. rewrite <- Hh in H.
  destruct (transform (split_visit keqb key cut_name) split_output h (sinks g) (mkS [] [] [] [] [])) as [[[st rs] done]|] eqn:Htr; simpl in H; [|discriminate].
  injection H as <-.
  destruct (transform_inv P _ _ _ _ _ h PI split_visit_PI (sinks g) (mkS [] [] [] [] []) st rs done) as [(labs & HL & HD) HF].
  - exists []. split; [|intros m kr []]. split; [reflexivity|]. split; [intros i nd p Hi; destruct i; discriminate|].
    split; [intros k ss x []|constructor].
  - exact Htr.
  - simpl.
    assert (HLf : labelled labs (sheap st) (fold_left (fun l kr => add_sink keqb (fst kr) (snd kr) l) rs (ssinks st))).
    { assert (Hrs : forall kr, In kr rs -> nth_error labs (snd kr) = Some (fst kr)).
      { intros kr Hin. destruct (Forall2_ex_l _ _ _ _ _ HF kr Hin) as (s & _ & Hl). apply (HD _ _ (lookupn_In _ _ _ _ Hl)). }
      clear -HL Hrs keqb_eq. revert HL. generalize (ssinks st). induction rs as [|kr rs IH]; intros sl HL; simpl; [assumption|].
      apply IH; [intros kr0 Hin; apply Hrs; now right|]. apply add_sink_labelled; [assumption|apply Hrs; now left]. }
    destruct HLf as (_ & H2 & H3 & H4).
    assert (Hreach : forall k ss x, In (k, ss) (fold_left (fun l kr => add_sink keqb (fst kr) (snd kr) l) rs (ssinks st)) ->
                       reachable (sheap st) ss x -> nth_error labs x = Some k).
    { intros k ss x Hin Hx. induction Hx as [s Hs|n nd p _ IH Hn Hp].
      - eapply H3; eassumption.
      - destruct (H2 n nd p Hn Hp) as (k0 & Ha & Hb). congruence. }
    intros x k1 ss1 k2 ss2 Hi1 Hi2 Hr1 Hr2.
    pose proof (Hreach _ _ _ Hi1 Hr1) as E1. pose proof (Hreach _ _ _ Hi2 Hr2) as E2.
    assert (k1 = k2) by congruence. subst k2. f_equal. eapply nodup_fst_fun; eassumption.
Qed.

End Partition.
