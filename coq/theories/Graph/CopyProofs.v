(* copy_graph and rename_nodes preserve what every sink denotes. *)
From Coq Require Import List String Bool Arith Lia.
From EKW Require Import Graph.GStore Graph.Denote Graph.Engine Graph.EngineProofs Graph.Copy Graph.Rename.
Import ListNotations.
Open Scope string_scope.
Open Scope list_scope.

Section Proofs.
Variable P V : Type.
Variable interp : option P -> list string -> list (string * V) -> string -> V.
Notation sem := (sem interp).

(* any visit that appends ONE node carrying the payload and outputs of the visited node and
   the gathered inputs (whatever its name) keeps the invariant *)
Section OneNode.
Variable h : list (node P).
Hypothesis Ht : topo h.
Variable visit : list (node P) -> nat -> node P -> list (string * (nat * string)) -> res (list (node P) * nat).
Hypothesis visit_shape : forall h' n nd inputs st' r, visit h' n nd inputs = Ok (st', r) ->
  exists name, st' = h' ++ [mkNode name (nouts nd) (npay nd) inputs] /\ r = List.length h'.

Lemma one_node_visit_inv : forall done st n nd inputs st' r,
  reps P V interp h st done -> nth_error h n = Some nd -> lookupn n done = None ->
  gather out_node st done (nins nd) = Ok (Ready inputs) ->
  visit st n nd inputs = Ok (st', r) -> reps P V interp h st' ((n, r) :: done).
Proof.
  intros done st n nd inputs st' r HR Hn _ Hg Hv.
  destruct (visit_shape _ _ _ _ _ _ Hv) as (name & -> & ->).
  apply gather_spec in Hg.
  intros m r' [Heq|Hin].
  - injection Heq as <- <-. split; [rewrite app_length; simpl; lia|]. intros o.
    apply (new_node_sem P V interp h st n nd); try assumption; try reflexivity.
    simpl. eapply gathered_sem; eassumption.
  - apply (reps_app P V interp h st _ done HR); assumption.
Qed.

Lemma one_node_transform : forall sinks st' rs done,
  transform visit out_node h sinks [] = Ok (st', rs, done) ->
  Forall2 (fun s s' => forall o, sem st' s' o = sem h s o) sinks rs.
Proof.
  intros sinks st' rs done H.
  destruct (transform_inv P _ _ _ visit out_node h (fun d s => reps P V interp h s d)
              one_node_visit_inv sinks [] st' rs done) as [HI HF]; [intros m r []|exact H|].
  clear H. induction HF as [|s r ls lr Hl _ IH]; constructor; [|exact IH].
  intros o. apply (HI _ _ (lookupn_In _ _ _ _ Hl)).
Qed.
End OneNode.

Lemma copy_preserves_sem : forall (g g' : graph P), topo (heap g) -> copy_graph g = Ok g' ->
  Forall2 (fun s s' => forall o, sem (heap g') s' o = sem (heap g) s o) (sinks g) (sinks g').
Proof.
  intros g g' Ht H. unfold copy_graph in H.
  destruct (transform copy_visit out_node (heap g) (sinks g) []) as [[[st' rs] done]|] eqn:Htr; simpl in H; [|discriminate].
  injection H as <-. simpl.
  eapply one_node_transform; [exact Ht| |exact Htr].
  intros h' n nd inputs st1 r Hv. unfold copy_visit in Hv.
  destruct (mk_node (nname nd) (Some (nouts nd)) (npay nd) (nins nd)) as [c|] eqn:Hc; simpl in Hv; [|discriminate].
  unfold mk_node in Hc. destruct (existsb _ _); [discriminate|]. injection Hc as <-. simpl in Hv.
  injection Hv as <- <-. eexists. split; reflexivity.
Qed.

Lemma rename_preserves_sem : forall (func : string -> string) (g g' : graph P),
  topo (heap g) -> rename_nodes func g = Ok g' ->
  Forall2 (fun s s' => forall o, sem (heap g') s' o = sem (heap g) s o) (sinks g) (sinks g').
Proof.
  intros func g g' Ht H. unfold rename_nodes in H.
  destruct (transform (rename_visit func) out_node (heap g) (sinks g) []) as [[[st' rs] done]|] eqn:Htr; simpl in H; [|discriminate].
  injection H as <-. simpl.
  eapply one_node_transform; [exact Ht| |exact Htr].
  intros h' n nd inputs st1 r Hv. unfold rename_visit in Hv. injection Hv as <- <-.
  eexists. split; reflexivity.
Qed.

End Proofs.
