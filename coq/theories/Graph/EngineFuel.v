(* The fuel of Engine.transform suffices: on an acyclic heap (parents at smaller indices)
   with valid sinks the loop never answers "model:OutOfFuel", whatever the callbacks do
   (as long as they do not answer it themselves).
   Potential: with U = number of nodes not yet done and pre = length of the longest prefix
   of the stack made of not-done nodes with strictly increasing indices (the chain of
   pushed parents), every iteration decreases  |todo| + 2 U - 2 pre. *)
From Coq Require Import List String Bool Arith Lia.
From EKW Require Import Graph.GStore Graph.Denote Graph.Engine Graph.EngineProofs.
Import ListNotations.
Open Scope string_scope.
Open Scope list_scope.

Definition OOF : string := "model:OutOfFuel".

Section Fuel.
Variable P : Type.
Variables St R Ou : Type.
Variable visit : St -> nat -> node P -> list (string * Ou) -> res (St * R).
Variable output : St -> R -> string -> res Ou.
Variable h : list (node P).
Hypothesis Ht : topo h.
Hypothesis visit_fuel : forall st n nd inputs, visit st n nd inputs <> Err OOF.
Hypothesis output_fuel : forall st r o, output st r o <> Err OOF.

Notation N := (List.length h).

Definition undone (done : list (nat * R)) (x : nat) : bool :=
  match lookupn x done with None => true | Some _ => false end.

Definition cnt (done : list (nat * R)) (lo : nat) : nat :=
  List.length (filter (undone done) (seq lo (N - lo))).

Definition lbok (lb : option nat) (x : nat) : bool :=
  match lb with None => true | Some b => Nat.ltb b x end.

Fixpoint plen (done : list (nat * R)) (lb : option nat) (todo : list nat) : nat :=
  match todo with
  | [] => 0
  | x :: r => if undone done x && lbok lb x then S (plen done (Some x) r) else 0
  end.

Lemma plen_le_len : forall done todo lb, plen done lb todo <= List.length todo.
Proof.
  induction todo as [|x r IH]; intros lb; simpl; [lia|].
  destruct (undone done x && lbok lb x); [specialize (IH (Some x))|]; lia.
Qed.

Lemma cnt_split : forall done lo x, lo <= x -> x < N -> undone done x = true ->
  S (cnt done (S x)) <= cnt done lo.
Proof.
  intros done lo x Hlo Hx Hu. unfold cnt.
  replace (N - lo) with ((x - lo) + (N - x)) by lia.
  rewrite seq_app, filter_app, app_length.
  replace (lo + (x - lo)) with x by lia.
  replace (N - x) with (S (N - S x)) by lia. simpl. rewrite Hu. simpl. lia.
Qed.

Lemma plen_le_cnt : forall done todo lb, Forall (fun x => x < N) todo ->
  plen done lb todo <= cnt done (match lb with None => 0 | Some b => S b end).
Proof.
  induction todo as [|x r IH]; intros lb HF; simpl; [lia|].
  inversion HF as [|? ? Hx HF']; subst.
  destruct (undone done x) eqn:Hu; simpl; [|lia].
  destruct (lbok lb x) eqn:Hl; [|lia].
  specialize (IH (Some x) HF'). simpl in IH.
  assert (Hlo : match lb with None => 0 | Some b => S b end <= x).
  { destruct lb as [b|]; simpl in *; [apply Nat.ltb_lt in Hl|]; lia. }
  pose proof (cnt_split done _ x Hlo Hx Hu). lia.
Qed.

Lemma cnt_visit : forall done n r lo, lo <= n -> n < N -> lookupn n done = None ->
  S (cnt ((n, r) :: done) lo) = cnt done lo.
Proof.
  intros done n r lo Hlo Hn Hl. unfold cnt.
  assert (Hne : forall l, ~ In n l -> filter (undone ((n, r) :: done)) l = filter (undone done) l).
  { induction l as [|y l IH]; intros Hni; simpl; [reflexivity|].
    unfold undone at 1 3. simpl. destruct (Nat.eqb y n) eqn:E.
    - apply Nat.eqb_eq in E. subst. exfalso. apply Hni. now left.
    - fold (undone done y). destruct (undone done y); [f_equal|]; apply IH; intros H; apply Hni; now right. }
  replace (N - lo) with ((n - lo) + (N - n)) by lia.
  rewrite !seq_app, !filter_app, !app_length.
  replace (lo + (n - lo)) with n by lia.
  replace (N - n) with (S (N - S n)) by lia. simpl.
  unfold undone at 2. simpl. rewrite Nat.eqb_refl.
  unfold undone at 4. rewrite Hl. simpl.
  rewrite (Hne (seq lo (n - lo))) by (rewrite in_seq; lia).
  rewrite (Hne (seq (S n) (N - S n))) by (rewrite in_seq; lia). lia.
Qed.

Lemma plen_mono_visit : forall done n r l b lb',
  n <= b -> (match lb' with None => True | Some b' => b' <= b end) ->
  plen done (Some b) l <= plen ((n, r) :: done) lb' l.
Proof.
  intros done n r. induction l as [|x l IH]; intros b lb' Hnb Hlb; simpl; [lia|].
  destruct (undone done x) eqn:Hu; simpl; [|lia].
  destruct (Nat.ltb b x) eqn:Hbx; [|lia]. apply Nat.ltb_lt in Hbx.
  assert (Hu' : undone ((n, r) :: done) x = true).
  { unfold undone. simpl. destruct (Nat.eqb x n) eqn:E; [apply Nat.eqb_eq in E; lia|exact Hu]. }
  assert (Hl' : lbok lb' x = true) by (destruct lb' as [b'|]; simpl; [apply Nat.ltb_lt; lia|reflexivity]).
  rewrite Hu', Hl'. simpl. apply le_n_S. apply IH; [lia|simpl; lia].
Qed.

Lemma gather_push : forall st done ins p, gather output st done ins = Ok (Push p) ->
  lookupn p done = None /\ In p (map (fun x => fst (snd x)) ins).
Proof.
  intros st done ins. induction ins as [|[iname [q oname]] ins IH]; simpl; intros p H; [discriminate|].
  destruct (lookupn q done) as [r|] eqn:Hl.
  - destruct (output st r oname) as [o|]; simpl in H; [|discriminate].
    destruct (gather output st done ins) as [[q'|l]|] eqn:Hg; simpl in H; try discriminate.
    injection H as <-. destruct (IH q' eq_refl) as [H1 H2]. split; [assumption|now right].
  - injection H as <-. split; [assumption|now left].
Qed.

Lemma gather_fuel : forall st done ins, gather output st done ins <> Err OOF.
Proof.
  intros st done ins. induction ins as [|[iname [q oname]] ins IH]; simpl; [discriminate|].
  destruct (lookupn q done) as [r|]; [|discriminate].
  destruct (output st r oname) as [o|e] eqn:Ho; simpl; [|intros Heq; injection Heq as ->; exact (output_fuel _ _ _ Ho)].
  destruct (gather output st done ins) as [[q'|l]|e]; simpl; try discriminate. exact IH.
Qed.

Lemma loop_fuel : forall F todo done st,
  Forall (fun x => x < N) todo ->
  F + 2 * plen done None todo > List.length todo + 2 * cnt done 0 ->
  loop visit output F h todo done st <> Err OOF.
Proof.
  induction F as [|F IH]; intros todo done st HV HF.
  - exfalso. pose proof (plen_le_len done todo None). pose proof (plen_le_cnt done todo None HV). simpl in *. lia.
  - simpl. destruct todo as [|n rest]; [discriminate|].
    inversion HV as [|? ? Hn HV']; subst.
    destruct (lookupn n done) as [r0|] eqn:Hl.
    + apply IH; [assumption|]. simpl in HF. unfold undone in HF. rewrite Hl in HF. simpl in HF. lia.
    + destruct (nth_error h n) as [nd|] eqn:Hnd; [|discriminate].
      destruct (gather output st done (nins nd)) as [[p|inputs]|e] eqn:Hg.
      * destruct (gather_push _ _ _ _ Hg) as [Hp Hin].
        assert (Hpn : p < n) by (apply (Ht n nd Hnd); exact Hin).
        apply IH; [constructor; [lia|assumption]|].
        simpl in *. unfold undone in *. rewrite Hp, Hl in *. simpl in *.
        assert (Hlt : Nat.ltb p n = true) by (apply Nat.ltb_lt; exact Hpn). rewrite Hlt. simpl. lia.
      * destruct (visit st n nd inputs) as [[st' r]|e] eqn:Hv; [|intros Heq; injection Heq as ->; exact (visit_fuel _ _ _ _ Hv)].
        apply IH; [assumption|].
        pose proof (cnt_visit done n r 0 ltac:(lia) Hn Hl) as Hc.
        assert (Hpl : plen done None (n :: rest) = S (plen done (Some n) rest)) by (simpl; unfold undone; rewrite Hl; reflexivity).
        rewrite Hpl in HF. simpl List.length in HF.
        pose proof (plen_mono_visit done n r rest n None (le_n _) I). lia.
      * intros Heq. injection Heq as ->. exact (gather_fuel _ _ _ Hg).
Qed.

Lemma list_sum_ge_len : forall (l : list (node P)),
  List.length l <= list_sum (map (fun nd => S (List.length (nins nd))) l).
Proof. induction l as [|x l IH]; simpl; lia. Qed.

Theorem transform_fuel : forall sinks st,
  Forall (fun s => s < N) sinks -> transform visit output h sinks st <> Err OOF.
Proof.
  intros sinks st HV. unfold transform.
  destruct (loop visit output (engine_fuel h sinks) h (rev sinks) [] st) as [[done st']|e] eqn:Hl; simpl.
  - match goal with |- bind ?m _ <> _ => destruct m as [rs|e] eqn:Hm end; simpl; [discriminate|].
    intros Heq. injection Heq as ->.
    clear -Hm. revert Hm. generalize sinks at 1. induction sinks0 as [|x l IH]; simpl; [discriminate|].
    destruct (lookupn x done); simpl; [|discriminate].
    match goal with |- bind ?m _ = _ -> _ => destruct m as [ys|e'] eqn:Hm' end; simpl; [discriminate|].
    intros Heq. injection Heq as ->. now apply IH.
  - intros Heq. injection Heq as ->. revert Hl. apply loop_fuel.
    + apply Forall_forall. intros x Hx. apply in_rev in Hx. rewrite Forall_forall in HV. now apply HV.
    + unfold engine_fuel. rewrite rev_length.
      assert (cnt [] 0 <= N).
      { unfold cnt. rewrite Nat.sub_0_r. rewrite <- (seq_length N 0) at 2. generalize (seq 0 N). intros l. induction l as [|y l IHl]; simpl; [lia|]. destruct (undone [] y); simpl; lia. }
      pose proof (list_sum_ge_len h). lia.
Qed.

End Fuel.
