(* deduplicate_nodes: every sink keeps its denotation (up to the order of keyword inputs,
   which _cmp_nodes ignores), and no two nodes of the result are duplicates. *)
From Coq Require Import List String Bool Arith Lia.
From EKW Require Import Graph.GStore Graph.Denote Graph.Engine Graph.EngineProofs Graph.Dedup.
Import ListNotations.
Open Scope string_scope.
Open Scope list_scope.

Lemma leqb_eq : forall a b, leqb String.eqb a b = true -> a = b.
Proof.
  induction a as [|x a IH]; destruct b as [|y b]; simpl; intros H; try discriminate; [reflexivity|].
  apply andb_true_iff in H. destruct H as [H1 H2]. apply String.eqb_eq in H1. f_equal; auto.
Qed.

Lemma leqb_refl : forall a, leqb String.eqb a a = true.
Proof. induction a as [|x a IH]; simpl; [reflexivity|]. now rewrite String.eqb_refl. Qed.

Section CmpLemmas.
Variable P : Type.

Lemma cmp_nodes_outs : forall a b : node P, cmp_nodes a b = true -> nouts a = nouts b.
Proof.
  intros a b H. unfold cmp_nodes in H. repeat (apply andb_true_iff in H; destruct H as [H ?]).
  now apply leqb_eq.
Qed.

(* _cmp_nodes compares the inputs as dictionaries *)
Lemma cmp_nodes_lookup : forall (a b : node P) k, cmp_nodes a b = true -> lookup k (nins a) = lookup k (nins b).
Proof.
  intros a b k H. unfold cmp_nodes in H.
  apply andb_true_iff in H. destruct H as [H H3].
  apply andb_true_iff in H. destruct H as [H H2].
  apply andb_true_iff in H. destruct H as [_ H1].
  rewrite forallb_forall in H1, H2, H3.
  destruct (smemb k (map fst (nins a))) eqn:Ha.
  - apply smemb_In in Ha. specialize (H3 k Ha).
    destruct (lookup k (nins a)) as [[pa oa]|]; [|discriminate].
    destruct (lookup k (nins b)) as [[pb ob]|]; [|discriminate].
    apply andb_true_iff in H3. destruct H3 as [Ho Hp].
    apply String.eqb_eq in Ho. apply Nat.eqb_eq in Hp. now subst.
  - assert (Hb : smemb k (map fst (nins b)) = false).
    { destruct (smemb k (map fst (nins b))) eqn:Hb; [|reflexivity].
      apply smemb_In in Hb. specialize (H2 k Hb). congruence. }
    apply lookup_None_smemb in Ha. apply lookup_None_smemb in Hb. congruence.
Qed.

(* ... and says True exactly when outputs are equal and the dictionaries are equal *)
Lemma cmp_nodes_complete : forall a b : node P,
  nouts a = nouts b -> (forall k, lookup k (nins a) = lookup k (nins b)) -> cmp_nodes a b = true.
Proof.
  intros a b Ho Hl. unfold cmp_nodes. rewrite Ho, leqb_refl. simpl.
  assert (Hk : forall k, smemb k (map fst (nins a)) = smemb k (map fst (nins b))).
  { intros k. destruct (smemb k (map fst (nins a))) eqn:Ha; destruct (smemb k (map fst (nins b))) eqn:Hb; try reflexivity.
    - apply lookup_None_smemb in Hb. rewrite <- Hl in Hb. apply lookup_None_smemb in Hb. congruence.
    - apply lookup_None_smemb in Ha. rewrite Hl in Ha. apply lookup_None_smemb in Ha. congruence. }
  repeat (apply andb_true_iff; split); apply forallb_forall; intros k Hin.
  - rewrite <- Hk. now apply smemb_In.
  - rewrite Hk. now apply smemb_In.
  - rewrite <- Hl. destruct (lookup k (nins a)) as [[pa oa]|] eqn:E.
    + now rewrite String.eqb_refl, Nat.eqb_refl.
    + apply lookup_None_smemb in E. apply smemb_In in Hin. congruence.
Qed.

End CmpLemmas.

Lemma nodup_nat_In : forall l seen x, In x (nodup_nat l seen) <-> (In x l /\ ~ In x seen).
Proof.
  induction l as [|y l IH]; intros seen x; simpl; [tauto|].
  unfold memb. destruct (existsb (Nat.eqb y) seen) eqn:E.
  - rewrite IH. apply existsb_exists in E. destruct E as (z & Hz & Hyz). apply Nat.eqb_eq in Hyz. subst z.
    split; [tauto|]. intros [[->|H] Hn]; tauto.
  - simpl. rewrite IH. simpl.
    assert (Hy : ~ In y seen).
    { intros Hy. assert (existsb (Nat.eqb y) seen = true) by (apply existsb_exists; exists y; split; [assumption|apply Nat.eqb_refl]). congruence. }
    split.
    + intros [->|[H1 H2]]; [tauto|]. split; [tauto|]. intros H3. apply H2. now right.
    + intros [[->|H1] H2]; [now left|]. destruct (Nat.eq_dec y x) as [->|Hne]; [now left|].
      right. split; [assumption|]. intros [H3|H3]; [congruence|tauto].
Qed.

Lemma Forall2_ex_r : forall A B (R : A -> B -> Prop) l l', Forall2 R l l' ->
  forall a, In a l -> exists b, In b l' /\ R a b.
Proof.
  intros A B R l l' H. induction H as [|x y l l' Hxy _ IH]; intros a Ha; [contradiction|].
  destruct Ha as [->|Ha]; [exists y; split; [now left|assumption]|].
  destruct (IH a Ha) as (b & Hb & Hr). exists b. split; [now right|assumption].
Qed.

Lemma Forall2_ex_l : forall A B (R : A -> B -> Prop) l l', Forall2 R l l' ->
  forall b, In b l' -> exists a, In a l /\ R a b.
Proof.
  intros A B R l l' H. induction H as [|x y l l' Hxy _ IH]; intros b Hb; [contradiction|].
  destruct Hb as [->|Hb]; [exists x; split; [now left|assumption]|].
  destruct (IH b Hb) as (a & Ha & Hr). exists a. split; [now right|assumption].
Qed.

Section Preserve.
Variable P V : Type.
Variable interp : option P -> list string -> list (string * V) -> string -> V.
Notation sem := (sem interp).
(* the interpretation takes its inputs as keyword arguments: a dictionary *)
Hypothesis interp_kw : forall p outs a b o,
  (forall k, lookup k a = lookup k b) -> interp p outs a o = interp p outs b o.
Variable pred : node P -> node P -> bool.
(* the predicate only merges nodes with the same payload (same_payload does) *)
Hypothesis pred_payload : forall a b, pred a b = true -> npay a = npay b.

Variable h : list (node P).
Hypothesis Ht : topo h.

Definition DI (done : list (nat * nat)) (st : dstate P) : Prop :=
  reps P V interp h (dheap st) done /\ topo (dheap st).

(* two nodes of the same heap that _cmp_nodes and pred identify denote the same *)
Lemma dup_sem : forall (h' : list (node P)) nd' other ond o,
  topo h' -> nth_error h' other = Some ond -> cmp_nodes nd' ond = true -> pred nd' ond = true ->
  sem h' other o =
  interp (npay nd') (nouts nd') (map (fun x => (fst x, sem h' (fst (snd x)) (snd (snd x)))) (nins nd')) o.
Proof.
  intros h' nd' other ond o Ht' Hn Hc Hp.
  rewrite (sem_unfold _ _ interp h' other ond o Ht' Hn).
  rewrite <- (pred_payload _ _ Hp), <- (cmp_nodes_outs _ _ _ Hc).
  apply interp_kw. intros k.
  rewrite (lookup_map_snd _ _ (fun y => sem h' (fst y) (snd y)) k (nins ond)).
  rewrite (lookup_map_snd _ _ (fun y => sem h' (fst y) (snd y)) k (nins nd')).
  now rewrite (cmp_nodes_lookup _ _ _ k Hc).
Qed.

Lemma find_node_some : forall (st : dstate P) nd r, find_node pred st nd = Some r ->
  In r (dreg st) /\ exists ond, nth_error (dheap st) r = Some ond /\ cmp_nodes nd ond = true /\ pred nd ond = true.
Proof.
  intros st nd r H. unfold find_node in H. apply find_some in H. destruct H as [Hin H].
  split; [assumption|]. destruct (nth_error (dheap st) r) as [ond|]; [|discriminate].
  apply andb_true_iff in H. exists ond. tauto.
Qed.

Lemma dedup_visit_inv : forall done st n nd inputs st' r,
  DI done st -> nth_error h n = Some nd -> lookupn n done = None ->
  gather (dedup_output) st done (nins nd) = Ok (Ready inputs) ->
  dedup_visit pred st n nd inputs = Ok (st', r) -> DI ((n, r) :: done) st'.
Proof.
  intros done st n nd inputs st' r [HR HT] Hn _ Hg Hv.
  apply gather_spec in Hg. unfold dedup_output in Hg.
  assert (Hsem : forall o, sem h n o =
            interp (npay nd) (nouts nd) (map (fun x => (fst x, sem (dheap st) (fst (snd x)) (snd (snd x)))) inputs) o).
  { intros o. rewrite <- (new_node_sem P V interp h (dheap st) n nd (mkNode (nname nd) (nouts nd) (npay nd) inputs) Ht Hn eq_refl eq_refl).
    - rewrite sem_new. reflexivity.
    - simpl. eapply gathered_sem; eassumption. }
  unfold dedup_visit in Hv.
  destruct (find_node pred st (mkNode (nname nd) (nouts nd) (npay nd) inputs)) as [other|] eqn:Hf.
  - injection Hv as <- <-. split; [|assumption].
    apply find_node_some in Hf. destruct Hf as (_ & ond & Hno & Hc & Hp).
    intros m r' [Heq|Hin]; [|now apply HR].
    injection Heq as <- <-. split; [apply nth_error_Some; congruence|].
    intros o. rewrite Hsem. now rewrite (dup_sem (dheap st) _ other ond o HT Hno Hc Hp).
  - injection Hv as <- <-. unfold DI. simpl. split.
    + intros m r' [Heq|Hin].
      * injection Heq as <- <-. split; [rewrite app_length; simpl; lia|].
        intros o. rewrite Hsem, sem_new. reflexivity.
      * apply (reps_app P V interp h (dheap st) _ done HR); assumption.
    + apply topo_snoc; [assumption|]. simpl. eapply gathered_lt; eassumption.
Qed.

Lemma dedup_preserves_sem : forall (g g' : graph P), h = heap g ->
  deduplicate_nodes pred g = Ok g' ->
  Forall (fun s => exists s', In s' (sinks g') /\ forall o, sem (heap g') s' o = sem h s o) (sinks g) /\
  Forall (fun s' => exists s, In s (sinks g) /\ forall o, sem (heap g') s' o = sem h s o) (sinks g').
Proof.
  intros g g' Hh H. unfold deduplicate_nodes in H. rewrite <- Hh in H.
  destruct (transform (dedup_visit pred) dedup_output h (sinks g) (mkD [] [])) as [[[st rs] done]|] eqn:Htr; simpl in H; [|discriminate].
  destruct (transform_inv P _ _ _ _ _ h DI dedup_visit_inv (sinks g) (mkD [] []) st rs done) as [[HR HT] HF];
    [split; [intros m r []|apply topo_nil]|exact Htr|].
  unfold dedup_finish in H.
  match type of H with bind ?m _ = _ => destruct m as [refs|] eqn:Hm; simpl in H; [|discriminate] end.
  injection H as <-. simpl.
  (* refs[i] denotes what sinks[i] denotes *)
  assert (HA : Forall2 (fun s ref => forall o, sem (dheap st) ref o = sem h s o) (sinks g) refs).
  { clear Htr. revert refs Hm. induction HF as [|s r ls lr Hl _ IH]; simpl; intros refs Hm.
    - injection Hm as <-. constructor.
    - destruct (nth_error (dheap st) r) as [rnd|] eqn:Hr; [|discriminate].
      destruct (find_node pred st rnd) as [ref|] eqn:Hf; simpl in Hm; [|discriminate].
      match type of Hm with bind ?m _ = _ => destruct m as [refs1|] eqn:Hm1; simpl in Hm; [|discriminate] end.
      injection Hm as <-. constructor; [|now apply IH].
      intros o. apply find_node_some in Hf. destruct Hf as (_ & ond & Hno & Hc & Hp).
      rewrite (dup_sem (dheap st) rnd ref ond o HT Hno Hc Hp).
      rewrite <- (sem_unfold _ _ interp (dheap st) r rnd o HT Hr).
      apply (HR _ _ (lookupn_In _ _ _ _ Hl)). }
  clear Hm HF Htr. split.
  - apply Forall_forall. intros s Hs. destruct (Forall2_ex_r _ _ _ _ _ HA s Hs) as (ref & Hin & Ho).
    exists ref. split; [|assumption]. apply nodup_nat_In. split; [assumption|tauto].
  - apply Forall_forall. intros s' Hin. apply nodup_nat_In in Hin. destruct Hin as [Hin _].
    destruct (Forall2_ex_l _ _ _ _ _ HA s' Hin) as (s & Hs & Ho). exists s. tauto.
Qed.

End Preserve.

(* ------------------------------------------------------------------ no two equal nodes *)
Inductive reachable {P} (h : list (node P)) (sinks : list nat) : nat -> Prop :=
| reach_sink : forall s, In s sinks -> reachable h sinks s
| reach_parent : forall n nd p, reachable h sinks n -> nth_error h n = Some nd -> In p (parents nd) ->
                                reachable h sinks p.

Section NoTwoEqual.
Variable P : Type.
Variable pred : node P -> node P -> bool.
Variable h : list (node P).

Definition DJ (done : list (nat * nat)) (st : dstate P) : Prop :=
  (forall r, In r (dreg st) -> r < List.length (dheap st)) /\
  (forall m r, In (m, r) done -> In r (dreg st)) /\
  (forall r nd p, In r (dreg st) -> nth_error (dheap st) r = Some nd -> In p (parents nd) -> In p (dreg st)) /\
  (forall r r0 nd nd0, In r (dreg st) -> In r0 (dreg st) -> r0 < r ->
     nth_error (dheap st) r = Some nd -> nth_error (dheap st) r0 = Some nd0 ->
     cmp_nodes nd nd0 && pred nd nd0 = false).

Lemma find_node_none : forall (st : dstate P) nd, find_node pred st nd = None ->
  forall r0 nd0, In r0 (dreg st) -> nth_error (dheap st) r0 = Some nd0 -> cmp_nodes nd nd0 && pred nd nd0 = false.
Proof.
  intros st nd H r0 nd0 Hin Hn. unfold find_node in H.
  pose proof (find_none _ _ H r0 Hin) as H1. simpl in H1. now rewrite Hn in H1.
Qed.

Lemma find_node_some' : forall (st : dstate P) nd r, find_node pred st nd = Some r -> In r (dreg st).
Proof. intros st nd r H. unfold find_node in H. apply find_some in H. tauto. Qed.

Lemma dedup_visit_inv2 : forall done st n nd inputs st' r,
  DJ done st -> nth_error h n = Some nd -> lookupn n done = None ->
  gather (dedup_output) st done (nins nd) = Ok (Ready inputs) ->
  dedup_visit pred st n nd inputs = Ok (st', r) -> DJ ((n, r) :: done) st'.
Proof.
  intros done st n nd inputs st' r (Hc & Hd & He & Hf) Hn _ Hg Hv.
  apply gather_spec in Hg. unfold dedup_output in Hg. unfold dedup_visit in Hv.
  destruct (find_node pred st (mkNode (nname nd) (nouts nd) (npay nd) inputs)) as [other|] eqn:Hfind.
  - injection Hv as <- <-. repeat split; try assumption.
    intros m r' [Heq|Hin]; [|now apply (Hd m)]. injection Heq as <- <-. eapply find_node_some'; eassumption.
  - injection Hv as <- <-. unfold DJ. simpl.
    set (nd' := mkNode (nname nd) (nouts nd) (npay nd) inputs) in *.
    set (r := List.length (dheap st)) in *.
    assert (Hold : forall r0, In r0 (dreg st) -> forall x, nth_error (dheap st ++ [nd']) r0 = x -> nth_error (dheap st) r0 = x).
    { intros r0 H0 x Hx. rewrite nth_error_app1 in Hx; [assumption|now apply Hc]. }
    assert (Hnew : nth_error (dheap st ++ [nd']) r = Some nd').
    { rewrite nth_error_app2 by (unfold r; lia). unfold r. rewrite Nat.sub_diag. reflexivity. }
    split; [|split; [|split]].
    + intros r0 H0. rewrite app_length. simpl. apply in_app_or in H0. destruct H0 as [H0|[<-|[]]]; [specialize (Hc _ H0)|unfold r]; lia.
    + intros m r' [Heq|Hin]; apply in_or_app.
      * injection Heq as <- <-. right. now left.
      * left. now apply (Hd m).
    + intros r0 nd0 p H0 Hn0 Hp. apply in_or_app. left. apply in_app_or in H0. destruct H0 as [H0|[<-|[]]].
      * apply (He r0 nd0 p H0); [|assumption]. now apply Hold.
      * rewrite Hnew in Hn0. injection Hn0 as <-. unfold parents in Hp. simpl in Hp.
        apply in_map_iff in Hp. destruct Hp as (x & <- & Hx).
        destruct (Forall2_ex_l _ _ _ _ _ Hg x Hx) as (i & _ & _ & rp & Hl & Ho).
        apply out_node_ok in Ho. destruct Ho as (-> & _). simpl.
        apply (Hd (fst (snd i))). now apply lookupn_In.
    + intros r1 r0 nd1 nd0 H1 H0 Hlt Hn1 Hn0.
      apply in_app_or in H1. apply in_app_or in H0.
      destruct H0 as [H0|[<-|[]]].
      2:{ destruct H1 as [H1|[<-|[]]]; [specialize (Hc _ H1); unfold r in Hlt; lia|lia]. }
      apply (Hold _ H0) in Hn0.
      destruct H1 as [H1|[<-|[]]].
      * apply (Hold _ H1) in Hn1. exact (Hf r1 r0 nd1 nd0 H1 H0 Hlt Hn1 Hn0).
      * rewrite Hnew in Hn1. injection Hn1 as <-. eapply find_node_none; eassumption.
Qed.

(* pred decides equality of payloads (same_payload with a sound and complete ==) *)
Hypothesis pred_spec : forall a b, pred a b = true <-> npay a = npay b.

Lemma no_two_equal : forall (g g' : graph P), h = heap g ->
  deduplicate_nodes pred g = Ok g' ->
  forall a b nda ndb, reachable (heap g') (sinks g') a -> reachable (heap g') (sinks g') b -> a <> b ->
    nth_error (heap g') a = Some nda -> nth_error (heap g') b = Some ndb ->
    ~ (npay nda = npay ndb /\ nouts nda = nouts ndb /\ forall k, lookup k (nins nda) = lookup k (nins ndb)).
Proof.
  intros g g' Hh H. unfold deduplicate_nodes in H. rewrite <- Hh in H.
  destruct (transform (dedup_visit pred) dedup_output h (sinks g) (mkD [] [])) as [[[st rs] done]|] eqn:Htr; simpl in H; [|discriminate].
  destruct (transform_inv P _ _ _ _ _ h DJ dedup_visit_inv2 (sinks g) (mkD [] []) st rs done) as [(Hc & Hd & He & Hf) HF];
    [repeat split; simpl; try tauto; intros; contradiction|exact Htr|].
  unfold dedup_finish in H.
  match type of H with bind ?m _ = _ => destruct m as [refs|] eqn:Hm; simpl in H; [|discriminate] end.
  injection H as <-. simpl.
  assert (Hrefs : forall x, In x refs -> In x (dreg st)).
  { clear -Hm. revert refs Hm. induction rs as [|r rs IH]; simpl; intros refs Hm.
    - injection Hm as <-. intros x [].
    - destruct (nth_error (dheap st) r) as [rnd|]; [|discriminate].
      destruct (find_node pred st rnd) as [ref|] eqn:Hf; simpl in Hm; [|discriminate].
      match type of Hm with bind ?m _ = _ => destruct m as [refs1|] eqn:Hm1; simpl in Hm; [|discriminate] end.
      injection Hm as <-. intros x [<-|Hx]; [eapply find_node_some'; eassumption|exact (IH refs1 eq_refl x Hx)]. }
  assert (Hreach : forall x, reachable (dheap st) (nodup_nat refs []) x -> In x (dreg st)).
  { intros x Hx. induction Hx as [s Hs|n nd p _ IH Hn Hp].
    - apply nodup_nat_In in Hs. apply Hrefs. tauto.
    - eapply He; eassumption. }
  intros a b nda ndb Ha Hb Hab Hna Hnb (Hpay & Houts & Hins).
  apply Hreach in Ha. apply Hreach in Hb.
  destruct (Nat.lt_gt_cases a b) as [Hne _]. specialize (Hne Hab). destruct Hne as [Hlt|Hlt].
  - specialize (Hf b a ndb nda Hb Ha Hlt Hnb Hna).
    rewrite (cmp_nodes_complete _ ndb nda) in Hf by (intros; congruence).
    simpl in Hf. assert (pred ndb nda = true) by (apply pred_spec; congruence). congruence.
  - specialize (Hf a b nda ndb Ha Hb Hlt Hna Hnb).
    rewrite (cmp_nodes_complete _ nda ndb) in Hf by (intros; congruence).
    simpl in Hf. assert (pred nda ndb = true) by (apply pred_spec; congruence). congruence.
Qed.

End NoTwoEqual.
