(* Model of earthkit.workflows.graph.expand (expand.py:16-260): _Subgraph.get_output,
   Splicer (__init__, source, processor, sink, graph, splice_source, splice_sink -- the
   default ones), _Expander.node / .graph, expand_graph with the default splicer; dispatch
   of visit.node_visit.  As of commits 96f2ca8 (removeprefix) and 5f2bc4c (get_output).
   The expander callback returns, for a node, None or a FRESH sub-graph (its own heap) with
   optional input and output maps.  The nested Splicer run appends its nodes to the same
   result heap.  No proofs in this file. *)
From Coq Require Import List String Bool Arith.
From EKW Require Import Graph.GStore Graph.Engine.
Import ListNotations.
Open Scope string_scope.
Open Scope list_scope.

(* str.removeprefix *)
Definition remove_prefix (pre s : string) : string :=
  if String.prefix pre s then String.substring (String.length pre) (String.length s - String.length pre) s else s.

Definition smap := list (string * string).

(* last binding wins, as for repeated assignment to a dict key *)
Definition lookup_last {A} (k : string) (l : list (string * A)) : option A := lookup k (rev l).

Section Expand.
Variable P : Type.

Definition subspec := (graph P * option smap * option smap)%type.
(* expand(n): None | Graph | (Graph, input_map, output_map); a bare Graph is (g, None, None) *)
Variable expander : node P -> option subspec.

(* NodeLike of _Expander: a Node or a _Subgraph *)
Inductive elike :=
| RN (r : nat)
| RSub (leaves : list (string * nat)) (omap : smap) (inner : list nat).

(* ---------------------------------------------------------------- Splicer *)
Section Splicer.
Variable pname : string.                               (* self.name *)
Variable sp_inputs : list (string * (nat * string)).   (* self.inputs *)
Variable sp_outputs : smap.                            (* self.outputs *)

Definition prefixed (n : string) : string := pname ++ "." ++ n.

Definition splicer_visit (h' : list (node P)) (n : nat) (s : node P)
           (inputs : list (string * (nat * string))) : res (list (node P) * nat) :=
  match nins s with
  | [] =>
      (* is_source(): def source(self, s) *)
      match lookup (nname s) sp_inputs with
      | None => Ok (h' ++ [mkNode (prefixed (nname s)) (nouts s) (npay s) []], List.length h')
      | Some inp =>
          (* splice_source: Node(name, s.outputs, s.payload, input=input) *)
          bind (mk_node (prefixed (nname s)) (Some (nouts s)) (npay s) [("input", inp)]) (fun c =>
          Ok (h' ++ [c], List.length h'))
      end
  | _ :: _ =>
      match nouts s with
      | [] =>
          (* is_sink(): def sink(self, s, /, **inputs) *)
          if smemb (nname s) (map snd sp_outputs) then
            (* splice_sink: Node(name, outputs=None, payload=s.payload, **inputs) *)
            bind (mk_node (prefixed (nname s)) None (npay s) inputs) (fun c =>
            Ok (h' ++ [c], List.length h'))
          else Ok (h' ++ [mkNode (prefixed (nname s)) (nouts s) (npay s) inputs], List.length h')
      | _ :: _ =>
          (* is_processor(): def processor(self, p, /, **inputs) *)
          Ok (h' ++ [mkNode (prefixed (nname s)) (nouts s) (npay s) inputs], List.length h')
      end
  end.

(* def graph(self, g, sinks) -> _Subgraph *)
Fixpoint splicer_sort (h' : list (node P)) (sinks : list nat) (leaves : list (string * nat)) (inner : list nat)
  : list (string * nat) * list nat :=
  match sinks with
  | [] => (leaves, inner)
  | s :: rest =>
      let sname := remove_prefix (pname ++ ".") (name_of h' s) in
      if smemb sname (map snd sp_outputs)
      then splicer_sort h' rest (leaves ++ [(sname, s)]) inner
      else splicer_sort h' rest leaves (inner ++ [s])
  end.

Definition splice (h' : list (node P)) (sub : graph P) : res (list (node P) * elike) :=
  bind (transform splicer_visit out_node (heap sub) (sinks sub) h') (fun x =>
  let h'' := fst (fst x) in
  let '(leaves, inner) := splicer_sort h'' (snd (fst x)) [] [] in
  Ok (h'', RSub leaves sp_outputs inner)).

End Splicer.

(* Splicer.__init__ *)
Definition mk_sp_inputs (inputs : list (string * (nat * string))) (imap : option smap)
  : res (list (string * (nat * string))) :=
  match imap with
  | None => Ok inputs
  | Some m => map_res (fun im => match lookup (snd im) inputs with
                                 | Some v => Ok (fst im, v)
                                 | None => Err "KeyError"
                                 end) m
  end.

Definition mk_sp_outputs (outs : list string) (omap : option smap) : smap :=
  match omap with
  | None => map (fun o => (o, o)) outs
  | Some m => map (fun o => (o, match lookup o m with Some v => v | None => o end)) outs
  end.

(* _Expander.node *)
Definition expand_visit (h' : list (node P)) (n : nat) (nd : node P)
           (inputs : list (string * (nat * string))) : res (list (node P) * elike) :=
  match expander nd with
  | None => Ok (h' ++ [mkNode (nname nd) (nouts nd) (npay nd) inputs], RN (List.length h'))
  | Some (sub, imap, omap) =>
      bind (mk_sp_inputs inputs imap) (fun spi =>
      splice (nname nd) spi (mk_sp_outputs (nouts nd) omap) h' sub)
  end.

(* Transformer.__transform_output on a Node or a _Subgraph (both have get_output);
   AttributeError -> the (node, output) tuple, outside the modelled domain *)
Definition expand_output (h' : list (node P)) (r : elike) (o : string) : res (nat * string) :=
  match r with
  | RN r => out_node h' r o
  | RSub leaves omap inner =>
      match lookup o omap with
      | None => Err "model:tuple-input"
      | Some lname =>
          match lookup_last lname leaves with
          | None => Err "model:tuple-input"
          | Some leaf => out_node h' leaf DEFAULT_OUTPUT      (* leaves[lname].get_output() *)
          end
      end
  end.

(* leaves.values(): one entry per key, at the position of its first insertion, holding the
   value inserted last *)
Fixpoint dict_values (l : list (string * nat)) (seen : list string) (all : list (string * nat)) : list nat :=
  match l with
  | [] => []
  | (k, _) :: r =>
      if smemb k seen then dict_values r seen all
      else match lookup_last k all with
           | Some v => v :: dict_values r (k :: seen) all
           | None => dict_values r (k :: seen) all
           end
  end.

(* _Expander.graph (after commit b145629: the leaves of an expanded sink are
   sinks too, unless already listed) *)
Fixpoint expand_sinks (rs : list elike) (acc : list nat) : list nat :=
  match rs with
  | [] => acc
  | RN r :: rest => expand_sinks rest (acc ++ [r])
  | RSub leaves _ inner :: rest =>
      let acc1 := acc ++ inner in
      let acc2 := fold_left (fun a leaf => if memb leaf a then a else a ++ [leaf])
                            (dict_values leaves [] leaves) acc1 in
      expand_sinks rest acc2
  end.

Definition expand_graph (g : graph P) : res (graph P) :=
  bind (transform expand_visit expand_output (heap g) (sinks g) [])
       (fun x => Ok (mkGraph (fst (fst x)) (expand_sinks (snd (fst x)) []))).

End Expand.
Arguments splicer_visit {P}. Arguments splicer_sort {P}. Arguments splice {P}.
Arguments expand_visit {P}.
Arguments expand_output {P}. Arguments expand_graph {P}.
