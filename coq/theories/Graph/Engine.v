(* Model of earthkit.workflows.graph.transform.Transformer.transform (transform.py:52-94)
   and visit.node_visit, generic in the callbacks.

   Representation.  The input graph lives in a read-only heap [h] (Graph/GStore.v, parents
   at smaller indices).  Every transformer in graph/ writes a node only while visiting it
   (node.name = ..., node.inputs = ...) or creates fresh nodes, and the engine reads a node's
   fields only before it is visited; so the written/fresh nodes are appended to a second,
   append-only RESULT heap carried in the transformer state [St], and `done` maps an input
   node (index in h) to its NodeLike result [R].  An OutputLike is [Ou].

   The loop is the source's stack loop: todo's top is the head of [todo]; per iteration
   either the top is already done (pop), or its inputs are scanned in order -- the first
   parent that is not done is pushed (`break`), otherwise the transformed outputs are
   collected and the node is visited, recorded and popped.  Fuel is explicit; running out
   is Err "model:OutOfFuel".  No proofs in this file. *)
From Coq Require Import List String Bool Arith.
From EKW Require Import Graph.GStore.
Import ListNotations.
Open Scope string_scope.
Open Scope list_scope.

Fixpoint lookupn {A} (n : nat) (l : list (nat * A)) : option A :=
  match l with
  | [] => None
  | (k, v) :: r => if Nat.eqb n k then Some v else lookupn n r
  end.

Fixpoint map_res {A B} (f : A -> res B) (l : list A) : res (list B) :=
  match l with
  | [] => Ok []
  | x :: r => bind (f x) (fun y => bind (map_res f r) (fun ys => Ok (y :: ys)))
  end.

Inductive scan (Ou : Type) : Type := Push (p : nat) | Ready (inputs : list (string * Ou)).
Arguments Push {Ou}. Arguments Ready {Ou}.

Section Engine.
Variable P : Type.
Variables St R Ou : Type.
(* self.__transform(node, inputs) = node_visit(self, node, inputs) for this transformer *)
Variable visit : St -> nat -> node P -> list (string * Ou) -> res (St * R).
(* self.__transform_output(done[parent], isrc) *)
Variable output : St -> R -> string -> res Ou.

(* for iname, isrc in node.inputs.items(): ... *)
Fixpoint gather (st : St) (done : list (nat * R)) (ins : list (string * (nat * string)))
  : res (scan Ou) :=
  match ins with
  | [] => Ok (Ready [])
  | (iname, (p, oname)) :: rest =>
      match lookupn p done with
      | None => Ok (Push p)                                   (* todo.append(inode); break *)
      | Some r =>
          bind (output st r oname) (fun o =>
          bind (gather st done rest) (fun sc =>
          match sc with
          | Push q => Ok (Push q)
          | Ready l => Ok (Ready ((iname, o) :: l))
          end))
      end
  end.

Fixpoint loop (fuel : nat) (h : list (node P)) (todo : list nat) (done : list (nat * R)) (st : St)
  : res (list (nat * R) * St) :=
  match fuel with
  | 0 => Err "model:OutOfFuel"
  | S f =>
      match todo with
      | [] => Ok (done, st)
      | n :: rest =>
          match lookupn n done with
          | Some _ => loop f h rest done st                   (* if node in done: pop *)
          | None =>
              match nth_error h n with
              | None => Err "model:dangling"
              | Some nd =>
                  match gather st done (nins nd) with
                  | Err e => Err e
                  | Ok (Push p) => loop f h (p :: todo) done st
                  | Ok (Ready inputs) =>
                      match visit st n nd inputs with
                      | Err e => Err e
                      | Ok (st', r) => loop f h rest ((n, r) :: done) st'
                      end
                  end
              end
          end
      end
  end.

(* every push is caused by one (node, input) pair or one sink; every iteration pushes or pops *)
Definition engine_fuel (h : list (node P)) (sinks : list nat) : nat :=
  2 + 2 * (List.length sinks + list_sum (map (fun nd => S (List.length (nins nd))) h)).

(* returns the final state, [done[s] for s in graph.sinks], and done itself *)
Definition transform (h : list (node P)) (sinks : list nat) (st : St)
  : res (St * list R * list (nat * R)) :=
  bind (loop (engine_fuel h sinks) h (rev sinks) [] st) (fun ds =>
  bind (map_res (fun s => match lookupn s (fst ds) with Some r => Ok r | None => Err "KeyError" end) sinks)
       (fun rs => Ok (snd ds, rs, fst ds))).

End Engine.

Arguments gather {St R Ou}. Arguments loop {P St R Ou}. Arguments transform {P St R Ou}.
Arguments engine_fuel {P}.

(* Transformer.__transform_output for a transformed node that is a Node living at index r
   of the result heap (after commit 5f2bc4c: get_output is asked, not getattr).  The
   source's fallback for a missing output is the tuple (node, output), which is not an
   Output: graphs whose inputs name outputs their parents do not have are outside the
   modelled domain ("model:tuple-input"). *)
Definition out_node {P} (h' : list (node P)) (r : nat) (oname : string) : res (nat * string) :=
  match nth_error h' r with
  | None => Err "model:dangling"
  | Some nd => if smemb oname (nouts nd) then Ok (r, oname) else Err "model:tuple-input"
  end.
