"""Action.std with a batch size on integer arrays: the squares are taken in the arrays' own element type
(self.power(2)) and wrap around, so the batch size changes the result (NaN / wrong numbers); unbatched std is right.
Run: PYTHONPATH=<repo>/src /venv/bin/python repro_std_int.py   (exit 1 = defect present)"""
import functools, sys, warnings
import numpy as np
warnings.filterwarnings("ignore")
from earthkit.workflows.fluent import from_source

def const(v): return v
def ev(node, memo):
    if id(node) not in memo:
        f, a, k = node.payload
        memo[id(node)] = f(*[ev(node.inputs[x].parent, memo) if isinstance(x, str) and x in node.inputs else x for x in a], **k)
    return memo[id(node)]

data = np.array([[98, 20], [98, 30], [102, 40], [102, 50]], dtype=np.int8)       # 4 members, 2 grid points
act = from_source([functools.partial(const, data[i]) for i in range(4)], dims=["member"], coords={"member": list(range(4))})
want = np.std(data, axis=0)
bad = 0
for bs in (0, 2, 3):
    got = ev(act.std(dim="member", batch_size=bs).nodes.data.flatten()[0], {})
    ok = np.allclose(got, want)
    bad += not ok
    print(f"std(batch_size={bs}) = {got}   numpy: {want}   {'ok' if ok else 'WRONG'}")
sys.exit(1 if bad else 0)
