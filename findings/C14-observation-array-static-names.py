"""A large numpy array as static argument: str(payload) abbreviates it, two different arrays give one node name."""
import warnings; warnings.filterwarnings("ignore")
import numpy as np
from earthkit.workflows import Cascade
from earthkit.workflows.fluent import from_source, Payload
def read(): return 1.0
def weigh(x, w): return x * w.sum()
w1 = np.arange(2000.0); w2 = w1.copy(); w2[1000] = -1.0
src = from_source([read], dims=["s"])
a = src.map(Payload(weigh, ["input0", w1])); b = src.map(Payload(weigh, ["input0", w2]))
na, nb = a.nodes.data.flatten()[0].name, b.nodes.data.flatten()[0].name
print("names equal:", na == nb)
print("nodes in union (expected 3):", len(list(Cascade.from_actions([a, b])._graph.nodes())))
