"""Two different closures behind functools.lru_cache (or a functools.update_wrapper'ed object) get ONE node name.
PYTHONPATH=<repo>/src /venv/bin/python repro_wrappers.py"""
import functools, warnings
warnings.filterwarnings("ignore")
from earthkit.workflows import Cascade
from earthkit.workflows.fluent import from_source

def scale_by(k):
    def scale(x):
        return x * k
    return scale

def read():
    return 10.0

src = from_source([read], dims=["s"])
by2 = src.map(functools.lru_cache(maxsize=None)(scale_by(2)))
by3 = src.map(functools.lru_cache(maxsize=None)(scale_by(3)))
n2, n3 = by2.nodes.data.flatten()[0].name, by3.nodes.data.flatten()[0].name
print("names equal:", n2 == n3, n2[:24])
print("nodes in union (expected 3):", len(list(Cascade.from_actions([by2, by3])._graph.nodes())))
