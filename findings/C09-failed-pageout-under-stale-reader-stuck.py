"""failed page-out of a dataset that has a stale (never closed, > 15 min old) reader: the dataset stays in status paging_out for ever.
run: PYTHONPATH=<repo>/src python /tmp/c09_stuck_demo.py"""
import time, types, logging
from multiprocessing.shared_memory import SharedMemory
import cascade.shm.dataset as dataset
logging.disable(logging.CRITICAL)
now = [1]
dataset.time = types.SimpleNamespace(time_ns=lambda: now[0])
m = dataset.Manager("c9stuck", 4)
shmid, err = m.add("a", 3, "d"); seg = SharedMemory(shmid, create=True, size=3); seg.buf[:3] = b"abc"; m.close_callback("a", "")
_, _, rdid, _, err = m.get("a")                   # a reader that never closes (a worker that died)
now[0] += dataset.STALE_READ + 10                 # ... 15 minutes later
m.disk.root.cleanup()                             # the page-out directory is gone / the disk is full: the page file cannot be written
print("add b ->", m.add("b", 3, "d"))             # wait: page-out of a issued
time.sleep(0.5)                                   # the Disk writer thread fails and runs the callback: purge(a) is DELAYED (reader), status stays paging_out
print("a:", m.datasets["a"].status.name, "delayed_purge", m.datasets["a"].delayed_purge, "free", m.free_space, "lock", m.pageout_all.locked())
for i in range(3):
    now[0] += 1
    print("add b ->", m.add("b", 3, "d"), "| get a ->", m.get("a")[-1], "| add a ->", m.add("a", 1, "d")[1])
try:
    m.close_callback("a", rdid)
except ValueError as e:
    print("the reader's close is refused:", e)
m.purge("a"); print("after purge:", {k: v.status.name for k, v in m.datasets.items()}, "free", m.free_space)
seg.close(); seg.unlink()
