import warnings; warnings.filterwarnings("ignore")
import numpy as np
from earthkit.workflows import Cascade
from earthkit.workflows.fluent import from_source
def mk():
    def read(): return np.ones(2)
    def f(x): return x+1
    a = from_source(np.array([read, read], dtype=object), dims=["x"])
    m1 = a.map(f); m2 = a.map(f)
    return m1.add(m2).sum("x")
cx, cy = Cascade.from_actions([mk()]), Cascade.from_actions([mk()])
print("cx", [(n.name[:10], id(n)%10000) for n in cx._graph.nodes()])
s = cx + cy
from collections import Counter
c=Counter(n.name for n in s._graph.nodes())
for n in s._graph.nodes():
    if c[n.name]>1:
        print("DUP", n.name[:14], id(n)%10000, {k:(v.parent.name[:10], id(v.parent)%10000) for k,v in n.inputs.items()}, n.outputs)
print([ (n.name[:10], id(n)%10000) for n in s._graph.nodes()])
