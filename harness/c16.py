"""C16 -- the preschedule is a faithful structural summary of the job DAG.

Real `cascade.scheduler.graph.precompute` is run on generated JobInstances (chains, diamonds,
multi-edges, multi-output tasks, isolated tasks, many components, exhaustive small DAGs).
  * oracle: a direct reading of the property on the returned Preschedule (union-find components,
    BFS distances, brute-force nearest common descendant);
  * correspondence: Coq evaluates the Gallina model (Sched/Presched.v) on the same job and compares
    with the observation (Sched/PreschedCheck.v), set-valued fields as sets;
  * a separate malformed stream (two edges into one input slot, edges naming unknown tasks, edges with
    both/neither of kw and ps) is outside the property's domain: correspondence only."""
import itertools
import signal
from collections import deque

from common import cN, cZ, clist, cstr, copt, coq_results

TRUSTED = [
    "harness/c16.py glue: task names / output names / kw names are mapped to numbers before they reach the Coq model",
    "cascade.scheduler.graph.ThreadPoolExecutor is replaced by a synchronous stand-in (same map semantics) so that a hang can be interrupted by a timer",
    "set iteration order of CPython is not modelled: node lists, sources and edge maps are compared as sets, component order is validated (non-increasing weight), "
    "and the Coq theorems are stated for every adjacency-list order",
]
ASSUMPTIONS = [
    "job well formed: distinct task ids, every edge joins two tasks of the job, has exactly one of sink_input_kw / sink_input_ps, and no two edges feed the same input slot of the same task",
    "job acyclic (exists a rank that strictly decreases along every edge); on a cyclic job enrich does not terminate, which is outside the property's domain",
    "theorems are stated under `precompute j = Ok p`; C16_total proves that every well formed acyclic job does give Ok with the fuel the model uses (no OutOfFuel, no KeyError)",
    "weak connectivity, paths and distances in the theorems are the inductive relations wconn / jpath / jcommon of Sched/PreschedMain.v over the job's edge list",
    "coptrs (the optional C++ nearest-common-descendant) is absent: the python fallback is what is modelled and run",
]

HEADER = """From Coq Require Import List NArith ZArith String.
From EKW Require Import Sched.Presched Sched.PreschedCheck.
Import ListNotations.
Open Scope string_scope.
"""


# ----------------------------------------------------------------------------- building real jobs
class SyncPool:
    def __init__(self, *a, **k):
        pass

    def __enter__(self):
        return self

    def __exit__(self, *a):
        return False

    def map(self, f, it):
        return [f(x) for x in list(it)]


class Hang(Exception):
    pass


def _alarm(*a):
    raise Hang()


def run_impl(case, limit=3.0):
    """case: {"tasks": [[name, [outs]]], "edges": [[src, out, snk, kw, ps]]} -> ("ok", Preschedule) | ("err", name) | ("hang", None)"""
    import logging
    import cascade.scheduler.graph as G
    from cascade.low.core import DatasetId, JobInstance, Task2TaskEdge, TaskDefinition, TaskInstance
    tasks = {}
    for name, outs in case["tasks"]:
        d = TaskDefinition(entrypoint="", func=None, environment=[], input_schema={}, output_schema={o: "int" for o in outs})
        tasks[name] = TaskInstance(definition=d, static_input_kw={}, static_input_ps={})
    edges = [Task2TaskEdge(source=DatasetId(s, o), sink_task=t, sink_input_kw=kw, sink_input_ps=ps) for s, o, t, kw, ps in case["edges"]]
    job = JobInstance(tasks=tasks, edges=edges)
    G.ThreadPoolExecutor = SyncPool
    G.logger.setLevel(logging.ERROR)   # "coptrs not found, falling back to python" once per component
    old = signal.signal(signal.SIGALRM, _alarm)
    signal.setitimer(signal.ITIMER_REAL, limit)
    try:
        pre = G.precompute(job)
        return "ok", pre
    except Hang:
        return "hang", None
    except Exception as e:
        return "err", type(e).__name__
    finally:
        signal.setitimer(signal.ITIMER_REAL, 0)
        signal.signal(signal.SIGALRM, old)


# ----------------------------------------------------------------------------- the property, read directly
def oracle(case, pre):
    """Returns a list of (signature, what).  Empty = the property holds on this Preschedule."""
    out = []
    names = [t for t, _ in case["tasks"]]
    tset = set(names)
    E = {(s, t) for s, o, t, kw, ps in case["edges"]}
    succ = {t: set() for t in names}
    pred = {t: set() for t in names}
    for s, t in E:
        succ[s].add(t)
        pred[t].add(s)
    comps = pre.components

    # every task in exactly one component
    seen = {}
    for ci, c in enumerate(comps):
        if len(set(c.nodes)) != len(c.nodes):
            out.append(("partition", f"component {ci} lists a task twice: {sorted(c.nodes)}"))
        for n in c.nodes:
            if n not in tset:
                out.append(("partition", f"component {ci} contains {n!r} which is not a task"))
            elif n in seen:
                out.append(("partition", f"task {n!r} is in components {seen[n]} and {ci}"))
            seen.setdefault(n, ci)
    for n in names:
        if n not in seen:
            out.append(("partition", f"task {n!r} is in no component"))
    if out:
        return out
    # no edge between components
    for s, t in sorted(E):
        if seen[s] != seen[t]:
            out.append(("closure", f"edge {s!r}->{t!r} joins components {seen[s]} and {seen[t]}"))
    # each component weakly connected
    for ci, c in enumerate(comps):
        start = c.nodes[0]
        reach, dq = {start}, deque([start])
        while dq:
            x = dq.popleft()
            for y in succ[x] | pred[x]:
                if y not in reach:
                    reach.add(y)
                    dq.append(y)
        if not set(c.nodes) <= reach:
            out.append(("connected", f"component {ci} {sorted(c.nodes)} is not weakly connected"))
    # heaviest first
    w = [len(c.nodes) for c in comps]
    if any(a < b for a, b in zip(w, w[1:])):
        out.append(("sort", f"component weights not in descending order: {w}"))
    # sources exactly the tasks without inputs
    for ci, c in enumerate(comps):
        want = sorted(n for n in c.nodes if not pred[n])
        if sorted(c.sources) != want:
            out.append(("sources", f"component {ci}: sources {sorted(c.sources)}, tasks without inputs {want}"))
    # consumers, inputs, outputs as the edges state
    want_o = {}
    want_i = {t: set() for t in names}
    for s, o, t, kw, ps in case["edges"]:
        want_o.setdefault((s, o), set()).add(t)
        want_i[t].add((s, o))
    got_o = {(d.task, d.output): set(v) for d, v in pre.edge_o.items() if v}
    if got_o != want_o:
        out.append(("edge_o", f"consumers recorded {sorted((k, sorted(v)) for k, v in got_o.items())}, edges state {sorted((k, sorted(v)) for k, v in want_o.items())}"))
    got_i = {t: {(d.task, d.output) for d in v} for t, v in pre.edge_i.items() if v}
    if got_i != {t: v for t, v in want_i.items() if v}:
        out.append(("edge_i", f"inputs recorded {sorted((k, sorted(v)) for k, v in got_i.items())}, edges state {sorted((k, sorted(v)) for k, v in want_i.items() if v)}"))
    got_t = {t: {(d.task, d.output) for d in v} for t, v in pre.task_o.items()}
    want_t = {t: {(t, o) for o in outs} for t, outs in case["tasks"]}
    if got_t != want_t:
        out.append(("task_o", f"outputs recorded {sorted((k, sorted(v)) for k, v in got_t.items())}, job states {sorted((k, sorted(v)) for k, v in want_t.items())}"))

    # shortest directed path lengths
    def bfs(a):
        dist, dq = {a: 0}, deque([a])
        while dq:
            x = dq.popleft()
            for y in succ[x]:
                if y not in dist:
                    dist[y] = dist[x] + 1
                    dq.append(y)
        return dist
    sp = {a: bfs(a) for a in names}
    memo = {}

    def longest(a):  # number of tasks on the longest path starting at a
        if a not in memo:
            memo[a] = 1 + max((longest(b) for b in succ[a]), default=0)
        return memo[a]

    for ci, c in enumerate(comps):
        depth = max(longest(a) for a in c.nodes)
        if c.depth != depth:
            out.append(("depth", f"component {ci}: depth {c.depth}, longest chain has {depth} tasks"))
        L = c.depth
        if set(c.value) != set(c.nodes):
            out.append(("value", f"component {ci}: value defined for {sorted(c.value)}, tasks {sorted(c.nodes)}"))
        for a in c.nodes:
            near = min(d for x, d in sp[a].items() if not succ[x])
            if c.value.get(a) != L - near:
                out.append(("value", f"component {ci}: value[{a!r}]={c.value.get(a)}, depth {L} - distance to nearest sink {near} = {L - near}"))
                break
        dm = c.distance_matrix
        if set(dm) != set(c.nodes) or any(set(dm[a]) != set(c.nodes) for a in dm):
            out.append(("distance", f"component {ci}: distance matrix is not defined exactly on the component's tasks"))
            continue
        bad = None
        for a in c.nodes:
            for b in c.nodes:
                common = [max(sp[a][x], sp[b][x]) for x in sp[a] if x in sp[b]]
                want = min(common) if common else L
                if dm[a][b] != want:
                    bad = bad or (a, b, dm[a][b], want)
        if bad:
            out.append(("distance", f"component {ci}: distance[{bad[0]!r}][{bad[1]!r}]={bad[2]}, smallest d with a common task within d steps (depth if none) = {bad[3]}"))
    return out


# ----------------------------------------------------------------------------- generators
NAMESETS = [
    lambda i: f"t{i}",
    lambda i: f"task-{i:03d}",
    lambda i: "n" * (i + 1),
    lambda i: f"{(i * 7919) % 1000}.x",
    lambda i: f"concat:{i}/a b",
]


def gen_dag(rng, big=False):
    shape = rng.choice(["random", "random", "chains", "diamonds", "layers", "forest", "sparse", "dense", "isolated"])
    n = rng.choice([1, 2, 3, 4, 5, 6, 7, 8, 9, 10, 12, 14]) if not big else rng.choice([18, 24, 30, 40])
    nm = rng.choice(NAMESETS)
    order = list(range(n))
    rng.shuffle(order)           # dict insertion order of tasks is independent of the topological order
    names = [nm(i) for i in range(n)]
    topo = list(range(n))
    rng.shuffle(topo)            # topo[k] = index of the k-th task in some topological order
    pairs = []
    if shape == "random":
        p = rng.choice([0.1, 0.2, 0.35, 0.6])
        pairs = [(a, b) for a in range(n) for b in range(a + 1, n) if rng.random() < p]
    elif shape == "sparse":
        pairs = [(rng.randrange(b), b) for b in range(1, n) if rng.random() < 0.5]
    elif shape == "dense":
        pairs = [(a, b) for a in range(n) for b in range(a + 1, n) if rng.random() < 0.85]
    elif shape == "chains":
        k = rng.randrange(1, 4)
        for c in range(k):
            ch = [i for i in range(n) if i % k == c]
            pairs += list(zip(ch, ch[1:]))
        if rng.random() < 0.3 and n > 3:
            pairs.append((0, n - 1))
    elif shape == "diamonds":
        i = 0
        while i + 3 < n:
            pairs += [(i, i + 1), (i, i + 2), (i + 1, i + 3), (i + 2, i + 3)]
            if rng.random() < 0.5:
                pairs.append((i, i + 3))      # shortcut past the diamond
            i += rng.choice([3, 4])
    elif shape == "layers":
        w = rng.randrange(1, 4)
        for b in range(w, n):
            for a in range(max(0, (b // w - 1) * w), (b // w) * w):
                if rng.random() < 0.6:
                    pairs.append((a, b))
    elif shape == "forest":
        for b in range(1, n):
            if rng.random() < 0.75:
                a = rng.randrange(b)
                pairs.append((a, b) if rng.random() < 0.5 else (a, b))
        pairs = [(min(a, b), max(a, b)) for a, b in pairs]
    elif shape == "isolated":
        pairs = [(a, b) for a in range(n) for b in range(a + 1, n) if rng.random() < 0.08]
    nout = [rng.choice([1, 1, 1, 2, 3]) for _ in range(n)]
    outs = [[rng.choice(["0", "out", "a.b"])] if k == 1 else [str(j) for j in range(k)] for k in nout]
    edges = []
    slot_ps = {i: 0 for i in range(n)}
    multi = False
    for a, b in pairs:
        reps = rng.choice([1, 1, 1, 1, 2, 3])
        multi = multi or reps > 1
        for _ in range(reps):
            s, t = topo[a], topo[b]
            o = rng.choice(outs[s])
            if rng.random() < 0.5:
                edges.append([names[s], o, names[t], None, slot_ps[t]])
            else:
                edges.append([names[s], o, names[t], f"kw{slot_ps[t]}", None])
            slot_ps[t] += 1
    rng.shuffle(edges)
    case = {"tasks": [[names[i], outs[i]] for i in order], "edges": edges}
    return case, shape


def gen_malformed(rng):
    case, _ = gen_dag(rng)
    kind = rng.choice(["dup-slot", "ghost-source", "ghost-sink", "typeerror-both", "typeerror-none"])
    names = [t for t, _ in case["tasks"]]
    if kind == "dup-slot" and case["edges"]:
        e = list(rng.choice(case["edges"]))
        # a second edge into the same slot, from any task that keeps the graph acyclic: reuse the same source task, other output or same
        case["edges"].insert(rng.randrange(len(case["edges"]) + 1), e[:])
        if len(case["edges"]) > 2:
            f = rng.choice(case["edges"])
            g = [x for x in case["edges"] if x[2] == f[2] and x is not f]
            if g:
                h = rng.choice(g)
                h[3], h[4] = f[3], f[4]
    elif kind == "ghost-source":
        t = rng.choice(names)
        case["edges"].append(["ghost", "0", t, "gk", None])
    elif kind == "ghost-sink":
        s, outs = rng.choice(case["tasks"])
        case["edges"].append([s, outs[0], "ghost", None, 0])
    elif kind == "typeerror-both":
        s, outs = rng.choice(case["tasks"])
        case["edges"].insert(rng.randrange(len(case["edges"]) + 1), [s, outs[0], rng.choice(names), "k", 0])
    else:
        s, outs = rng.choice(case["tasks"])
        case["edges"].insert(rng.randrange(len(case["edges"]) + 1), [s, outs[0], rng.choice(names), None, None])
    # the appended edge may close a cycle (source == sink or backwards): keep only acyclic ones, a cyclic job hangs enrich
    if kind.startswith("typeerror"):
        return case, kind        # raises before any loop
    return (case, kind) if acyclic(case) else gen_malformed(rng)


def acyclic(case):
    succ = {}
    for s, o, t, kw, ps in case["edges"]:
        succ.setdefault(s, set()).add(t)
    state = {}

    def visit(x):
        if state.get(x) == 1:
            return False
        if state.get(x) == 2:
            return True
        state[x] = 1
        for y in succ.get(x, ()):
            if not visit(y):
                return False
        state[x] = 2
        return True
    return all(visit(x) for x in list(succ))


def exhaustive(n):
    """every DAG on tasks 0..n-1 whose edges go from lower to higher index, single outputs"""
    pairs = [(a, b) for a in range(n) for b in range(a + 1, n)]
    for mask in range(1 << len(pairs)):
        edges = [[f"t{a}", "0", f"t{b}", None, a] for k, (a, b) in enumerate(pairs) if mask >> k & 1]
        yield {"tasks": [[f"t{i}", ["0"]] for i in range(n)], "edges": edges}


# ----------------------------------------------------------------------------- Coq terms
class Ids:
    def __init__(self, case):
        self.t = {}
        for name, _ in case["tasks"]:
            self.t[name] = len(self.t)
        self.o, self.k = {}, {}

    def task(self, n):
        return self.t.setdefault(n, len(self.t))

    def out(self, o):
        return self.o.setdefault(o, len(self.o))

    def kw(self, k):
        return self.k.setdefault(k, len(self.k))


def coq_case(case, status, pre):
    ids = Ids(case)
    T, O = ids.task, ids.out
    tasks = clist([f"({cN(T(n))}, {clist([cN(O(o)) for o in outs])})" for n, outs in case["tasks"]])
    edges = clist([f"mkE {cN(T(s))} {cN(O(o))} {cN(T(t))} {copt(kw, lambda k: cN(ids.kw(k)))} {copt(ps, cN)}" for s, o, t, kw, ps in case["edges"]])
    job = f"mkJ {tasks} {edges}"
    if status != "ok":
        return f"case_err ({job}) {cstr(pre)}"

    def dsid(d):
        return f"({cN(T(d.task))}, {cN(O(d.output))})"
    comps = []
    for c in pre.components:
        dist = clist([f"({cN(T(a))}, {clist([f'({cN(T(b))}, {cZ(d)})' for b, d in row.items()])})" for a, row in c.distance_matrix.items()])
        val = clist([f"({cN(T(a))}, {cZ(v)})" for a, v in c.value.items()])
        comps.append(f"mkO {clist([cN(T(n)) for n in c.nodes])} {clist([cN(T(n)) for n in c.sources])} {dist} {val} {cZ(c.depth)}")
    eo = clist([f"({dsid(d)}, {clist([cN(T(x)) for x in v])})" for d, v in pre.edge_o.items()])
    ei = clist([f"({cN(T(t))}, {clist([dsid(d) for d in v])})" for t, v in pre.edge_i.items()])
    to = clist([f"({cN(T(t))}, {clist([dsid(d) for d in v])})" for t, v in pre.task_o.items()])
    return f"case_ok ({job}) (mkOP {clist(comps)} {eo} {ei} {to})"


def canon_key(case):
    ids = Ids(case)
    return (len(case["tasks"]), tuple(sorted((ids.task(s), ids.task(t), o) for s, o, t, kw, ps in case["edges"])))


def describe(case, pre):
    return {"tasks": len(case["tasks"]), "edges": len(case["edges"]),
            "components": [sorted(c.nodes) for c in pre.components], "depths": [c.depth for c in pre.components]}


# ----------------------------------------------------------------------------- run
def one(ctx, res, case, tag, terms, metas, in_domain=True):
    status, pre = run_impl(case)
    res.evaluations += 1
    res.count(tag)
    if status == "hang":
        if in_domain:
            res.fail("hang", "precompute did not return within 3 s on an acyclic job", case)
            return False
        # outside the domain (an input slot with two sources): the model must run out of fuel in the same loop
        res.count("malformed:hang")
        terms.append(coq_case(case, "err", "OutOfFuel"))
        metas.append(case)
        return True
    if status == "err":
        if in_domain:
            res.fail("raises", f"precompute raised {pre} on a well formed acyclic job", case)
        terms.append(coq_case(case, status, pre))
        metas.append(case)
        return True
    if in_domain:
        bad = oracle(case, pre)
        for sig, what in bad[:1]:
            res.fail(sig, what, case)
        nt, ne = len(case["tasks"]), len(case["edges"])
        if nt >= 2 and ne >= 1:
            res.nontrivial_keys.add(canon_key(case))
        res.count(f"components:{min(len(pre.components), 4)}{'+' if len(pre.components) >= 4 else ''}")
        res.count(f"max-depth:{min(max(c.depth for c in pre.components), 6) if pre.components else 0}")
        pairs = [(s, t) for s, o, t, kw, ps in case["edges"]]
        if len(set(pairs)) < len(pairs):
            res.count("has-multi-edge")
        if any(len(o) > 1 for _, o in case["tasks"]):
            res.count("has-multi-output-task")
        if any(len(c.nodes) == 1 for c in pre.components):
            res.count("has-isolated-task")
        if len(res.samples) < 4 and nt >= 4 and ne >= 3:
            res.samples.append({"case": case, "observed": describe(case, pre)})
    terms.append(coq_case(case, status, pre))
    metas.append(case)
    return True


def enough(res):
    """stop generating once the verdict is settled: a hang costs 3 s each, 40 failing inputs are plenty to shrink from"""
    return any(f["signature"] == "hang" for f in res.failures) or len(res.failures) >= 40


def run(ctx, res):
    res.rule = ("a case is one JobInstance given to the real precompute; non-trivial = at least 2 tasks and 1 edge; distinct = distinct "
                "(task count, multiset of (source, sink, output) over task indices)")
    terms, metas = [], []
    for n in range(0, ctx.n(5, 6)):
        for case in exhaustive(n):
            if enough(res):
                break
            one(ctx, res, case, f"exhaustive:n={n}", terms, metas)
    rng = ctx.sub_rng("dag")
    for i in range(ctx.n(500, 12000)):
        case, shape = gen_dag(rng)
        if enough(res):
            break
        one(ctx, res, case, "shape:" + shape, terms, metas)
    for i in range(ctx.n(12, 300)):
        case, shape = gen_dag(rng, big=True)
        if enough(res):
            break
        one(ctx, res, case, "big:" + shape, terms, metas)
    rng = ctx.sub_rng("malformed")
    for i in range(ctx.n(60, 1500)):
        case, kind = gen_malformed(rng)
        if enough(res):
            break
        one(ctx, res, case, "malformed:" + kind, terms, metas, in_domain=False)
    results, logs = coq_results("C16", HEADER, terms, "check_precompute", shard=ctx.n(80, 250), tag="pre", timeout=1200)
    res.corr_checked += len(results)
    for r, case in zip(results, metas):
        if r is not True:
            res.disagree("Coq model of precompute disagrees with cascade.scheduler.graph.precompute" +
                         ("" if r is False else " (cases file did not compile: " + (logs[0][-400:] if logs else "") + ")"), case)
            break


def search(ctx, res):
    """enlarged search with the oracle only: other seeds, bigger graphs, exhaustive n=5"""
    rng = ctx.sub_rng("search")
    gens = itertools.chain(exhaustive(5), (gen_dag(rng, big=(i % 10 == 0))[0] for i in range(6000)))
    for case in gens:
        status, pre = run_impl(case)
        if status == "hang":
            return {"signature": "hang", "what": "precompute did not return within 3 s on an acyclic job", "case": case}
        if status == "err":
            return {"signature": "raises", "what": f"precompute raised {pre} on a well formed acyclic job", "case": case}
        bad = oracle(case, pre)
        if bad:
            return {"signature": bad[0][0], "what": bad[0][1], "case": case}
    return None


def shrink(ctx, f):
    """greedy: drop edges, then tasks, while the same signature still fails"""
    case, sig = f["case"], f["signature"]

    def fails(c):
        status, pre = run_impl(c)
        if status == "hang":
            return "hang" == sig and "hang"
        if status == "err":
            return "raises" == sig and "raises"
        bad = oracle(c, pre)
        return bad[0] if bad and bad[0][0] == sig else None
    best, what = case, f["what"]
    changed = True
    while changed:
        changed = False
        for i in range(len(best["edges"])):
            c = {"tasks": best["tasks"], "edges": best["edges"][:i] + best["edges"][i + 1:]}
            r = fails(c)
            if r:
                best, changed = c, True
                what = r[1] if isinstance(r, tuple) else what
                break
        if changed:
            continue
        for i in range(len(best["tasks"])):
            name = best["tasks"][i][0]
            if any(e[0] == name or e[2] == name for e in best["edges"]):
                continue
            c = {"tasks": best["tasks"][:i] + best["tasks"][i + 1:], "edges": best["edges"]}
            r = fails(c)
            if r:
                best, changed = c, True
                what = r[1] if isinstance(r, tuple) else what
                break
    return {"signature": sig, "what": what, "case": best}


def replay(ctx, case):
    c = case.get("case", case)
    if not isinstance(c, dict) or "tasks" not in c:
        return {"fails": None, "note": "no input stored (broken proof / correspondence): re-run ./check C16"}
    status, pre = run_impl(c)
    if status == "hang":
        return {"fails": True, "what": "precompute did not return within 3 s"}
    if status == "err":
        return {"fails": True, "what": f"precompute raised {pre}"}
    bad = oracle(c, pre)
    return {"fails": bool(bad), "violations": [list(b) for b in bad]}
