"""C04 -- data is never purged, transferred or fetched while missing or still needed.
Real cascade.controller.impl.run against the fake cluster (sched_common.FakeCluster); the
cluster flags every purge/transfer/fetch that violates the property; each trace is replayed
on the Coq model (Sched/Replay.v) whose invariant theorems are in Props/C04.v."""
import sched_common as sc

TRUSTED = ["harness/sched_common.py: fake cluster behind the Bridge seam (mirrors coq/theories/Sched/Model.v), id mapping t<i>/o<i>/h<i>"]
ASSUMPTIONS = ["one task per TaskSequence (no fusing: build_assignment never produces more)",
               "every task declares at least one output (JobInstance contract)",
               "cluster semantics: a transfer/fetch reads its source when it completes; purges, transfers and publications travel on different paths, in any order"]


def gen_c04(rng, max_tasks=10):
    """bias: requested outputs that are also consumed on other hosts"""
    spec = sc.gen_spec(rng, max_tasks=max_tasks)
    consumed = {tuple(d) for t in spec["tasks"] for d in t["ins"]}
    for d in consumed:
        if rng.random() < 0.5 and list(d) not in [list(x) for x in spec["ext"]]:
            spec["ext"].append(d)
    spec["ext"] = sorted(set(map(tuple, spec["ext"])))
    return spec


def run(ctx, res):
    res.rule = ("random DAGs (0-10 tasks, 1-4 outputs, multi-edges, several components) x clusters (1-4 hosts x 1-3 workers, GPU subsets) x requested-output sets "
                "biased towards outputs consumed on other hosts x delivery modes fifo/batchy/shuffle/newest; non-trivial = >= 2 tasks and >= 6 steps; distinct by (job, cluster, mode)")
    sc.run_family(ctx, res, "C04", ctx.n(240, 4000), gen=gen_c04)
    if ctx.tier == "thorough":
        sc.run_family(ctx, res, "C04", 0, cases=sc.exhaustive_cases(ctx.sub_rng("exh")))
        res.extra["exhaustive_small_scope"] = "all jobs with <= 3 tasks (1-2 outputs, <= 2 inputs) x 4 cluster shapes x 3 requested-output sets x 2 delivery modes"


def search(ctx, res):
    from common import Result
    r2 = Result()
    ctx2 = type(ctx)(ctx.pid, "thorough", ctx.seed + 101)
    sc.run_family(ctx2, r2, "C04", 1500, gen=gen_c04, coq_every=10**9)
    return r2.failures[0] if r2.failures else None


def replay(ctx, case):
    return sc.replay_case(case)
