"""C03 -- a feasible job always completes: no deadlock, livelock or scheduler crash.
Real cascade.controller.impl.run against the fake cluster: the cluster raises when the
controller waits with nothing outstanding (deadlock), an interval timer fires when the loop makes
no Bridge call (spin), exceptions from run are recorded, and at return every task must have
finished, every requested output been delivered and shutdown been called once.  Each trace is
replayed on the Coq model, which also validates the assign_progress predicate the _partial
theorems assume (in-order runs)."""
import sched_common as sc

TRUSTED = ["harness/sched_common.py: fake cluster behind the Bridge seam (mirrors coq/theories/Sched/Model.v); deadlock and spin detectors"]
TRUSTED += ["harness/sched_heur.py: recorder wrapped around cascade.controller.impl.{has_computable,assign,plan,initialize} and "
            "cascade.scheduler.assign._assignment_heuristic (oracle values and scheduling state per loop iteration)"]
ASSUMPTIONS = ["feasible environments only: >= 1 worker, a GPU worker exists if a task needs one",
               "fair cluster: every commanded step eventually completes (the fake cluster completes enabled steps at random)",
               "assign_progress (after the assign phase: something computable implies something running) is validated per round, not proved",
               "a bound on the number of rounds is not proved",
               "Sched/ProgressFull.v (heuristic modelled in Sched/Heur.v): assign_progress is PROVED for the heuristic-driven system under wf_comps (checked "
               "on every recorded preschedule), feasible J E and in-order delivery; distances/overheads/values and set/dict iteration orders are an oracle "
               "recorded from the real State; the tables worker2task_distance/overhead/values themselves (and KeyErrors from them) are not modelled"]


def gen_c03(rng, max_tasks=10):
    spec = sc.gen_spec(rng, max_tasks=max_tasks)
    # more components than hosts and fewer; occasionally a requested output whose value is None
    if spec["ext"] and rng.random() < 0.06:
        k, o = rng.choice(spec["ext"])
        spec["tasks"][k]["none"] = [o]
    return spec


def run(ctx, res):
    res.rule = ("random DAGs (incl. empty jobs, several components, more components than hosts and fewer) x feasible clusters x delivery modes "
                "fifo/batchy (in order) and shuffle/newest (arbitrary reordering); non-trivial = >= 2 tasks and >= 6 steps; distinct by (job, cluster, mode)")
    sc.run_family(ctx, res, "C03", ctx.n(280, 6000), gen=gen_c03, max_tasks=ctx.n(10, 14))
    # additional part: the assignment heuristic itself (Sched/Heur.v) against the real scheduler.api.assign
    import sched_heur
    sched_heur.run_part(ctx, res, ctx.n(120, 1500), gen_c03, max_tasks=ctx.n(10, 14))
    if ctx.tier == "thorough":
        sched_heur.run_part(ctx, res, 0, gen_c03, cases=sc.exhaustive_cases(ctx.sub_rng("exh-heur")), tag="heurexh", shard=200)
        sc.run_family(ctx, res, "C03", 0, cases=sc.exhaustive_cases(ctx.sub_rng("exh")))
        res.extra["exhaustive_small_scope"] = "all jobs with <= 3 tasks (1-2 outputs, <= 2 inputs) x 4 cluster shapes x 3 requested-output sets x 2 delivery modes"


def search(ctx, res):
    from common import Result
    r2 = Result()
    ctx2 = type(ctx)(ctx.pid, "thorough", ctx.seed + 101)
    sc.run_family(ctx2, r2, "C03", 1500, gen=gen_c03, coq_every=10**9, modes=("fifo", "batchy"))
    new = [f for f in r2.failures if f["signature"] not in (sc.REORDER_FINDING, sc.NONE_FINDING)]
    return new[0] if new else None


def replay(ctx, case):
    return sc.replay_case(case)
