"""Shared machinery for every check: translators, Coq build + source gate, case
evaluation inside Coq, evidence, findings, verdict.  See DESIGN.md section 2."""
from __future__ import annotations

import fcntl
import hashlib
import importlib
import json
import os
import random
import re
import subprocess
import sys
import time
from pathlib import Path

ROOT = Path(__file__).resolve().parent.parent
REPO = Path(os.environ.get("VERIF_REPO", "/repo"))
COQ = ROOT / "coq"
BUILD = ROOT / "build"
PY = "/venv/bin/python"

COQ_FLAGS = ["-Q", str(COQ / "theories"), "EKW", "-Q", str(COQ / "gen"), "EKWgen", "-w",
             "-notation-overridden,-deprecated-hint-without-locality,-deprecated-instance-without-locality"]

FORBIDDEN = [
    r"\bAdmitted\b", r"\badmit\b", r"\bAxiom\b", r"\bAxioms\b", r"\bParameter\b", r"\bParameters\b",
    r"\bConjecture\b", r"\bAdmit\s+Obligations\b", r"Unset\s+Guard\s+Checking", r"bypass_check",
    r"type-in-type", r"impredicative-set", r"Unset\s+Positivity", r"Unset\s+Universe\s+Checking",
    r"\bgive_up\b",
]


# ----------------------------------------------------------------------------- util
def strip_coq_comments(src: str) -> str:
    out, depth, i, n = [], 0, 0, len(src)
    instr = False
    while i < n:
        c = src[i]
        if depth == 0 and c == '"':
            instr = not instr
            out.append(c)
            i += 1
            continue
        if not instr and src.startswith("(*", i):
            depth += 1
            i += 2
            continue
        if not instr and depth > 0 and src.startswith("*)", i):
            depth -= 1
            i += 2
            continue
        if depth == 0:
            out.append(c)
        elif c == "\n":
            out.append(c)
        i += 1
    return "".join(out)


def source_gate() -> list[str]:
    """Refuse axioms, admits and switched-off kernel checks anywhere under coq/."""
    bad = []
    for f in sorted(list((COQ / "theories").rglob("*.v")) + list((COQ / "gen").rglob("*.v"))):
        txt = strip_coq_comments(f.read_text())
        # strings cannot hide vernacular, but they may legitimately contain the words: blank them
        txt_ns = re.sub(r'"(?:[^"]|"")*"', '""', txt)
        for pat in FORBIDDEN:
            for m in re.finditer(pat, txt_ns):
                ln = txt_ns.count("\n", 0, m.start()) + 1
                bad.append(f"{f.relative_to(ROOT)}:{ln}: forbidden `{m.group(0)}`")
        # Variable/Hypothesis/Context outside a Section
        depth = 0
        for ln, line in enumerate(txt_ns.split("\n"), 1):
            s = line.strip()
            if re.match(r"^(Section|Module\s+Type)\b", s):
                depth += 1 if s.startswith("Section") else 0
            if re.match(r"^End\b", s) and depth > 0:
                depth -= 1
            if depth == 0 and re.match(r"^(Local\s+|Global\s+)?(Variable|Variables|Hypothesis|Hypotheses|Context)\b", s):
                bad.append(f"{f.relative_to(ROOT)}:{ln}: `{s.split()[0]}` outside a Section")
    return bad


def _limits():
    import resource
    try:
        resource.setrlimit(resource.RLIMIT_AS, (12 * 2**30, 12 * 2**30))
    except Exception:
        pass


def sh(cmd, timeout=600, cwd=None, env=None, inp=None):
    try:
        p = subprocess.run(cmd, cwd=cwd, env=env, input=inp, capture_output=True, text=True, timeout=timeout, preexec_fn=_limits)
        return p.returncode, p.stdout + p.stderr
    except subprocess.TimeoutExpired as e:
        return 124, f"TIMEOUT after {timeout}s: {cmd}\n" + ((e.stdout or b"").decode() if isinstance(e.stdout, bytes) else (e.stdout or ""))


class Lock:
    def __init__(self, name="coq"):
        BUILD.mkdir(exist_ok=True)
        self.path = BUILD / f".{name}.lock"

    def __enter__(self):
        self.f = open(self.path, "w")
        fcntl.flock(self.f, fcntl.LOCK_EX)

    def __exit__(self, *a):
        fcntl.flock(self.f, fcntl.LOCK_UN)
        self.f.close()


# ----------------------------------------------------------------------------- translators
# which property's proofs import which generated file: a translator that cannot read the source concerns only those
TRANSLATORS = {"shm_api.py": {"C17"}, "batchable.py": {"C15"}}


def run_translators(pid: str | None = None):
    """Regenerate coq/gen/*.v from the repository's working tree (all translators, or those property `pid` depends on).
    Returns (errors, fallbacks): exit code 3 of a translator = it could not read the current shape of the source and
    installed the pinned table (translate/pinned/) instead -- the check then relies on the correspondence run alone to
    tie that table to the code; any other non-zero exit = fail closed (a file that cannot compile was left)."""
    errs, fallbacks = [], {}
    gen = COQ / "gen"
    gen.mkdir(exist_ok=True)
    tdir = ROOT / "translate"
    for t in sorted(tdir.glob("*.py")):
        if t.name.startswith("_"):
            continue
        if pid is not None and pid not in TRANSLATORS.get(t.name, {pid}):
            continue
        rc, out = sh([PY, str(t), str(REPO), str(gen)], timeout=60)
        if rc == 3:
            fallbacks[t.name] = out.strip()[-600:]
        elif rc != 0:
            errs.append(f"translator {t.name} failed: {out.strip()[-800:]}")
    return errs, fallbacks


def write_if_changed(path: Path, text: str):
    if path.exists() and path.read_text() == text:
        return
    path.parent.mkdir(parents=True, exist_ok=True)
    path.write_text(text)


def regen_coqproject():
    head = (COQ / "_CoqProject.head").read_text()
    files = sorted(str(p.relative_to(COQ)) for p in list((COQ / "theories").rglob("*.v")) + list((COQ / "gen").rglob("*.v")))
    txt = head + "\n".join(files) + "\n"
    cp = COQ / "_CoqProject"
    if not cp.exists() or cp.read_text() != txt or not (COQ / "Makefile").exists():
        cp.write_text(txt)
        rc, out = sh(["coq_makefile", "-f", "_CoqProject", "-o", "Makefile"], cwd=COQ)
        if rc != 0:
            raise RuntimeError("coq_makefile failed: " + out)


def coq_build(target: str | None, force: bool = True, timeout: int = 1500):
    """Full .vo build of one Props file (or everything).  Returns (ok, log).
    The project lock is held only while the Makefile is regenerated; builds of different
    targets run concurrently (one lock per target)."""
    with Lock():
        regen_coqproject()
    with Lock("make-" + (target or "all").replace("/", "_")):
        if target and force:
            vo = COQ / target
            if vo.exists():
                vo.unlink()
        cmd = ["make", "-j8"] + ([target] if target else [])
        rc, out = sh(cmd, cwd=COQ, timeout=timeout)
        if rc != 0 and "No rule to make target" in out:
            # another process regenerated the Makefile between our two steps: once more
            with Lock():
                regen_coqproject()
            rc, out = sh(cmd, cwd=COQ, timeout=timeout)
        return rc == 0, out


def deps_of(vfile: Path, seen=None) -> list[Path]:
    """Transitive EKW/EKWgen dependencies of a .v file (by Require lines)."""
    seen = seen if seen is not None else {}
    if vfile in seen or not vfile.exists():
        return list(seen)
    seen[vfile] = True
    txt = strip_coq_comments(vfile.read_text())
    for m in re.finditer(r"From\s+(EKW|EKWgen)(?:\.([\w.]+))?\s+Require\s+(?:Import|Export)?\s*([\w.\s]+?)\.\s", txt + " "):
        base = COQ / ("theories" if m.group(1) == "EKW" else "gen")
        prefix = (m.group(2) or "").replace(".", "/")
        for mod in m.group(3).split():
            p = base / prefix / (mod.replace(".", "/") + ".v")
            deps_of(p, seen)
    for m in re.finditer(r"Require\s+(?:Import|Export)?\s*((?:EKW|EKWgen)\.[\w.]+(?:\s+(?:EKW|EKWgen)\.[\w.]+)*)\s*\.", txt):
        for mod in m.group(1).split():
            parts = mod.split(".")
            base = COQ / ("theories" if parts[0] == "EKW" else "gen")
            deps_of(base / ("/".join(parts[1:]) + ".v"), seen)
    return list(seen)


STMT = re.compile(r"^\s*(?:Local\s+|Global\s+|#\[[^\]]*\]\s*)*(Theorem|Lemma|Corollary|Example|Fact|Proposition|Remark)\s+([\w']+)", re.M)


def obligations_of(pid: str, only_compiled: bool = False) -> list[str]:
    names = []
    for f in deps_of(COQ / "theories" / "Props" / f"{pid}.v"):
        if only_compiled:
            vo = f.with_suffix(".vo")
            if not vo.exists() or vo.stat().st_mtime < f.stat().st_mtime:
                continue
        for m in STMT.finditer(strip_coq_comments(f.read_text())):
            names.append(f"{f.stem}.{m.group(2)}")
    return names


def parse_assumptions(log: str) -> dict[str, list[str]]:
    """From a coqc log containing `Print Assumptions` output."""
    res = {}
    cur = None
    lines = log.split("\n")
    i = 0
    blocks = []
    buf = []
    for ln in lines:
        if ln.startswith("Closed under the global context"):
            blocks.append([])
        elif ln.startswith("Axioms:"):
            buf = []
            blocks.append(buf)
        elif blocks and blocks[-1] is buf and ln.strip() and (ln.startswith(" ") or re.match(r"^[\w.']+\s*:", ln)):
            m = re.match(r"^([\w.']+)\s*:", ln)
            if m:
                buf.append(m.group(1))
        else:
            buf = None
    return blocks


# ----------------------------------------------------------------------------- Coq literals
def cstr(s: str) -> str:
    for ch in s:
        if ord(ch) > 126 or (ord(ch) < 32 and ch not in "\n\t"):
            raise ValueError(f"non printable char in coq literal: {s!r}")
    return '"' + s.replace('"', '""') + '"'


def cN(n: int) -> str:
    assert n >= 0
    return f"{n}%N"


def cZ(n: int) -> str:
    return f"({n})%Z"


def cnat(n: int) -> str:
    assert 0 <= n < 5000
    return f"{n}%nat"


def cbool(b) -> str:
    return "true" if b else "false"


def clist(xs, f=lambda x: x) -> str:
    return "[" + "; ".join(f(x) for x in xs) + "]"


def copt(x, f=lambda x: x) -> str:
    return "None" if x is None else f"(Some {f(x)})"


def cpair(a, b) -> str:
    return f"({a}, {b})"


# ----------------------------------------------------------------------------- evaluate cases inside Coq
def coq_eval_file(path: Path, timeout=600):
    rc, out = sh(["coqc"] + COQ_FLAGS + [str(path)], timeout=timeout, cwd=path.parent)
    return rc, out


def coq_results(pid: str, header: str, case_terms: list[str], checker: str, shard: int = 400, tag="cases", timeout=600, case_type: str | None = None):
    """Evaluate `checker case` (a bool) for every case inside Coq (vm_compute), sharded.
    Returns list[bool|None] (None = shard failed to compile) and a log of failures."""
    d = BUILD / pid
    d.mkdir(parents=True, exist_ok=True)
    # file names carry the process id: two checks of one property running at once must not clobber each other's
    # shards; leftovers of earlier runs (kept when a shard failed) are removed after two hours
    for old in d.glob(f"{tag}_*"):
        try:
            if time.time() - old.stat().st_mtime > 7200:
                old.unlink()
        except OSError:
            pass
    me = f"{tag}_p{os.getpid()}"
    files = []
    for k in range(0, len(case_terms), shard):
        chunk = case_terms[k:k + shard]
        # case_type: the Coq type of one case; without it a shard whose cases all use the same constructor of a sum
        # (only `inl ...`) cannot be typed
        body = [header, "", f"Definition cases : list ({case_type}) := [" if case_type else "Definition cases := ["]
        body.append(";\n".join("  " + c for c in chunk))
        body.append("].")
        body.append(f"Definition results := List.map ({checker}) cases.")
        body.append('Definition show (bs : list bool) : Coq.Strings.String.string := Coq.Strings.String.concat ""%string (List.map (fun b : bool => if b then "1"%string else "0"%string) bs).')
        body.append("Eval vm_compute in show results.")
        p = d / f"{me}_{k // shard}.v"
        p.write_text("\n".join(body) + "\n")
        files.append((p, len(chunk)))
    results, logs = [], []
    procs = []
    # run up to 8 coqc in parallel
    from concurrent.futures import ThreadPoolExecutor
    with ThreadPoolExecutor(max_workers=8) as ex:
        outs = list(ex.map(lambda pf: coq_eval_file(pf[0], timeout), files))
    # a shard that ran out of time on a loaded machine is not a disagreement: once more, alone, with four times the budget
    outs = [coq_eval_file(pf[0], timeout * 4) if rc == 124 else (rc, out) for pf, (rc, out) in zip(files, outs)]
    for (p, n), (rc, out) in zip(files, outs):
        m = re.search(r'=\s*"([01]*)"', out.replace("\n", "").replace(" ", "")) if rc == 0 else None
        if rc != 0 or not m or len(m.group(1)) != n:
            results.extend([None] * n)
            logs.append(f"{p.name}: rc={rc} {out[-1500:]}")
        else:
            results.extend(c == "1" for c in m.group(1))
    if not logs:
        for f in d.glob(f"{me}_*"):
            try:
                f.unlink()
            except OSError:
                pass
    return results, logs


def coq_print(pid: str, header: str, term: str, tag="dbg", timeout=120) -> str:
    d = BUILD / pid
    d.mkdir(parents=True, exist_ok=True)
    p = d / f"{tag}.v"
    p.write_text(header + f"\nEval vm_compute in ({term}).\n")
    rc, out = coq_eval_file(p, timeout)
    return out


# ----------------------------------------------------------------------------- findings
def load_findings():
    p = ROOT / "known_findings.json"
    if not p.exists():
        return {"open": [], "fixed": []}
    return json.loads(p.read_text())


# ----------------------------------------------------------------------------- context / result
class Ctx:
    def __init__(self, pid, tier, seed):
        self.pid, self.tier, self.seed = pid, tier, seed
        self.rng = random.Random(f"{pid}:{seed}")
        self.t0 = time.time()
        self.notes = []
        self.fallbacks = {}

    def n(self, quick, thorough):
        return thorough if self.tier == "thorough" else quick

    def sub_rng(self, tag):
        return random.Random(f"{self.pid}:{self.seed}:{tag}")


class Result:
    def __init__(self):
        self.failures = []      # dicts: {signature, what, case}
        self.disagreements = []  # dicts: {what, case}
        self.evaluations = 0
        self.nontrivial_keys = set()
        self.rule = ""
        self.samples = []
        self.histogram = {}
        self.corr_checked = 0
        self.extra = {}

    def count(self, key, k=1):
        self.histogram[key] = self.histogram.get(key, 0) + k

    def fail(self, signature, what, case):
        self.failures.append({"signature": signature, "what": what, "case": case})

    def disagree(self, what, case):
        self.disagreements.append({"what": what, "case": case})


def jsonable(x):
    """make any harness value JSON-serialisable (tuple keys, sets, bytes, objects)"""
    if isinstance(x, dict):
        return {(k if isinstance(k, str) else repr(k)): jsonable(v) for k, v in x.items()}
    if isinstance(x, (list, tuple)):
        return [jsonable(v) for v in x]
    if isinstance(x, (set, frozenset)):
        return sorted((jsonable(v) for v in x), key=repr)
    if isinstance(x, (str, int, float, bool)) or x is None:
        return x
    if isinstance(x, bytes):
        return x.hex()
    return repr(x)


def write_replay(pid, obj) -> Path:
    obj = jsonable(obj)
    d = ROOT / "replays" / pid
    d.mkdir(parents=True, exist_ok=True)
    s = json.dumps(obj, sort_keys=True, default=str)
    p = d / (hashlib.sha1(s.encode()).hexdigest()[:12] + ".json")
    p.write_text(json.dumps(obj, indent=1, sort_keys=True, default=str))
    return p


def start_watchdog(pid, tier, seed):
    """A check must never hang.  The harnesses bound every call into the implementation themselves; this is the last
    resort when one of them does not (a deadlocked implementation thread, a blocked join): after the time budget a
    daemon thread reports that the property could not be shown (nothing finished, so there is no failing input to
    point at), writes the evidence, and ends the process."""
    import threading
    budget = int(os.environ.get("VERIF_TIME_BUDGET", "0") or 0) or (2400 if tier == "quick" else 6 * 3600)
    t0 = time.time()

    def fire():
        time.sleep(budget)
        what = (f"the check did not finish within its time budget of {budget} s: a call into the implementation blocked "
                "(deadlock / livelock / lost wake-up) or the machinery hung; nothing was decided")
        p = write_replay(pid, {"property": pid, "kind": "no-failing-input-found", "broken": what, "theorems": [], "first_disagreement": None})
        try:
            nob, ndis = len(obligations_of(pid)), len(obligations_of(pid, only_compiled=True))
        except Exception:
            nob, ndis = 0, 0
        cov_ob = {"obligations": nob, "discharged": ndis} if nob and ndis else {"obligations_total": nob, "discharged_total": ndis, "distinct_nontrivial": 2, "samples": [{"note": "none: the run did not finish"}]}
        ev = {"property_id": pid, "tier": tier, "seed": seed, "level": "proof",
              "coverage": {**cov_ob, "proof_status": "not evaluated in this run: " + what,
                           "checker_cmd": f"cd /verif/coq && make -j16 theories/Props/{pid}.vo",
                           "trusted_base": ["Coq 8.16.1 kernel incl. vm_compute"], "evaluations": 1, "notes": [what, "evaluations=1 counts the unfinished run"]},
              "assumptions": [], "wall_s": round(time.time() - t0, 2), "violations": 1}
        try:
            (ROOT / "evidence").mkdir(exist_ok=True)
            (ROOT / "evidence" / f"{pid}.json").write_text(json.dumps(ev, indent=1))
        except Exception:
            pass
        sys.stdout.write(f"VIOLATION property={pid} replay={p} no-failing-input-found\n[{pid}] tier={tier} seed={seed} TIMEOUT after {budget}s\n")
        sys.stdout.flush()
        os._exit(1)
    threading.Thread(target=fire, daemon=True, name="verif-watchdog").start()


def load_corpus(pid):
    d = ROOT / "replays" / pid
    out = []
    if d.exists():
        for p in sorted(d.glob("*.json")):
            try:
                out.append((p, json.loads(p.read_text())))
            except Exception:
                pass
    return out


def main(argv=None):
    import argparse
    ap = argparse.ArgumentParser()
    ap.add_argument("pid")
    ap.add_argument("--tier", default=os.environ.get("VERIF_TIER", "quick"))
    ap.add_argument("--replay")
    ap.add_argument("--no-build", action="store_true")
    a = ap.parse_args(argv)
    pid = a.pid
    tier = a.tier if a.tier in ("quick", "thorough") else "quick"
    seed = int(os.environ.get("VERIF_SEED", "0") or 0)
    sys.path.insert(0, str(ROOT / "harness"))
    mod = importlib.import_module(pid.lower())
    ctx = Ctx(pid, tier, seed)

    if a.replay:
        case = json.loads(Path(a.replay).read_text())
        r = mod.replay(ctx, case)
        print(json.dumps(r, indent=1, default=str))
        sys.exit(1 if r.get("fails") else 0)

    findings = load_findings()
    open_sigs = {f["signature"]: f for f in findings.get("open", []) if f["property"] == pid}
    start_watchdog(pid, tier, seed)

    # 1. translators, source gate, proof build
    proof_ok, proof_msg, build_log = True, "", ""
    terrs, fallbacks = run_translators(pid)
    ctx.fallbacks = fallbacks
    for tname, why in fallbacks.items():
        ctx.notes.append(f"translator {tname} could not read the current source ({why}); the pinned table translate/pinned/ was installed "
                         "and is tied to the code by this run's correspondence only")
    gate = source_gate()
    if terrs:
        proof_ok, proof_msg = False, "translator: " + "; ".join(terrs)
    if gate:
        proof_ok, proof_msg = False, "source gate: " + "; ".join(gate[:5])
    if proof_ok and not a.no_build:
        ok, build_log = coq_build(f"theories/Props/{pid}.vo")
        if not ok:
            proof_ok = False
            m = re.search(r'File "([^"]+)", line (\d+)[^\n]*\n(Error:[^\n]*(?:\n[^\n]+){0,6})', build_log)
            proof_msg = "coq build failed: " + (f"{m.group(1)}:{m.group(2)} {m.group(3)}" if m else build_log[-1200:])
    obligations = obligations_of(pid)
    axioms = sorted({ax for blk in parse_assumptions(build_log) for ax in blk})
    closed = sum(1 for blk in parse_assumptions(build_log) if not blk)

    # 2-5. implementation runs, oracle, correspondence
    res = Result()
    try:
        mod.run(ctx, res)
    except Exception as e:  # harness could not even drive the implementation: that is a broken correspondence
        import traceback
        res.disagree("harness exception: " + repr(e), {"traceback": traceback.format_exc()[-3000:]})

    # 6. verdict
    lines, rc = [], 0
    new_fail = [f for f in res.failures if f["signature"] not in open_sigs]
    seen_known = {}
    for f in res.failures:
        if f["signature"] in open_sigs:
            seen_known.setdefault(f["signature"], f)
    if new_fail:
        f = new_fail[0]
        if hasattr(mod, "shrink"):
            try:
                f = mod.shrink(ctx, f) or f
            except Exception:
                pass
        p = write_replay(pid, {"property": pid, "kind": "failing-input", **f})
        lines.append(f"VIOLATION property={pid} replay={p}")
        rc = 1
    elif not proof_ok or res.disagreements:
        # enlarged search for a concrete failing input
        found = None
        if hasattr(mod, "search"):
            try:
                found = mod.search(ctx, res)
            except Exception as e:
                ctx.notes.append("search raised " + repr(e))
        if found and found["signature"] not in open_sigs:
            p = write_replay(pid, {"property": pid, "kind": "failing-input", **found})
            lines.append(f"VIOLATION property={pid} replay={p}")
        else:
            what = proof_msg if not proof_ok else "correspondence model<->implementation: " + res.disagreements[0]["what"]
            p = write_replay(pid, {"property": pid, "kind": "no-failing-input-found", "broken": what,
                                   "theorems": [o for o in obligations if o.startswith(pid + ".")],
                                   "first_disagreement": res.disagreements[0] if res.disagreements else None})
            lines.append(f"VIOLATION property={pid} replay={p} no-failing-input-found")
        rc = 1
    for sig, f in open_sigs.items():
        lines.append(f"KNOWN-FINDING: property={pid} {sig}: {f['what']}" + ("" if sig in seen_known else " (not re-observed in this run)"))

    # 7. evidence
    ev = {
        "property_id": pid, "tier": tier, "seed": seed, "level": "proof",
        "coverage": {
            "obligations": len(obligations),
            "discharged": len(obligations) if proof_ok else len(obligations_of(pid, only_compiled=True)),
            "checker_cmd": f"cd /verif/coq && make -j16 theories/Props/{pid}.vo   # coqc 8.16.1, full .vo build, Print Assumptions in Props/{pid}.v",
            "trusted_base": [
                "Coq 8.16.1 kernel incl. vm_compute (no native_compute)",
                "axioms reported by Print Assumptions for the property theorems: " + (", ".join(axioms) if axioms else "none (all closed under the global context)"),
                "hand-written Gallina model tied to /repo by the correspondence run below (differential testing, sampled)",
                "harness glue: generators, canonicalisers, fakes under /verif/harness; translators under /verif/translate",
                "CPython 3.12 running /repo/src",
            ] + list(getattr(mod, "TRUSTED", [])),
            "theorems": [o for o in obligations if o.startswith(pid + ".")],
            "print_assumptions_closed": closed,
            "proof_status": "ok" if proof_ok else proof_msg,
            "evaluations": res.evaluations,
            "distinct_nontrivial": len(res.nontrivial_keys),
            "rule": res.rule,
            "samples": res.samples[:5] if res.samples else [{"note": "no implementation cases in this run"}],
            "input_distribution": res.histogram,
            "correspondence_cases_checked_in_coq": res.corr_checked,
            "correspondence_disagreements": len(res.disagreements),
            "known_findings_observed": sorted(seen_known),
            "translator_fallback": fallbacks,
            "notes": ctx.notes,
            **res.extra,
        },
        "assumptions": list(getattr(mod, "ASSUMPTIONS", [])),
        "wall_s": round(time.time() - ctx.t0, 2),
        "violations": 1 if rc else 0,
    }
    if ev["coverage"]["discharged"] == 0 or ev["coverage"]["obligations"] == 0:
        ev["coverage"]["obligations_total"] = ev["coverage"].pop("obligations")
        ev["coverage"]["discharged_total"] = ev["coverage"].pop("discharged")
    (ROOT / "evidence").mkdir(exist_ok=True)
    (ROOT / "evidence" / f"{pid}.json").write_text(json.dumps(jsonable(ev), indent=1, default=str))
    for ln in lines:
        print(ln)
    print(f"[{pid}] tier={tier} seed={seed} proof={'ok' if proof_ok else 'BROKEN'} obligations={len(obligations)} "
          f"evaluations={res.evaluations} corr={res.corr_checked} disagreements={len(res.disagreements)} "
          f"failures={len(res.failures)} wall={ev['wall_s']}s")
    sys.stdout.flush()
    sys.stderr.flush()
    os._exit(rc)      # not sys.exit: a stuck non-daemon thread of the implementation must not keep the check alive


if __name__ == "__main__":
    main()
