"""C01 -- a distributed run returns exactly the values sequential evaluation would.
The real controller loop runs against the fake cluster, but here tasks are REAL callables executed
by the real cascade.executor.runner.runner.run against a per-host store keyed by the real
memory.ds2shmid; fetched payloads are the real pickled values.  Oracle: every requested output the
run returns equals a one-process evaluation of the same DAG (tagging callables, so any mis-binding,
stale read or key collision shows).  Also: the text ds2shmid hashes is compared with Sched/Keys.v
(captured through a recording hashlib), and distinct datasets must get distinct keys on
adversarial names.  Each trace is replayed on the Coq model."""
import hashlib as _hashlib

import sched_common as sc
from common import clist, coq_results, cstr

TRUSTED = ["harness/sched_common.py: fake cluster behind the Bridge seam; per-host store keyed by the real ds2shmid",
           "the task body binding is exercised through the real runner.run but proved in C10; transfers' byte equality is C07"]
ASSUMPTIONS = ["md5 is treated as injective (Section hypothesis of C01_shm_key_injective)",
               "values are symbolic in the Coq model (a dataset's value is its identity); real values are compared by the oracle",
               "names in the key-encoding correspondence are ASCII (len() counts code points, the model counts characters)"]

KHEADER = """From Coq Require Import List String.
From EKW Require Import Sched.Keys Sched.KeysCheck.
Import ListNotations.
Open Scope string_scope.
"""


def wrap(v, kind):
    """the kinds of values a task hands over: plain tuple, numpy object array, an object of a class with a registered
    custom serde (when the job registers it), an object of a strict subclass of that class"""
    import c01values
    if kind == 0:
        return sc.wrap_val(v, True)
    if kind == 2:
        return c01values.Box(v)
    if kind == 3:
        return c01values.SubBox(v)
    return v


def make_funcs(spec, seed=1):
    """tagging callables"""
    funcs = []
    for k, t in enumerate(spec["tasks"]):
        n = t["nout"]
        if n == 1 and (k + seed) % 5 == 0:
            # an ordinary function that hands back a generator a helper built (not a generator function itself):
            # the runner iterates it and takes the single yielded value
            def f(*args, _k=k, **kwargs):
                return (v for v in [wrap(("T", _k, 0, args, tuple(sorted(kwargs.items()))), (_k + seed) % 4)])
        elif n == 1:
            def f(*args, _k=k, **kwargs):
                return wrap(("T", _k, 0, args, tuple(sorted(kwargs.items()))), (_k + seed) % 4)
        else:
            def f(*args, _k=k, _n=n, **kwargs):
                for o in range(_n):
                    yield wrap(("T", _k, o, args, tuple(sorted(kwargs.items()))), (_k + o + seed) % 4)
        funcs.append(f)
    return funcs


def reference(spec, seed=1):
    """sequential one-process evaluation with the binding the job states (even edges positional, odd keyword)"""
    val = {}
    for k, t in enumerate(spec["tasks"]):
        ps = {int(p): v for p, v in t.get("static_ps", {}).items()}      # statics first, upstream values override
        kw = dict(t.get("static_kw", {}))
        for i, (src, o) in enumerate(t["ins"]):
            if i % 2 == 0:
                ps[i // 2] = val[(src, o)]
            else:
                kw[f"k{i}"] = val[(src, o)]
        args = [None] * (max(ps) + 1 if ps else 0)
        for i, v in ps.items():
            args[i] = v
        for o in range(t["nout"]):
            val[(k, o)] = wrap(("T", k, o, tuple(args), tuple(sorted(kw.items()))), (k + o + seed) % 4)
    return val


class HostMemory:
    """dict-backed Memory of one host; slots are the cluster's key ids, which are the REAL ds2shmid values
    renumbered (equal shm ids <=> equal key ids), so a key collision makes tasks read each other's data"""
    def __init__(self, cluster, h):
        self.c, self.h = cluster, h

    def provide(self, ds, annotation):
        from cascade.executor import serde
        raw, deser_fun = self.c.values[(self.h, self.c.key[self.c.ds_id(ds)])]
        return serde.des_output(raw, annotation, deser_fun)

    def handle(self, outputId, outputSchema, outputValue, isPublish):
        # as runner.memory.Memory.handle does: the real serde.ser_output picks the encoding (custom serde registered by
        # the job for exactly this type, cloudpickle otherwise); the bytes and the decoder's name are what the store holds
        from cascade.executor import serde
        self.c.values[(self.h, self.c.key[self.c.ds_id(outputId)])] = serde.ser_output(outputValue, outputSchema)


def executor(cluster, w, t, h):
    from cascade.executor.runner.runner import ExecutionContext, run
    from cascade.low.views import param_source
    tn = sc.tname(t)
    psrc = param_source(cluster.job.edges).get(tn, {})
    ctx = ExecutionContext(tasks={tn: cluster.job.tasks[tn]}, param_source={tn: {k: (d, "Any") for k, d in psrc.items()}},
                           callback="x", publish=set())
    run(tn, ctx, HostMemory(cluster, h))


def run_case_real(spec, seed, mode):
    from cascade.executor import serde
    from cascade.low.core import type_enc
    import c01values
    # every job runs in fresh processes in reality: nothing registered by an earlier job may linger
    serde.SerdeRegistry.serde.clear()
    serdes = {type_enc(c01values.Box): ("c01values.box_ser", "c01values.box_des")} if seed % 3 != 0 else None
    return sc.run_case(spec, seed, mode, executor=executor, funcs=make_funcs(spec, seed), serdes=serdes)


def value_oracle(r, res, cj):
    if r["outcome"] != "ok" or r["outputs"] is None:
        return
    ref = reference(r["spec"], r["seed"])
    for d, v in r["outputs"].items():
        if v is None:
            continue   # not delivered: reported by post_checks as requested-output-missing
        if v != sc.norm_value(ref[d]):
            res.fail("wrong-output-value", f"requested output {d}: distributed run returned {str(v)[:120]}, sequential evaluation gives {str(ref[d])[:120]}", cj)


def real_to_symbolic(r):
    """the Coq replay works with symbolic values: map each real output value back to the dataset it is the value of"""
    if r["outputs"] is None:
        return r
    ref = reference(r["spec"], r["seed"])
    inv = {}
    for d, v in ref.items():
        inv.setdefault(repr(sc.norm_value(v)), d)
    outs = {}
    for d, v in r["outputs"].items():
        outs[d] = None if v is None else ("VAL", inv.get(repr(v), (999, 999)))
    r2 = dict(r)
    r2["outputs"] = outs
    return r2


def key_part(ctx, res):
    import cascade.executor.runner.memory as mem
    from cascade.low.core import DatasetId
    rng = ctx.sub_rng("keys")
    captured = []

    class RecHash:
        """records every byte fed to the digest, whether through the constructor or update()"""
        def __init__(self, h, data=b""):
            self.h = h
            if data:
                captured.append(bytes(data))

        def update(self, b):
            captured.append(bytes(b))
            self.h.update(b)

        def hexdigest(self):
            return self.h.hexdigest()

        def digest(self):
            return self.h.digest()

    # intercept the digest constructors wherever memory.py gets them from: attributes of the hashlib module
    # (hashlib.new(...), hashlib.md5(...)) and names imported from it (from hashlib import md5)
    ctors = {n: getattr(_hashlib, n) for n in set(_hashlib.algorithms_guaranteed) | {"new"} if callable(getattr(_hashlib, n, None))}

    def wrap(name, ctor):
        def make(*a, **k):
            data = k.get("data", b"")
            if name == "new" and len(a) > 1:
                data = a[1]
            elif name != "new" and a:
                data = a[0]
            return RecHash(ctor(*a, **k), data)
        return make
    wrapped = {n: wrap(n, c) for n, c in ctors.items()}
    local_names = {n: v for n, v in vars(mem).items() if any(v is c for c in ctors.values())}

    def install(on):
        for n, c in ctors.items():
            setattr(_hashlib, n, wrapped[n] if on else c)
        for n, v in local_names.items():
            setattr(mem, n, next(wrapped[k] for k, c in ctors.items() if c is v) if on else v)
    install(True)
    terms, metas = [], []
    try:
        alpha = ["t", "1", "0", "a", "b", ".", ":", "2", "10", "_", " "]
        seen = {}
        for i in range(ctx.n(300, 6000)):
            task = "".join(rng.choice(alpha) for _ in range(rng.randrange(0, 5)))
            out = "".join(rng.choice(alpha) for _ in range(rng.randrange(0, 4)))
            if i % 3 == 0 and seen:   # adversarial: re-split an earlier concatenation
                t0, o0 = rng.choice(list(seen.values()))
                cat = t0 + o0
                cut = rng.randrange(len(cat) + 1)
                task, out = cat[:cut], cat[cut:]
            captured.clear()
            key = mem.ds2shmid(DatasetId(task, out))
            res.evaluations += 1
            res.count("key-encoding")
            res.nontrivial_keys.add(("key", task, out))
            case = {"part": "key", "task": task, "output": out}
            if key in seen and seen[key] != (task, out):
                res.fail("shm-key-collision", f"datasets {seen[key]} and {(task, out)} share the shared-memory key {key}", case)
            seen[key] = (task, out)
            hashed = b"".join(captured).decode()
            terms.append(f"({cstr(task)}, {cstr(out)}, {cstr(hashed)})")
            metas.append(case)
    finally:
        install(False)
    results, logs = coq_results("C01", KHEADER, terms, "check_key", shard=400, tag="keys")
    res.corr_checked += len(results)
    for ok, meta in zip(results, metas):
        if ok is not True:
            res.disagree("memory.ds2shmid hashes a different text than Sched/Keys.v key_input" + (": " + logs[0][-300:] if logs and ok is None else ""), meta)
            break


def run(ctx, res):
    res.rule = ("random DAGs (1-10 tasks, multi-output generator tasks, positional and keyword edges, fan-in/out) x clusters x requested-output sets x delivery modes, "
                "tasks executed by the real runner on a per-host store keyed by the real ds2shmid; plus adversarial (task, output) name pairs for the key encoding; "
                "non-trivial = >= 2 tasks and >= 6 steps, or a key case; distinct by content")
    orig = sc.c_case
    sc.c_case = lambda r: orig(real_to_symbolic(r))
    try:
        sc.run_family(ctx, res, "C01", ctx.n(200, 4000), runner=run_case_real, extra=value_oracle,
                      gen=lambda rng, max_tasks=10: sc.gen_spec(rng, max_tasks=max_tasks, allow_empty=False))
    finally:
        sc.c_case = orig
    key_part(ctx, res)


def search(ctx, res):
    from common import Result
    r2 = Result()
    ctx2 = type(ctx)(ctx.pid, "thorough", ctx.seed + 101)
    sc.run_family(ctx2, r2, "C01", 1000, runner=run_case_real, extra=value_oracle, coq_every=10**9)
    return r2.failures[0] if r2.failures else None


def replay(ctx, case):
    from common import Result
    c = case.get("case", case)
    if c.get("part") == "key":
        import cascade.executor.runner.memory as mem
        from cascade.low.core import DatasetId
        return {"fails": None, "key": mem.ds2shmid(DatasetId(c["task"], c["output"]))}
    r = run_case_real(c["spec"], c["seed"], c["mode"])
    rr = Result()
    value_oracle(r, rr, c)
    problems = list(r["problems"]) + sc.post_checks(r)
    return {"fails": bool(rr.failures or problems), "value_failures": [f["what"] for f in rr.failures][:3], "problems": problems[:5]}
