"""Shared harness of C08 / C09: drives the REAL cascade.shm.server.LocalServer.start loop (real
dataset.Manager, real algorithms.lottery, real disk.Disk._page_out/_page_in bodies, real api.ser/deser)
over a scripted UDP socket.  dataset.SharedMemory / disk.SharedMemory are an in-memory registry,
the Disk thread pools are a manual executor (each job = two steps: `io` = the real body up to the
callback, `cb` = the real Manager callback), time.time_ns and uuid.uuid4 are scripted.

An op list (JSON-able):
  ["add", key, size, now]         AllocateRequest
  ["write", key, hex]             the client half of allocate(): SharedMemory(shmid, create=True, size) + fill
  ["close", key, label|None]      CloseCallback (None = the writer's close; label = the reader that the get with this label was granted)
  ["get", key, now, [cands]]      GetRequest; the LAST element of cands is the label of this reader (how the history refers to it later);
                                  where the implementation draws from uuid.uuid4, cands also script it (leading elements = ids of other
                                  readers, to force collisions).  The reader id itself is whatever the server answers: the harness keeps
                                  label -> id, numbers the ids by first appearance, and never interprets them
                                  (after the run the op carries what was executed: get -> 5th element [id number], close -> 4th element id number)
  ["purge", key]                  PurgeRequest
  ["io", jid, fault]              disk job number jid (submission order): page-in = the real body; page-out = the real body up to its unlink
  ["unlink", jid]                 page-out only: the rest of the body (shm.unlink), after which the job reports ok / failed
  ["cb", jid]                     the real Manager callback of the job
  ["drainf", seed, percent]       macro: like drain, each io step failing with that probability (decided by seed and job number)
  ["drain"] ["alloc", key, hex, tries, 0] ["read", key, tries, 0]
                                  macros, expanded while the history runs into the concrete ops above (complete every pending job;
                                  a patient writer: add, drain and retry on wait, then write + close; a patient reader likewise)
  ["rseg", key] ["rfile", key]    what a client / the disk shows under the key's shmid
After every op a FreeSpaceRequest goes through the same loop.
Observation per op: [kind, ..., free_space_after, [[jobkind, key, size], ...newly submitted jobs]]
"""
from __future__ import annotations

import contextlib
import hashlib
import json
import logging
import re
import threading
import types

from common import cN, cZ, cbool, clist, copt, cstr
from fakes import shm_fakes as F

HEADER = """From Coq Require Import List NArith ZArith String.
From EKW Require Import Shm.Lottery Shm.Manager Shm.ManagerCheck.
Import ListNotations.
Open Scope string_scope.
"""

PREFIX = "vf"
RESIDENT = ("created", "in_memory", "paging_out", "paged_in")
STALE = int(15 * 60 * 1e9)


def formula_shmid(key):
    return PREFIX + hashlib.md5(key.encode()).hexdigest()[: 24 - len(PREFIX)]


@contextlib.contextmanager
def patched():
    """replace the seams for the duration of a run (restored afterwards).  SharedMemory / the Disk pools / open are needed to drive
    the store at all; the clock and uuid seams are taken where they exist (reader ids are never forced, only observed)"""
    import cascade.shm.dataset as dataset
    import cascade.shm.disk as disk
    clock, uuids = F.Clock(), F.UUIDs()
    missing = object()
    saved = []

    def put(mod, name, value, optional=False):
        old = mod.__dict__.get(name, missing)
        if old is missing and optional:
            return False
        saved.append((mod, name, old))
        setattr(mod, name, value)
        return True

    put(dataset, "SharedMemory", F.FakeSharedMemory)
    seams = {"time": put(dataset, "time", clock, optional=True), "time_ns": put(dataset, "time_ns", clock.time_ns, optional=True),
             "uuid": put(dataset, "uuid", uuids, optional=True), "uuid4": put(dataset, "uuid4", uuids.uuid4, optional=True)}
    put(dataset, "get_capacity", lambda: 2 ** 62)
    put(disk, "SharedMemory", F.FakeSharedMemory)
    put(disk, "ThreadPoolExecutor", F.ManualExecutor)
    put(disk, "multiprocessing", types.SimpleNamespace(resource_tracker=types.SimpleNamespace(unregister=lambda *a, **k: None)))
    put(disk, "open", F.fake_open)
    prev = logging.root.manager.disable
    logging.disable(logging.CRITICAL)
    try:
        yield types.SimpleNamespace(clock=clock, uuids=uuids, dataset=dataset, disk=disk, seams=seams)
    finally:
        logging.disable(prev)
        for mod, name, old in reversed(saved):
            if old is missing:
                delattr(mod, name)
            else:
                setattr(mod, name, old)


class ScriptSock:
    """the UDP socket of LocalServer: recvfrom pulls the next request from the driver, sendto hands the reply back"""

    def __init__(self, driver):
        self.driver = driver

    def recvfrom(self, n):
        return self.driver.next_request(), ("client", 0)

    def sendto(self, b, addr):
        self.driver.replies.append(b)

    def close(self):
        pass


class Driver:
    def __init__(self, env, capacity, ops, watch=None):
        import cascade.shm.api as api
        import cascade.shm.server as server
        self.env, self.api = env, api
        self.capacity = capacity
        self.ops = ops
        self.watch = watch            # callable(driver, index, op, obs) after every op (oracles look at the real Manager here)
        F.WORLD.reg = F.Registry()
        F.BOARD.board = F.JobBoard()
        self.board = F.BOARD.board
        self.reg = F.WORLD.reg
        self.newjobs = []
        self.board.on_submit = lambda j: self.newjobs.append(j)
        self.srv = object.__new__(server.LocalServer)
        self.srv.sock = ScriptSock(self)
        self.srv.manager = env.dataset.Manager(PREFIX, capacity)
        self.m = self.srv.manager
        self.shmid_of = {}            # key -> shmid as handed out by the server
        self.key_of = {}
        self.replies = []
        self.obs = []
        self.pc = 0
        self.pending = None           # (index, op, partial observation) waiting for its free-space probe
        self.inflight = None
        self.crash = None
        self.events = []              # harness-side ghost events (e.g. orphan page-out success) for signatures
        self.job_obj = {}             # jid -> id() of the Dataset object registered under the job's key at submission
        self.last_now = 0
        self.next_rd = 500000
        self.epilogue = None          # callable(driver) -> more ops | None, asked when the script runs dry
        self.wild_write = False
        # reader ids: whatever strings the server hands out, numbered by first appearance; the history speaks of readers by label
        self.rd_canon = {}            # id string -> number
        self.handles = {}             # (key, label) -> {"idx": index of the granted get, "rdid": id string}
        self.closing = None           # during/after a reader's close: the handle it refers to (or None) and the id string sent
        self.beat = 0                 # progress counter for the watchdog
        self.hang = None
        self.lock_log = []            # (lock attribute, acq|rel|busy|reacquire) events of the Manager's plain locks
        self.lock_marks = []          # len(lock_log) after each op
        self.watched_locks = F.watch_locks(self.m, self.lock_log)

    # ---- helpers
    def canon(self, rdid):
        if rdid not in self.rd_canon:
            self.rd_canon[rdid] = len(self.rd_canon)
        return self.rd_canon[rdid]

    def rdid_of(self, key, label):
        """the id string a client sends when the history says `close key label`: the id granted to that reader; a label no reader of
        this key carries = a confused client: the id another key's reader got under that label, else a made-up id"""
        h = self.handles.get((key, label))
        if h is not None:
            return h, h["rdid"]
        for (k2, l2), h2 in self.handles.items():
            if l2 == label:
                return None, h2["rdid"]
        return None, "%08x" % (label & 0xffffffff)

    def shmid(self, key):
        return self.shmid_of.get(key) or formula_shmid(key)

    def key_for(self, shmid):
        if shmid in self.key_of:
            return self.key_of[shmid]
        for op in self.ops:   # a key never granted so far: fall back on the formula
            if len(op) > 1 and isinstance(op[1], str) and formula_shmid(op[1]) == shmid:
                return op[1]
        return "?" + shmid

    def jobs_delta(self):
        out = []
        for j in self.newjobs:
            key = self.key_for(j.shmid)
            ds = self.m.datasets.get(key)
            self.job_obj[j.jid] = ds
            out.append([j.kind, key, j.size if j.kind == "in" else 0])
        self.newjobs = []
        return out

    # ---- the script, pulled by the server loop
    def next_request(self):
        api = self.api
        while True:
            self.beat += 1
            # 1. the reply to the request we sent last
            if self.inflight is not None:
                kind, i, op = self.inflight
                self.inflight = None
                raw = self.replies.pop(0) if self.replies else None
                resp = api.deser(raw) if raw is not None else None
                if kind == "free":
                    part = self.pending
                    self.pending = None
                    fs = resp.free_space if isinstance(resp, api.FreeSpaceResponse) else None
                    ob = part + [fs, self.jobs_delta()]
                    self.obs.append(ob)
                    self.lock_marks.append(len(self.lock_log))
                    if self.watch:
                        self.watch(self, i, op, ob)
                    continue
                self.pending = self.decode(op, resp)
                self.inflight = ("free", i, op)
                return api.ser(api.FreeSpaceRequest())
            # 2. next op
            if self.pc >= len(self.ops) and self.epilogue is not None:
                more = self.epilogue(self)
                if more:
                    self.ops.extend(more)
            if self.pc >= len(self.ops):
                return api.ser(api.ShutdownCommand())
            i, op = self.pc, self.ops[self.pc]
            if op[0] in ("drain", "drainf", "alloc", "read"):
                self.ops[i:i + 1] = self.expand(op)
                continue
            self.pc += 1
            if op[0] == "get":
                del op[4:]
            elif op[0] == "close":
                del op[3:]
            req = self.request_of(op)
            if req is not None:
                self.inflight = ("req", i, op)
                return api.ser(req)
            self.pending = self.env_op(op)
            self.inflight = ("free", i, op)
            return api.ser(api.FreeSpaceRequest())

    def pending_job_steps(self):
        out = []
        for j in self.board.jobs:
            if j.phase == "io":
                out += [["io", j.jid, False]] + ([["unlink", j.jid]] if j.kind == "out" else []) + [["cb", j.jid]]
            elif j.phase == "unlink":
                out += [["unlink", j.jid], ["cb", j.jid]]
            elif j.phase == "cb":
                out.append(["cb", j.jid])
        return out

    def expand(self, op):
        k = op[0]
        if k == "drain":
            return self.pending_job_steps()
        if k == "drainf":
            import random
            out = self.pending_job_steps()
            for o in out:
                if o[0] == "io":
                    o[2] = random.Random(op[1] * 1000003 + o[1]).random() * 100 < op[2]
            return out
        last = self.obs[-1] if self.obs else None
        if k == "alloc":
            _, key, hx, tries, stage = op
            if stage == 0:
                return [["add", key, len(hx) // 2, self.last_now + 1], ["alloc", key, hx, tries, 1]]
            if last and last[0] == "add" and last[2] == "" and last[1] is not None:
                return [["write", key, hx], ["close", key, None]]
            if last and last[0] == "add" and last[2] == "wait" and tries > 0:
                return [["drain"], ["alloc", key, hx, tries - 1, 0]]
            return []
        if k == "read":
            _, key, tries, stage = op
            if stage == 0:
                self.next_rd += 1
                return [["get", key, self.last_now + 1, [self.next_rd]], ["read", key, tries, 1]]
            if last and last[0] == "get" and last[4] == "" and last[1] is not None:
                return [["rseg", key], ["close", key, self.next_rd]]      # the label of the get issued at stage 0
            if last and last[0] == "get" and last[4] == "wait" and tries > 0:
                return [["drain"], ["read", key, tries - 1, 0]]
            return []
        raise ValueError(k)

    def request_of(self, op):
        api, k = self.api, op[0]
        if k == "add":
            self.last_now = max(self.last_now, op[3])
            self.env.clock.now = op[3]
            return api.AllocateRequest(key=op[1], l=op[2], deser_fun="d")
        if k == "close":
            if op[2] is None:
                self.closing = None
                return api.CloseCallback(key=op[1], rdid="")
            h, rdid = self.rdid_of(op[1], op[2])
            self.closing = {"handle": h, "rdid": rdid}
            op.append(self.canon(rdid))
            return api.CloseCallback(key=op[1], rdid=rdid)
        if k == "get":
            self.last_now = max(self.last_now, op[2])
            self.env.clock.now = op[2]
            self.env.uuids.script = list(op[3])
            return api.GetRequest(key=op[1])
        if k == "purge":
            return api.PurgeRequest(key=op[1])
        return None

    def decode(self, op, resp):
        api, k = self.api, op[0]
        if k == "add":
            if not isinstance(resp, api.AllocateResponse):
                return ["add", None, errkind(getattr(resp, "error", "?"))]
            if resp.error:
                return ["add", None if not resp.shmid else "?", resp.error]
            if op[1] in self.shmid_of and self.shmid_of[op[1]] != resp.shmid:
                return ["add", "?unstable-shmid", ""]
            if resp.shmid in self.key_of and self.key_of[resp.shmid] != op[1]:
                return ["add", "?shmid-collision", ""]
            self.shmid_of[op[1]] = resp.shmid
            self.key_of[resp.shmid] = op[1]
            return ["add", op[1], ""]
        if k == "get":
            self.env.uuids.script = []
            if not isinstance(resp, api.GetResponse):
                op.append([])
                return ["get", None, 0, None, errkind(getattr(resp, "error", "?"))]
            if resp.error:
                op.append([])
                ok_shape = (resp.shmid == "" and resp.l == 0 and resp.rdid == "")
                return ["get", None if ok_shape else "?", 0, None, resp.error]
            rd = self.canon(resp.rdid) if resp.rdid else -1
            op.append([rd] if rd >= 0 else [])
            if op[3] and rd >= 0:
                self.handles[(op[1], op[3][-1])] = {"idx": self.pc - 1, "rdid": resp.rdid, "label": op[3][-1], "key": op[1]}
            return ["get", self.key_of.get(resp.shmid, "?" + resp.shmid), resp.l, rd, ""]
        if k in ("close", "purge"):
            if not isinstance(resp, api.OkResponse):
                return [k, "?" + type(resp).__name__]
            return [k, errkind(resp.error) if resp.error else ""]
        raise ValueError(k)

    def env_op(self, op):
        k = op[0]
        if k == "write":
            data = bytes.fromhex(op[2])
            try:
                shm = F.FakeSharedMemory(self.shmid(op[1]), create=True, size=len(data))
            except FileExistsError:
                return ["write", False]
            shm.buf[: len(data)] = data
            shm.close()
            return ["write", True]
        if k == "rseg":
            b = self.reg.segs.get(self.shmid(op[1]))
            return ["rseg", None if b is None else bytes(b).hex()]
        if k == "rfile":
            try:
                with open(f"{self.m.disk.root.name}/{self.shmid(op[1])}", "rb") as f:
                    return ["rfile", f.read().hex()]
            except FileNotFoundError:
                return ["rfile", None]
        if k in ("io", "unlink"):
            jid = op[1]
            j = self.board.jobs[jid] if 0 <= jid < len(self.board.jobs) else None
            if j is not None and j.kind == "out" and j.phase == k:
                key = self.key_for(j.shmid)
                orphan = self.m.datasets.get(key) is not self.job_obj.get(jid) or self.job_obj.get(jid) is None
                if orphan and j.shmid in self.reg.segs:
                    # a page-out job whose Dataset object is gone meets a segment under its name: the key was allocated again
                    self.events.append(("orphan-sees-segment", len(self.obs), key))
            done = self.board.run_io(jid, fault=op[2]) if k == "io" else self.board.run_unlink(jid)
            return [k, bool(done)]
        if k == "cb":
            jid = op[1]
            j = self.board.jobs[jid] if 0 <= jid < len(self.board.jobs) else None
            if j is not None and j.phase == "cb" and j.kind == "out" and j.ok:
                key = self.key_for(j.shmid)
                if self.m.datasets.get(key) is not self.job_obj.get(jid) or self.job_obj.get(jid) is None:
                    self.events.append(("orphan-pageout-success", len(self.obs), key))
            done = self.board.run_cb(jid)
            if done and j.cb_exc:
                self.events.append(("callback-raised", len(self.obs), j.cb_exc))
            return ["cb", bool(done)]
        raise ValueError(k)

    def run(self):
        """the whole history runs in a daemon thread watched from here: a call into the implementation that blocks (a lock taken
        twice, a wait for a wake-up that never comes, a job half that does not end) ends the history with crash = ["Hang", ...]
        instead of hanging the check; the blocked thread is abandoned"""
        done = threading.Event()

        def body():
            try:
                self.srv.start()
            except F.Hang as h:
                self.hang = str(h)
            except Exception as e:   # an exception left the serve loop: the store is dead
                self.crash = [type(e).__name__, repr(e)[:200], max(0, self.pc - 1)]
            finally:
                done.set()
        t = threading.Thread(target=body, daemon=True, name="verif-shm-history")
        t.start()
        try:
            stuck = F.wait_or_hang(done, lambda: self.beat, lambda: [t] + self.board.busy_threads())
            if stuck is not None and not done.is_set():
                self.hang = self.hang or stuck
            if self.hang is not None:
                i = max(0, self.pc - 1)
                del self.ops[self.pc:]       # the replayable case: the history up to the op that blocked
                self.crash = ["Hang", f"{self.ops[i] if i < len(self.ops) else ''} never returned: {self.hang}"[:300], i]
        finally:
            self.board.abort_all()
            try:
                self.m.disk.root.cleanup()
            except Exception:
                pass
        return self.obs, self.crash


def readd_evidence(d):
    """the history contains the open finding readd-during-pageout: a page-out job of a purged Dataset object met a segment under its
    name (the key was allocated again), or -- in histories where clients create segments outside the protocol -- completed successfully"""
    ev = {e[0] for e in d.events}
    return "orphan-sees-segment" in ev or ("orphan-pageout-success" in ev and d.wild_write)


def errkind(err):
    if not err:
        return ""
    if err in ("wait", "conflict", "capacity exceeded"):
        return err
    m = re.match(r"[A-Za-z_][A-Za-z_0-9.]*", err)
    return m.group(0) if m else "?"


def run_history(env, capacity, ops, watch=None):
    d = Driver(env, capacity, ops, watch)
    obs, crash = d.run()
    return d, obs, crash


# ----------------------------------------------------------------------------- what the oracles read off the real Manager
def resident_total(m):
    return sum(ds.size for ds in m.datasets.values() if ds.status.name in RESIDENT)


def snapshot(m):
    return {k: (ds.status.name, ds.size, dict(ds.ongoing_reads), ds.delayed_purge) for k, ds in m.datasets.items()}


# ----------------------------------------------------------------------------- Coq terms
class Names:
    def __init__(self):
        self.t = {}

    def n(self, s):
        if s not in self.t:
            self.t[s] = len(self.t)
        return cN(self.t[s])


def c_bytes(hexs):
    return clist([cN(x) for x in bytes.fromhex(hexs)])


def c_op(nm, op):
    k = op[0]
    if k == "add":
        return f"Add {nm.n(op[1])} {cN(op[2])} {cZ(op[3])}"
    if k == "write":
        return f"Write {nm.n(op[1])} {c_bytes(op[2])}"
    if k == "close":      # the id that was sent (4th element, filled in by the run), else the label itself
        return f"Close {nm.n(op[1])} {copt(op[3] if len(op) > 3 else op[2], cN)}"
    if k == "get":        # the id that was handed out (5th element, filled in by the run): the model validates it instead of predicting it
        return f"Get {nm.n(op[1])} {cZ(op[2])} {clist([cN(c) for c in (op[4] if len(op) > 4 else op[3])])}"
    if k == "purge":
        return f"Purge {nm.n(op[1])}"
    if k == "io":
        return f"JobIo {cN(op[1])} {cbool(op[2])}"
    if k == "unlink":
        return f"JobUnlink {cN(op[1])}"
    if k == "cb":
        return f"JobCb {cN(op[1])}"
    if k == "rseg":
        return f"ReadSeg {nm.n(op[1])}"
    if k == "rfile":
        return f"ReadFile {nm.n(op[1])}"
    raise ValueError(k)


def c_resp(nm, ob):
    k = ob[0]
    bad = 'RErr "?harness-cannot-express"'
    if k == "add":
        if ob[2]:
            return f"RErr {cstr(ob[2])}" if ob[1] is None else bad
        if str(ob[1]).startswith("?"):
            return bad
        return f"RGranted {nm.n(ob[1])}"
    if k == "get":
        if ob[4]:
            return f"RErr {cstr(ob[4])}" if ob[1] is None else bad
        if str(ob[1]).startswith("?") or ob[3] < 0:
            return bad
        return f"RGot {nm.n(ob[1])} {cN(ob[2])} {cN(ob[3])}"
    if k in ("close", "purge"):
        return "ROk" if ob[1] == "" else f"RErr {cstr(ob[1])}"
    if k == "write":
        return f"RWrote {cbool(ob[1])}"
    if k in ("rseg", "rfile"):
        return f"RBytes {copt(ob[1], c_bytes)}"
    if k in ("io", "unlink", "cb"):
        return f"RJob {cbool(ob[1])}"
    raise ValueError(k)


def c_out(nm, ob):
    free, jobs = ob[-2], ob[-1]
    js = clist([f"({'PageOut' if j[0] == 'out' else 'PageIn'}, {nm.n(j[1])}, {cN(max(j[2], 0))})" for j in jobs])
    return f"({c_resp(nm, ob)}, {cZ(free if free is not None else -1)}, {js})"


def c_case(capacity, ops, obs):
    nm = Names()
    o = clist([c_op(nm, op) for op in ops])
    r = clist([c_out(nm, ob) for ob in obs])
    return f"(({cZ(capacity)}, {o},\n    {r}) : Z * list op * list output)"


def hist_key(capacity, ops):
    return hashlib.sha1(json.dumps([capacity, ops], sort_keys=True).encode()).hexdigest()


# ----------------------------------------------------------------------------- generators
def payload(rng, size):
    return bytes(rng.randrange(1, 256) for _ in range(size)).hex()


class Gen:
    """a client population + a scheduler of disk-job completions, producing mostly protocol-abiding op lists.
    It simulates nothing of the Manager: it only remembers what it was told (its own requests), so validity is approximate,
    which is what we want (requests in every status)."""

    def __init__(self, rng, malformed=False, maxlen=40):
        self.rng = rng
        self.malformed = malformed
        self.cap = rng.choice([1, 2, 3, 4, 4, 6, 8, 8, 10, 12, 16])
        nk = rng.choice([1, 2, 2, 3, 3, 4])
        self.keys = [f"k{i}" for i in range(nk)]
        self.maxlen = rng.choice([6, 10, 16, 24, 32, maxlen])
        self.now = rng.choice([1, 5, 1000, 10 ** 9])
        self.jump_p = rng.choice([0.0, 0.0, 0.05, 0.15])

    def tick(self):
        r = self.rng.random()
        if r < self.jump_p:
            self.now += STALE + self.rng.choice([-1, 0, 1, 2, 1000])
        elif r < 0.8:
            self.now += self.rng.choice([1, 1, 2, 3, 10])
        return self.now

    def size(self):
        r = self.rng.random()
        if r < 0.08:
            return self.cap + self.rng.choice([1, 2])
        if r < 0.2:
            return self.cap
        if r < 0.23:
            return self.rng.choice([2 ** 32, 2 ** 40 + 1, 2 ** 63])
        return self.rng.randrange(1, max(2, self.cap // 2 + 2))


def gen_history(rng, malformed=False, maxlen=40):
    g = Gen(rng, malformed, maxlen)
    ops = []
    want_write = {}      # key -> size requested by the latest add (the client does not know yet whether it was granted)
    readers = {}         # key -> list of rdids this population may hold
    next_rd = [1]
    njobs = [0]          # upper bound on jobs submitted so far (the generator cannot know; it guesses)
    jobs_io, jobs_ul, jobs_cb = [], [], []
    last_size = {}
    while len(ops) < g.maxlen:
        r = rng.random()
        k = rng.choice(g.keys)
        if malformed and r < 0.25:
            kind = rng.choice(["close", "close", "write", "io", "unlink", "cb", "purge", "get", "closew"])
            if kind == "close":
                ops.append(["close", k, rng.choice([0, 1, 2, 3, 99])])
            elif kind == "closew":
                ops.append(["close", k, None])
            elif kind == "write":
                ops.append(["write", k, payload(rng, rng.randrange(1, 6))])
            elif kind == "io":
                ops.append(["io", rng.randrange(0, 6), rng.random() < 0.3])
            elif kind == "unlink":
                ops.append(["unlink", rng.randrange(0, 6)])
            elif kind == "cb":
                ops.append(["cb", rng.randrange(0, 6)])
            elif kind == "purge":
                ops.append(["purge", rng.choice(g.keys + ["nokey"])])
            else:
                ops.append(["get", rng.choice(g.keys + ["nokey"]), g.tick(), []])
            continue
        if r < 0.30:
            s = g.size()
            ops.append(["add", k, s, g.tick()])
            if s <= 64:
                want_write[k] = s
                last_size[k] = s
            # an allocation may have triggered page-outs: guess some job ids
            for _ in range(rng.choice([0, 1, 1, 2])):
                jobs_io.append(njobs[0])
                njobs[0] += 1
        elif r < 0.42:
            if k in want_write and rng.random() < 0.9:
                ops.append(["write", k, payload(rng, want_write.pop(k))])
                if rng.random() < 0.7:
                    ops.append(["close", k, None])
            else:
                ops.append(["close", k, None])
        elif r < 0.62:
            cands = [next_rd[0]]
            if readers.get(k) and rng.random() < 0.15:
                cands = [rng.choice(readers[k])] * rng.choice([1, 2]) + cands
            if rng.random() < 0.02:
                cands = []
            next_rd[0] += 1
            ops.append(["get", k, g.tick(), cands])
            if cands:
                readers.setdefault(k, []).append(cands[-1])
            if rng.random() < 0.5:
                jobs_io.append(njobs[0])
                njobs[0] += 1
        elif r < 0.72:
            if readers.get(k):
                rd = rng.choice(readers[k])
                if rng.random() < 0.85:
                    readers[k].remove(rd)
                ops.append(["close", k, rd])
            else:
                ops.append(["rseg", k])
        elif r < 0.80:
            ops.append(["purge", k])
        elif r < 0.87:
            if jobs_io:
                j = jobs_io.pop(rng.randrange(len(jobs_io)) if rng.random() < 0.5 else 0)
                ops.append(["io", j, rng.random() < 0.08])
                jobs_ul.append(j)
            else:
                ops.append(["io", rng.randrange(0, max(1, njobs[0] + 1)), False])
        elif r < 0.94:
            if jobs_ul:
                j = jobs_ul.pop(rng.randrange(len(jobs_ul)) if rng.random() < 0.5 else 0)
                ops.append(["unlink", j])
                jobs_cb.append(j)
            else:
                ops.append(["unlink", rng.randrange(0, max(1, njobs[0] + 1))])
        else:
            if jobs_cb:
                j = jobs_cb.pop(rng.randrange(len(jobs_cb)) if rng.random() < 0.5 else 0)
                ops.append(["cb", j])
            else:
                ops.append(["cb", rng.randrange(0, max(1, njobs[0] + 1))])
    # drain: complete every job that may exist, then probe everything observable
    if rng.random() < 0.7:
        ops.append(["drain"])
    for k in g.keys:
        ops.append(["rseg", k])
        ops.append(["rfile", k])
        ops.append(["get", k, g.tick(), [next_rd[0]]])
        next_rd[0] += 1
    return g.cap, ops


def pressure_history(rng):
    """histories built to reach eviction: fill the store with closed datasets, read some, then over-allocate, complete jobs in
    a random order with requests in between, read back"""
    cap = rng.choice([4, 6, 8, 10, 12, 16])
    nk = rng.choice([2, 3, 4, 5])
    keys = [f"k{i}" for i in range(nk)]
    now = [rng.choice([1, 1000])]
    ops = []
    rd = [1]
    held = []

    def tick(big=False):
        now[0] += (STALE + rng.choice([1, 2, 5])) if big else rng.choice([1, 2, 3])
        return now[0]

    sizes = {}
    budget = cap
    for k in keys[:-1]:
        s = rng.randrange(1, max(2, min(budget, cap // 2 + 1) + 1))
        sizes[k] = s
        ops.append(["add", k, s, tick()])
        ops.append(["write", k, payload(rng, s)])
        if rng.random() < 0.9:
            ops.append(["close", k, None])
        budget = max(1, budget - s)
        for _ in range(rng.choice([0, 0, 1, 2])):
            ops.append(["get", k, tick(), [rd[0]]])
            if rng.random() < 0.7:
                ops.append(["close", k, rd[0]])
            else:
                held.append((k, rd[0]))
            rd[0] += 1
    if rng.random() < 0.3:
        tick(big=True)
    big = keys[-1]
    sizes[big] = rng.randrange(max(1, cap // 2), cap + 1)
    jobs_seen = 0
    pend_io, pend_ul, pend_cb = [], [], []
    for rnd in range(rng.choice([2, 3, 4, 6])):
        choice = rng.random()
        if choice < 0.5:
            ops.append(["add", big, sizes[big], tick()])
        else:
            k = rng.choice(keys)
            ops.append(["get", k, tick(), [rd[0]]])
            held.append((k, rd[0]))
            rd[0] += 1
        for _ in range(rng.choice([1, 2, 3])):
            pend_io.append(jobs_seen)
            jobs_seen += 1
        for _ in range(rng.choice([0, 1, 2, 3, 4])):
            c = rng.random()
            if c < 0.3 and pend_io:
                j = pend_io.pop(rng.randrange(len(pend_io)))
                ops.append(["io", j, rng.random() < 0.05])
                pend_ul.append(j)
            elif c < 0.5 and pend_ul:
                j = pend_ul.pop(rng.randrange(len(pend_ul)))
                ops.append(["unlink", j])
                pend_cb.append(j)
            elif c < 0.65 and pend_cb:
                ops.append(["cb", pend_cb.pop(rng.randrange(len(pend_cb)))])
            elif c < 0.75:
                ops.append(["purge", rng.choice(keys)])
            elif c < 0.85 and held:
                k, r = held.pop(rng.randrange(len(held)))
                ops.append(["close", k, r])
            elif c < 0.92:
                k = rng.choice(keys)
                ops.append(["add", k, sizes.get(k, 1), tick()])
                if rng.random() < 0.7:
                    ops.append(["write", k, payload(rng, sizes.get(k, 1))])
                    ops.append(["close", k, None])
            else:
                ops.append(["write", big, payload(rng, sizes[big])])
                ops.append(["close", big, None])
    ops.append(["drain"])
    for k in keys:
        ops.append(["get", k, tick(), [rd[0]]])
        rd[0] += 1
        ops.append(["rseg", k])
    ops.append(["drain"])
    for k in keys:
        ops.append(["get", k, tick(), [rd[0]]])
        rd[0] += 1
        ops.append(["rseg", k])
        ops.append(["rfile", k])
    return cap, ops


def midpurge_history(rng):
    """a purge (and sometimes a new allocation of the key) landing between the steps of a page-out job: fill the store with closed
    datasets, over-allocate, run the first half of the jobs, purge, run the unlinks and callbacks, then allocate again"""
    cap = rng.choice([4, 6, 8, 10, 12])
    nk = rng.choice([1, 2, 3])
    keys = [f"k{i}" for i in range(nk)]
    t = [rng.choice([1, 100])]

    def tick():
        t[0] += rng.choice([1, 2, 3])
        return t[0]
    ops, sizes = [], {}
    room = cap
    for k in keys:
        s = rng.randrange(1, max(2, room - (nk - len(sizes) - 1) + 1)) if room > 1 else 1
        s = max(1, min(s, room))
        sizes[k] = s
        room = max(1, room - s)
        ops += [["add", k, s, tick()], ["write", k, payload(rng, s)], ["close", k, None]]
        if rng.random() < 0.3:
            ops += [["get", k, tick(), [7]], ["close", k, 7]]
    big = rng.randrange(max(1, cap // 2), cap + 1)
    ops.append(["add", "new", big, tick()])
    njobs = nk   # at most one page-out per key
    order = list(range(njobs))
    rng.shuffle(order)
    stage1 = [j for j in order if rng.random() < 0.85]
    for j in stage1:
        ops.append(["io", j, False])
    for k in keys:
        if rng.random() < 0.6:
            ops.append(["purge", k])
            if rng.random() < 0.35:
                ops += [["add", k, sizes[k], tick()]] + ([["write", k, payload(rng, sizes[k])]] if rng.random() < 0.7 else [])
    for j in order:
        if j not in stage1 and rng.random() < 0.5:
            ops.append(["io", j, False])
        ops.append(["unlink", j])
        if rng.random() < 0.2:
            ops.append(["purge", rng.choice(keys)])
        ops.append(["cb", j])
    ops.append(["drain"])
    for _ in range(rng.choice([1, 2, 3])):
        ops.append(["add", rng.choice(["new", "n2", "n3"]), rng.randrange(max(1, cap // 2), cap + 1), tick()])
    ops.append(["drain"])
    ops.append(["add", "n4", cap, tick()])
    return cap, ops


def rewrite_history(rng):
    """one key written, sent to disk and back, purged, written again with other bytes (same or another size), sent to disk and
    back again -- by patient clients (macros), in a store that holds about one dataset at a time"""
    n = rng.choice([1, 2, 3, 4, 6])
    n2 = n if rng.random() < 0.6 else rng.choice([1, 2, 3, 5, 7])
    m = rng.choice([1, 2, 3, 4, 6])
    cap = max(n, n2, m) + rng.randrange(0, max(1, min(n, n2, m)))
    ops = [["alloc", "k1", payload(rng, n), 4, 0], ["alloc", "k2", payload(rng, m), 4, 0], ["read", "k1", 4, 0]]
    if rng.random() < 0.3:
        ops.append(["read", "k2", 4, 0])
        ops.append(["read", "k1", 4, 0])
    ops.append(["purge", "k1"])
    if rng.random() < 0.2:
        ops.append(["purge", "k2"])
    ops.append(["alloc", "k1", payload(rng, n2), 4, 0])
    for k in rng.choice([["k1", "k2", "k1"], ["k2", "k1"], ["k1", "k2", "k1", "k2", "k1"]]):
        ops.append(["read", k, 4, 0])
    ops += [["rfile", "k1"], ["rseg", "k1"]]
    return cap, ops
