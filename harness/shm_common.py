"""Shared harness of C08 / C09: drives the REAL cascade.shm.server.LocalServer.start loop (real
dataset.Manager, real algorithms.lottery, real disk.Disk._page_out/_page_in bodies, real api.ser/deser)
over a scripted UDP socket.  dataset.SharedMemory / disk.SharedMemory are an in-memory registry,
the Disk thread pools are a manual executor (each job = two steps: `io` = the real body up to the
callback, `cb` = the real Manager callback), time.time_ns and uuid.uuid4 are scripted.

An op list (JSON-able):
  ["add", key, size, now]         AllocateRequest
  ["write", key, hex]             the client half of allocate(): SharedMemory(shmid, create=True, size) + fill
  ["close", key, label|None]      CloseCallback (None = the writer's close; label = the reader that the get with this label was granted)
  ["get", key, now, [cands]]      GetRequest; the LAST element of cands is the label of this reader (how the history refers to it later);
                                  where the implementation draws from uuid.uuid4, cands also script it (leading elements = ids of other
                                  readers, to force collisions).  The reader id itself is whatever the server answers: the harness keeps
                                  label -> id, numbers the ids by first appearance, and never interprets them
                                  (after the run the op carries what was executed: get -> 5th element [id number], close -> 4th element id number)
  ["purge", key]                  PurgeRequest
  ["io", jid, fault]              disk job number jid (submission order): page-in = the real body; page-out = the real body up to its unlink
  ["unlink", jid]                 page-out only: the rest of the body (shm.unlink), after which the job reports ok / failed
  ["cb", jid]                     the real Manager callback of the job
  ["drainf", seed, percent]       macro: like drain, each io step failing with that probability (decided by seed and job number)
  ["drain"] ["alloc", key, hex, tries, 0] ["read", key, tries, 0]
                                  macros, expanded while the history runs into the concrete ops above (complete every pending job;
                                  a patient writer: add, drain and retry on wait, then write + close; a patient reader likewise)
  ["rseg", key] ["rfile", key]    what a client / the disk shows under the key's shmid
Fine-grained steps of the code that runs on the Disk threads (stream conc; fakes/shm_fakes.py Task): requests and steps of other jobs
run while a job body or a Manager callback is parked at one of its yield points (log call, lock acquisition, segment / file operation)
  ["bstep", jid, fault, n]        the body of job jid (started if need be; fault counts then) passes n yield points, parks at the next or ends
  ["cpart", jid]                  the callback of job jid runs up to its next blocking lock acquisition (parked right before it) or to its end
  ["cstep", jid, n]               the callback passes n yield points of any kind
  io / unlink / cb                finish whatever a fine-grained step has begun
  ["weave", seed, mode, reqs, pf] macro: a random interleaving of the steps of all pending jobs (mode "lock": callbacks by cpart, "any": cstep,
                                  page-out bodies by bstep too) with the requests reqs; ["addfit", key] = allocate exactly the free space last
                                  reported; ["peek", key, label] = get, closed at once when granted
The capacity of a history is either a number (configured capacity; /dev/shm offers plenty) or [configured | None, available]: what the
server is started with and what findmnt reports for /dev/shm.
After every op a FreeSpaceRequest goes through the same loop.
Observation per op: [kind, ..., free_space_after, [[jobkind, key, size], ...newly submitted jobs]]
"""
from __future__ import annotations

import contextlib
import hashlib
import json
import logging
import re
import threading
import types

from common import cN, cZ, cbool, clist, copt, cstr
from fakes import shm_fakes as F

HEADER = """From Coq Require Import List NArith ZArith String.
From EKW Require Import Shm.Lottery Shm.Manager Shm.ManagerConc Shm.ManagerCheck.
Import ListNotations.
Open Scope string_scope.
"""

PREFIX = "vf"
RESIDENT = ("created", "in_memory", "paging_out", "paged_in")
STALE = int(15 * 60 * 1e9)


HUGE = 2 ** 62


def cfg_of(capacity):
    """(configured capacity as passed to the Manager, what /dev/shm offers, the capacity the store must work with)"""
    if isinstance(capacity, (list, tuple)):
        configured, avail = capacity
    else:
        configured, avail = capacity, HUGE
    return configured, avail, (avail if not configured else min(configured, avail))


class FakeSubprocess:
    """the `subprocess` module as seen by cascade.shm.dataset: findmnt reports the scripted free space of /dev/shm"""

    def run(self, cmd, *a, **k):
        import subprocess
        if cmd and cmd[0] == "findmnt":
            return subprocess.CompletedProcess(cmd, 0, stdout=("AVAIL\n%d\n" % F.WORLD.avail).encode("ascii"), stderr=b"")
        raise FileNotFoundError(2, "not available in the harness", cmd[0] if cmd else "")

    def __getattr__(self, name):
        import subprocess
        return getattr(subprocess, name)


def formula_shmid(key):
    return PREFIX + hashlib.md5(key.encode()).hexdigest()[: 24 - len(PREFIX)]


@contextlib.contextmanager
def patched():
    """replace the seams for the duration of a run (restored afterwards).  SharedMemory / the Disk pools / open are needed to drive
    the store at all; the clock and uuid seams are taken where they exist (reader ids are never forced, only observed)"""
    import cascade.shm.dataset as dataset
    import cascade.shm.disk as disk
    clock, uuids = F.Clock(), F.UUIDs()
    missing = object()
    saved = []

    def put(mod, name, value, optional=False):
        old = mod.__dict__.get(name, missing)
        if old is missing and optional:
            return False
        saved.append((mod, name, old))
        setattr(mod, name, value)
        return True

    put(dataset, "SharedMemory", F.FakeSharedMemory)
    seams = {"time": put(dataset, "time", clock, optional=True), "time_ns": put(dataset, "time_ns", clock.time_ns, optional=True),
             "uuid": put(dataset, "uuid", uuids, optional=True), "uuid4": put(dataset, "uuid4", uuids.uuid4, optional=True)}
    for name in ("monotonic_ns", "monotonic", "perf_counter_ns", "perf_counter"):      # clocks imported by name: each its own epoch
        put(dataset, name, getattr(clock, name), optional=True)
    # what /dev/shm offers is scripted per history (Driver sets F.WORLD.avail): through get_capacity and through findmnt itself
    put(dataset, "get_capacity", lambda: F.WORLD.avail, optional=True)
    put(dataset, "subprocess", FakeSubprocess(), optional=True)
    # the module-level loggers: nothing is written, every call is a yield point of a Disk-thread task
    put(dataset, "logger", F.YLogger(), optional=True)
    put(disk, "logger", F.YLogger(), optional=True)
    put(disk, "SharedMemory", F.FakeSharedMemory)
    put(disk, "ThreadPoolExecutor", F.ManualExecutor)
    put(disk, "multiprocessing", types.SimpleNamespace(resource_tracker=types.SimpleNamespace(unregister=lambda *a, **k: None)))
    put(disk, "open", F.fake_open)
    prev = logging.root.manager.disable
    logging.disable(logging.CRITICAL)
    try:
        yield types.SimpleNamespace(clock=clock, uuids=uuids, dataset=dataset, disk=disk, seams=seams)
    finally:
        logging.disable(prev)
        for mod, name, old in reversed(saved):
            if old is missing:
                delattr(mod, name)
            else:
                setattr(mod, name, old)


class ScriptSock:
    """the UDP socket of LocalServer: recvfrom pulls the next request from the driver, sendto hands the reply back"""

    def __init__(self, driver):
        self.driver = driver

    def recvfrom(self, n):
        return self.driver.next_request(), ("client", 0)

    def sendto(self, b, addr):
        self.driver.replies.append(b)

    def close(self):
        pass


class Driver:
    def __init__(self, env, capacity, ops, watch=None):
        import cascade.shm.api as api
        import cascade.shm.server as server
        self.env, self.api = env, api
        self.capacity = capacity                  # as in the case: a number or [configured, available]
        self.configured, self.avail, self.effective = cfg_of(capacity)
        F.WORLD.avail = self.avail
        self.ops = ops
        self.watch = watch            # callable(driver, index, op, obs) after every op (oracles look at the real Manager here)
        F.WORLD.reg = F.Registry()
        F.BOARD.board = F.JobBoard()
        self.board = F.BOARD.board
        self.reg = F.WORLD.reg
        self.newjobs = []
        self.board.on_submit = lambda j: self.newjobs.append(j)
        self.srv = object.__new__(server.LocalServer)
        self.srv.sock = ScriptSock(self)
        self.srv.manager = env.dataset.Manager(PREFIX, self.configured)
        self.m = self.srv.manager
        self.shmid_of = {}            # key -> shmid as handed out by the server
        self.key_of = {}
        self.replies = []
        self.obs = []
        self.pc = 0
        self.pending = None           # (index, op, partial observation) waiting for its free-space probe
        self.inflight = None
        self.crash = None
        self.events = []              # harness-side ghost events (e.g. orphan page-out success) for signatures
        self.job_obj = {}             # jid -> id() of the Dataset object registered under the job's key at submission
        self.last_now = 0
        self.next_rd = 500000
        self.epilogue = None          # callable(driver) -> more ops | None, asked when the script runs dry
        self.wild_write = False
        # reader ids: whatever strings the server hands out, numbered by first appearance; the history speaks of readers by label
        self.rd_canon = {}            # id string -> number
        self.handles = {}             # (key, label) -> {"idx": index of the granted get, "rdid": id string}
        self.closing = None           # during/after a reader's close: the handle it refers to (or None) and the id string sent
        self.beat = 0                 # progress counter for the watchdog
        self.hang = None
        self.lock_log = []            # (lock attribute, acq|rel|busy|reacquire) events of the Manager's plain locks
        self.lock_marks = []          # len(lock_log) after each op
        self.watched_locks = F.watch_locks(self.m, self.lock_log)
        self.unmodelled = None        # set when the history used a step the Coq model has no counterpart for (oracle only then)
        self.fine = False             # a fine-grained step was used: the case goes to the fine-grained model (Shm/ManagerConc.v)
        self.conc = {}                # what the interleavings of this history reached (for the histogram)

    # ---- helpers
    def canon(self, rdid):
        if rdid not in self.rd_canon:
            self.rd_canon[rdid] = len(self.rd_canon)
        return self.rd_canon[rdid]

    def rdid_of(self, key, label):
        """the id string a client sends when the history says `close key label`: the id granted to that reader; a label no reader of
        this key carries = a confused client: the id another key's reader got under that label, else a made-up id"""
        h = self.handles.get((key, label))
        if h is not None:
            return h, h["rdid"]
        for (k2, l2), h2 in self.handles.items():
            if l2 == label:
                return None, h2["rdid"]
        return None, "%08x" % (label & 0xffffffff)

    def shmid(self, key):
        return self.shmid_of.get(key) or formula_shmid(key)

    def key_for(self, shmid):
        if shmid in self.key_of:
            return self.key_of[shmid]
        for op in self.ops:   # a key never granted so far: fall back on the formula
            if len(op) > 1 and isinstance(op[1], str) and formula_shmid(op[1]) == shmid:
                return op[1]
        return "?" + shmid

    def jobs_delta(self):
        out = []
        for j in self.newjobs:
            key = self.key_for(j.shmid)
            ds = self.m.datasets.get(key)
            self.job_obj[j.jid] = ds
            out.append([j.kind, key, j.size if j.kind == "in" else 0])
        self.newjobs = []
        return out

    # ---- the script, pulled by the server loop
    def next_request(self):
        api = self.api
        while True:
            self.beat += 1
            # 1. the reply to the request we sent last
            if self.inflight is not None:
                kind, i, op = self.inflight
                self.inflight = None
                raw = self.replies.pop(0) if self.replies else None
                resp = api.deser(raw) if raw is not None else None
                if kind == "free":
                    part = self.pending
                    self.pending = None
                    fs = resp.free_space if isinstance(resp, api.FreeSpaceResponse) else None
                    ob = part + [fs, self.jobs_delta()]
                    self.obs.append(ob)
                    self.lock_marks.append(len(self.lock_log))
                    if self.watch:
                        self.watch(self, i, op, ob)
                    continue
                self.pending = self.decode(op, resp)
                if self.fine and self.pending[0] in ("add", "get"):
                    bodies, cbs = self.in_flight()
                    if cbs and self.pending[0] == "add" and self.pending[2] == "" and self.pending[1] is not None:
                        self.conc["allocation-granted-during-a-callback"] = 1
                    if cbs or bodies:
                        self.conc["request-during-a-disk-thread-step"] = 1
                self.inflight = ("free", i, op)
                return api.ser(api.FreeSpaceRequest())
            # 2. next op
            if self.pc >= len(self.ops) and self.epilogue is not None:
                more = self.epilogue(self)
                if more:
                    self.ops.extend(more)
            if self.pc >= len(self.ops):
                return api.ser(api.ShutdownCommand())
            i, op = self.pc, self.ops[self.pc]
            if op[0] in ("drain", "drainf", "alloc", "read", "weave", "addfit", "peek"):
                self.ops[i:i + 1] = self.expand(op)
                continue
            self.pc += 1
            if op[0] == "add" and op[3] is None:       # a request produced while the history runs: the clock has moved on by then
                op[3] = self.last_now + 1
            if op[0] == "get" and op[2] is None:
                op[2] = self.last_now + 1
            if op[0] == "get":
                del op[4:]
            elif op[0] == "close":
                del op[3:]
            req = self.request_of(op)
            if req is not None:
                self.inflight = ("req", i, op)
                return api.ser(req)
            self.pending = self.env_op(op)
            self.inflight = ("free", i, op)
            return api.ser(api.FreeSpaceRequest())

    def pending_job_steps(self):
        out = []
        for j in self.board.jobs:
            if j.phase == "io":
                out += [["io", j.jid, False]] + ([["unlink", j.jid]] if j.kind == "out" else []) + [["cb", j.jid]]
            elif j.phase == "unlink":
                out += [["unlink", j.jid], ["cb", j.jid]]
            elif j.phase == "cb":
                out.append(["cb", j.jid])
        return out

    def expand(self, op):
        k = op[0]
        if k == "drain":
            return self.pending_job_steps()
        if k == "drainf":
            import random
            out = self.pending_job_steps()
            for o in out:
                if o[0] == "io":
                    o[2] = random.Random(op[1] * 1000003 + o[1]).random() * 100 < op[2]
            return out
        last = self.obs[-1] if self.obs else None
        if k == "alloc":
            _, key, hx, tries, stage = op
            if stage == 0:
                return [["add", key, len(hx) // 2, self.last_now + 1], ["alloc", key, hx, tries, 1]]
            if last and last[0] == "add" and last[2] == "" and last[1] is not None:
                return [["write", key, hx], ["close", key, None]]
            if last and last[0] == "add" and last[2] == "wait" and tries > 0:
                return [["drain"], ["alloc", key, hx, tries - 1, 0]]
            return []
        if k == "read":
            _, key, tries, stage = op
            if stage == 0:
                self.next_rd += 1
                return [["get", key, self.last_now + 1, [self.next_rd]], ["read", key, tries, 1]]
            if last and last[0] == "get" and last[4] == "" and last[1] is not None:
                return [["rseg", key], ["close", key, self.next_rd]]      # the label of the get issued at stage 0
            if last and last[0] == "get" and last[4] == "wait" and tries > 0:
                return [["drain"], ["read", key, tries - 1, 0]]
            return []
        if k == "addfit":
            free = last[-2] if last and isinstance(last[-2], int) else 0
            size = free if 0 < free <= 64 else 1
            import random
            return [["alloc", op[1], payload(random.Random(f"{op[1]}:{size}:{len(self.obs)}"), size), 0, 0]]
        if k == "peek":
            _, key, label = op[:3]
            if len(op) == 3:
                return [["get", key, self.last_now + 1, [label]], ["peek", key, label, 1]]
            if last and last[0] == "get" and last[4] == "" and last[1] is not None:
                return [["close", key, label]]
            return []
        if k == "weave":
            return self.weave(op)
        raise ValueError(k)

    def weave(self, op):
        """one step of an interleaving: a step of one of the pending jobs or the next request, then the macro again.  Two kinds of
        interleaving (decided by the seed): random -- any job, steps of random length; round robin -- the job that has taken the fewest
        steps so far passes exactly one yield point, so that every operation of a job is followed by one operation of every other
        job in flight (each has read its chunk before the other copies its own, each is about to take the lock when the other is ...)"""
        import random
        _, seed, mode, reqs, pf = op
        rng = random.Random(f"{seed}:{len(self.obs)}")
        rr = seed % 3 == 0
        taken = self.__dict__.setdefault("weave_taken", {})
        choices = []
        for j in self.board.jobs:
            if j.phase in ("io", "unlink"):
                fault = rng.random() < pf
                if j.kind == "in" or mode == "any":
                    choices.append(["bstep", j.jid, fault, 0 if rr else rng.choice([0, 0, 1, 1, 1, 2, 3])])
                else:
                    choices.append(["io", j.jid, fault] if j.phase == "io" else ["unlink", j.jid])
            elif j.phase == "cb":
                if mode == "any":
                    choices.append(["cstep", j.jid, 0 if rr else rng.choice([0, 1, 1, 2])])
                else:
                    choices.append(["cpart", j.jid] if rr or rng.random() < 0.9 else ["cb", j.jid])
        if rr and choices:
            least = min(taken.get(c[1], 0) for c in choices)
            choices = [c for c in choices if taken.get(c[1], 0) == least][:1]
        if reqs:
            if not choices or rng.random() < (0.2 if rr else 0.25 + 0.75 / (1 + len(choices))):
                return [list(reqs[0]), ["weave", seed, mode, reqs[1:], pf]]
        if not choices:
            return []
        c = rng.choice(choices)
        taken[c[1]] = taken.get(c[1], 0) + 1
        return [c, ["weave", seed, mode, reqs, pf]]

    def note_orphan(self, j, stage):
        """ghost events for the signatures of the finding readd-during-pageout"""
        key = self.key_for(j.shmid)
        orphan = self.m.datasets.get(key) is not self.job_obj.get(j.jid) or self.job_obj.get(j.jid) is None
        if stage == "body" and j.kind == "out" and orphan and j.shmid in self.reg.segs:
            # a page-out job whose Dataset object is gone meets a segment under its name: the key was allocated again
            self.events.append(("orphan-sees-segment", len(self.obs), key))
        if stage == "cb" and j.kind == "out" and j.ok and orphan:
            self.events.append(("orphan-pageout-success", len(self.obs), key))

    def in_flight(self):
        bodies = [j for j in self.board.jobs if j.phase in ("io", "unlink") and j.btask is not None and not j.btask.done]
        return bodies, self.board.cb_in_flight()

    def request_of(self, op):
        api, k = self.api, op[0]
        if k == "add":
            self.last_now = max(self.last_now, op[3])
            self.env.clock.now = op[3]
            return api.AllocateRequest(key=op[1], l=op[2], deser_fun="d")
        if k == "close":
            if op[2] is None:
                self.closing = None
                return api.CloseCallback(key=op[1], rdid="")
            h, rdid = self.rdid_of(op[1], op[2])
            self.closing = {"handle": h, "rdid": rdid}
            op.append(self.canon(rdid))
            return api.CloseCallback(key=op[1], rdid=rdid)
        if k == "get":
            self.last_now = max(self.last_now, op[2])
            self.env.clock.now = op[2]
            self.env.uuids.script = list(op[3])
            return api.GetRequest(key=op[1])
        if k == "purge":
            return api.PurgeRequest(key=op[1])
        return None

    def decode(self, op, resp):
        api, k = self.api, op[0]
        if k == "add":
            if not isinstance(resp, api.AllocateResponse):
                return ["add", None, errkind(getattr(resp, "error", "?"))]
            if resp.error:
                return ["add", None if not resp.shmid else "?", resp.error]
            if op[1] in self.shmid_of and self.shmid_of[op[1]] != resp.shmid:
                return ["add", "?unstable-shmid", ""]
            if resp.shmid in self.key_of and self.key_of[resp.shmid] != op[1]:
                return ["add", "?shmid-collision", ""]
            self.shmid_of[op[1]] = resp.shmid
            self.key_of[resp.shmid] = op[1]
            return ["add", op[1], ""]
        if k == "get":
            self.env.uuids.script = []
            if not isinstance(resp, api.GetResponse):
                op.append([])
                return ["get", None, 0, None, errkind(getattr(resp, "error", "?"))]
            if resp.error:
                op.append([])
                ok_shape = (resp.shmid == "" and resp.l == 0 and resp.rdid == "")
                return ["get", None if ok_shape else "?", 0, None, resp.error]
            rd = self.canon(resp.rdid) if resp.rdid else -1
            op.append([rd] if rd >= 0 else [])
            if op[3] and rd >= 0:
                self.handles[(op[1], op[3][-1])] = {"idx": self.pc - 1, "rdid": resp.rdid, "label": op[3][-1], "key": op[1]}
            return ["get", self.key_of.get(resp.shmid, "?" + resp.shmid), resp.l, rd, ""]
        if k in ("close", "purge"):
            if not isinstance(resp, api.OkResponse):
                return [k, "?" + type(resp).__name__]
            return [k, errkind(resp.error) if resp.error else ""]
        raise ValueError(k)

    def env_op(self, op):
        k = op[0]
        if k == "write":
            data = bytes.fromhex(op[2])
            try:
                shm = F.FakeSharedMemory(self.shmid(op[1]), create=True, size=len(data))
            except FileExistsError:
                return ["write", False]
            shm.buf[: len(data)] = data
            shm.close()
            return ["write", True]
        if k == "rseg":
            b = self.reg.segs.get(self.shmid(op[1]))
            return ["rseg", None if b is None else bytes(b).hex()]
        if k == "rfile":
            try:
                with open(f"{self.m.disk.root.name}/{self.shmid(op[1])}", "rb") as f:
                    return ["rfile", f.read().hex()]
            except FileNotFoundError:
                return ["rfile", None]
        if k in ("io", "unlink"):
            jid = op[1]
            j = self.board.job(jid, k)
            info = {}
            if j is not None:
                self.note_orphan(j, "body")
                before = len(j.btask.passed) if j.btask is not None else None
            done = self.board.run_io(jid, fault=op[2]) if k == "io" else self.board.run_unlink(jid)
            if j is not None and j.kind == "in":
                # did the segment come into being during THIS op (always, unless a fine-grained step had started the body before)
                info = {"created": before is None or "shm:create" in j.btask.passed[before:], "fault": j.fault}
            return [k, bool(done), info]
        if k == "bstep":
            jid = op[1]
            j = self.board.job(jid, "io", "unlink")
            if j is None:
                return ["bstep", False, {}]
            self.fine = True
            self.note_orphan(j, "body")
            if j.kind == "out":
                self.unmodelled = self.unmodelled or "page-out body stepped through its yield points"
            passed = self.board.body_step(jid, op[2], op[3])
            bodies, _ = self.in_flight()
            if len(bodies) >= 2:
                self.conc["bodies-in-flight-together"] = 1
                if sum(1 for b in bodies if b.kind == "in") >= 2:
                    self.conc["page-ins-in-flight-together"] = 1
            return ["bstep", True, {"kind": j.kind, "created": "shm:create" in passed, "fault": j.fault, "ended": j.phase == "cb", "passed": len(passed)}]
        if k in ("cpart", "cstep"):
            jid = op[1]
            j = self.board.job(jid, "cb")
            if j is None:
                return [k, False, {}]
            self.fine = True
            if j.ctask is None:
                self.note_orphan(j, "cb")
            if k == "cstep":
                self.unmodelled = self.unmodelled or "callback stepped through yield points other than lock acquisitions"
                passed = self.board.cb_step(jid, op[2])
            else:
                passed = self.board.cb_part(jid)
            if j.phase == "done" and j.cb_exc:
                self.events.append(("callback-raised", len(self.obs), j.cb_exc))
            if len(self.board.cb_in_flight()) >= 2:
                self.conc["callbacks-in-flight-together"] = 1
            return [k, True, {"ended": j.phase == "done", "passed": len(passed)}]
        if k == "cb":
            jid = op[1]
            j = self.board.job(jid, "cb")
            if j is not None and j.ctask is None:
                self.note_orphan(j, "cb")
            done = self.board.run_cb(jid)
            if done and j.cb_exc:
                self.events.append(("callback-raised", len(self.obs), j.cb_exc))
            return ["cb", bool(done)]
        raise ValueError(k)

    def run(self):
        """the whole history runs in a daemon thread watched from here: a call into the implementation that blocks (a lock taken
        twice, a wait for a wake-up that never comes, a job half that does not end) ends the history with crash = ["Hang", ...]
        instead of hanging the check; the blocked thread is abandoned"""
        done = threading.Event()

        def body():
            try:
                self.srv.start()
            except F.Hang as h:
                self.hang = str(h)
            except Exception as e:   # an exception left the serve loop: the store is dead
                self.crash = [type(e).__name__, repr(e)[:200], max(0, self.pc - 1)]
            finally:
                done.set()
        t = threading.Thread(target=body, daemon=True, name="verif-shm-history")
        t.start()
        try:
            stuck = F.wait_or_hang(done, lambda: self.beat, lambda: [t] + self.board.busy_threads())
            if stuck is not None and not done.is_set():
                self.hang = self.hang or stuck
            if self.hang is not None:
                i = max(0, self.pc - 1)
                del self.ops[self.pc:]       # the replayable case: the history up to the op that blocked
                self.crash = ["Hang", f"{self.ops[i] if i < len(self.ops) else ''} never returned: {self.hang}"[:300], i]
        finally:
            self.board.abort_all()
            try:
                self.m.disk.root.cleanup()
            except Exception:
                pass
        return self.obs, self.crash


def readd_evidence(d):
    """the history contains the open finding readd-during-pageout: a page-out job of a purged Dataset object met a segment under its
    name (the key was allocated again), or -- in histories where clients create segments outside the protocol -- completed successfully"""
    ev = {e[0] for e in d.events}
    return "orphan-sees-segment" in ev or ("orphan-pageout-success" in ev and d.wild_write)


def errkind(err):
    if not err:
        return ""
    if err in ("wait", "conflict", "capacity exceeded"):
        return err
    m = re.match(r"[A-Za-z_][A-Za-z_0-9.]*", err)
    return m.group(0) if m else "?"


def run_history(env, capacity, ops, watch=None):
    d = Driver(env, capacity, ops, watch)
    obs, crash = d.run()
    return d, obs, crash


# ----------------------------------------------------------------------------- what the oracles read off the real Manager
def resident_total(m):
    return sum(ds.size for ds in m.datasets.values() if ds.status.name in RESIDENT)


def snapshot(m):
    return {k: (ds.status.name, ds.size, dict(ds.ongoing_reads), ds.delayed_purge) for k, ds in m.datasets.items()}


# ----------------------------------------------------------------------------- Coq terms
class Names:
    def __init__(self):
        self.t = {}

    def n(self, s):
        if s not in self.t:
            self.t[s] = len(self.t)
        return cN(self.t[s])


def c_bytes(hexs):
    return clist([cN(x) for x in bytes.fromhex(hexs)])


def c_op(nm, op):
    k = op[0]
    if k == "add":
        return f"Add {nm.n(op[1])} {cN(op[2])} {cZ(op[3])}"
    if k == "write":
        return f"Write {nm.n(op[1])} {c_bytes(op[2])}"
    if k == "close":      # the id that was sent (4th element, filled in by the run), else the label itself
        return f"Close {nm.n(op[1])} {copt(op[3] if len(op) > 3 else op[2], cN)}"
    if k == "get":        # the id that was handed out (5th element, filled in by the run): the model validates it instead of predicting it
        return f"Get {nm.n(op[1])} {cZ(op[2])} {clist([cN(c) for c in (op[4] if len(op) > 4 else op[3])])}"
    if k == "purge":
        return f"Purge {nm.n(op[1])}"
    if k == "io":
        return f"JobIo {cN(op[1])} {cbool(op[2])}"
    if k == "unlink":
        return f"JobUnlink {cN(op[1])}"
    if k == "cb":
        return f"JobCb {cN(op[1])}"
    if k == "rseg":
        return f"ReadSeg {nm.n(op[1])}"
    if k == "rfile":
        return f"ReadFile {nm.n(op[1])}"
    raise ValueError(k)


def c_resp(nm, ob):
    k = ob[0]
    bad = 'RErr "?harness-cannot-express"'
    if k == "add":
        if ob[2]:
            return f"RErr {cstr(ob[2])}" if ob[1] is None else bad
        if str(ob[1]).startswith("?"):
            return bad
        return f"RGranted {nm.n(ob[1])}"
    if k == "get":
        if ob[4]:
            return f"RErr {cstr(ob[4])}" if ob[1] is None else bad
        if str(ob[1]).startswith("?") or ob[3] < 0:
            return bad
        return f"RGot {nm.n(ob[1])} {cN(ob[2])} {cN(ob[3])}"
    if k in ("close", "purge"):
        return "ROk" if ob[1] == "" else f"RErr {cstr(ob[1])}"
    if k == "write":
        return f"RWrote {cbool(ob[1])}"
    if k in ("rseg", "rfile"):
        return f"RBytes {copt(ob[1], c_bytes)}"
    if k in ("io", "unlink", "cb", "bstep", "cpart", "cstep"):
        return f"RJob {cbool(ob[1])}"
    raise ValueError(k)


def c_out(nm, ob):
    free, jobs = ob[-2], ob[-1]
    js = clist([f"({'PageOut' if j[0] == 'out' else 'PageIn'}, {nm.n(j[1])}, {cN(max(j[2], 0))})" for j in jobs])
    return f"({c_resp(nm, ob)}, {cZ(free if free is not None else -1)}, {js})"


def c_cfg(capacity):
    configured, avail, _ = cfg_of(capacity)
    return f"{copt(configured, cZ)}, {cZ(avail)}, {cZ(F.Clock.WALL0)}"


def c_case(capacity, ops, obs):
    """(configured capacity, what /dev/shm offers, epoch of the wall clock, ops with the scripted times, observed outputs)"""
    nm = Names()
    o = clist([c_op(nm, op) for op in ops])
    r = clist([c_out(nm, ob) for ob in obs])
    return f"(({c_cfg(capacity)}, {o},\n    {r}) : option Z * Z * Z * list op * list output)"


def c_fop(nm, op, ob):
    """an op of a fine-grained history for Shm/ManagerConc.v.  The body of a page-in job is one step of the model (JobIo), taken at the
    moment the body creates its segment -- which the run observed; the other yield points of a body change nothing a request can see"""
    k = op[0]
    if k == "cpart":
        # parked at a lock acquisition: one part of the model's callback; ran to its end: whatever parts the model has left
        return f"FCbPart {cN(op[1])}" if ob[1] and not ob[2].get("ended") else f"FA (JobCb {cN(op[1])})"
    if k in ("bstep", "io") and ob[1] and ob[2].get("created") is not None:
        return f"FA (JobIo {cN(op[1])} {cbool(ob[2]['fault'])})" if ob[2]["created"] else "FNop"
    if k == "bstep":
        return f"FA (JobIo {cN(op[1])} {cbool(op[2])})"      # did not run: no such job, or its body has ended
    return f"FA ({c_op(nm, op)})"


def c_fcase(capacity, ops, obs):
    nm = Names()
    o = clist([c_fop(nm, op, ob) for op, ob in zip(ops, obs)])
    r = clist([c_out(nm, ob) for ob in obs])
    return f"(({c_cfg(capacity)}, {o},\n    {r}) : option Z * Z * Z * list fop * list output)"


def hist_key(capacity, ops):
    return hashlib.sha1(json.dumps([capacity, ops], sort_keys=True).encode()).hexdigest()


# ----------------------------------------------------------------------------- generators
def payload(rng, size):
    return bytes(rng.randrange(1, 256) for _ in range(size)).hex()


class Gen:
    """a client population + a scheduler of disk-job completions, producing mostly protocol-abiding op lists.
    It simulates nothing of the Manager: it only remembers what it was told (its own requests), so validity is approximate,
    which is what we want (requests in every status)."""

    def __init__(self, rng, malformed=False, maxlen=40):
        self.rng = rng
        self.malformed = malformed
        self.cap = rng.choice([1, 2, 3, 4, 4, 6, 8, 8, 10, 12, 16])
        nk = rng.choice([1, 2, 2, 3, 3, 4])
        self.keys = [f"k{i}" for i in range(nk)]
        self.maxlen = rng.choice([6, 10, 16, 24, 32, maxlen])
        self.now = rng.choice([1, 5, 1000, 10 ** 9])
        self.jump_p = rng.choice([0.0, 0.0, 0.05, 0.15])

    def tick(self):
        r = self.rng.random()
        if r < self.jump_p:
            self.now += STALE + self.rng.choice([-1, 0, 1, 2, 1000])
        elif r < 0.8:
            self.now += self.rng.choice([1, 1, 2, 3, 10])
        return self.now

    def size(self):
        r = self.rng.random()
        if r < 0.08:
            return self.cap + self.rng.choice([1, 2])
        if r < 0.2:
            return self.cap
        if r < 0.23:
            return self.rng.choice([2 ** 32, 2 ** 40 + 1, 2 ** 63])
        return self.rng.randrange(1, max(2, self.cap // 2 + 2))


def gen_history(rng, malformed=False, maxlen=40):
    g = Gen(rng, malformed, maxlen)
    ops = []
    want_write = {}      # key -> size requested by the latest add (the client does not know yet whether it was granted)
    readers = {}         # key -> list of rdids this population may hold
    next_rd = [1]
    njobs = [0]          # upper bound on jobs submitted so far (the generator cannot know; it guesses)
    jobs_io, jobs_ul, jobs_cb = [], [], []
    last_size = {}
    while len(ops) < g.maxlen:
        r = rng.random()
        k = rng.choice(g.keys)
        if malformed and r < 0.25:
            kind = rng.choice(["close", "close", "write", "io", "unlink", "cb", "purge", "get", "closew"])
            if kind == "close":
                ops.append(["close", k, rng.choice([0, 1, 2, 3, 99])])
            elif kind == "closew":
                ops.append(["close", k, None])
            elif kind == "write":
                ops.append(["write", k, payload(rng, rng.randrange(1, 6))])
            elif kind == "io":
                ops.append(["io", rng.randrange(0, 6), rng.random() < 0.3])
            elif kind == "unlink":
                ops.append(["unlink", rng.randrange(0, 6)])
            elif kind == "cb":
                ops.append(["cb", rng.randrange(0, 6)])
            elif kind == "purge":
                ops.append(["purge", rng.choice(g.keys + ["nokey"])])
            else:
                ops.append(["get", rng.choice(g.keys + ["nokey"]), g.tick(), []])
            continue
        if r < 0.30:
            s = g.size()
            ops.append(["add", k, s, g.tick()])
            if s <= 64:
                want_write[k] = s
                last_size[k] = s
            # an allocation may have triggered page-outs: guess some job ids
            for _ in range(rng.choice([0, 1, 1, 2])):
                jobs_io.append(njobs[0])
                njobs[0] += 1
        elif r < 0.42:
            if k in want_write and rng.random() < 0.9:
                ops.append(["write", k, payload(rng, want_write.pop(k))])
                if rng.random() < 0.7:
                    ops.append(["close", k, None])
            else:
                ops.append(["close", k, None])
        elif r < 0.62:
            cands = [next_rd[0]]
            if readers.get(k) and rng.random() < 0.15:
                cands = [rng.choice(readers[k])] * rng.choice([1, 2]) + cands
            if rng.random() < 0.02:
                cands = []
            next_rd[0] += 1
            ops.append(["get", k, g.tick(), cands])
            if cands:
                readers.setdefault(k, []).append(cands[-1])
            if rng.random() < 0.5:
                jobs_io.append(njobs[0])
                njobs[0] += 1
        elif r < 0.72:
            if readers.get(k):
                rd = rng.choice(readers[k])
                if rng.random() < 0.85:
                    readers[k].remove(rd)
                ops.append(["close", k, rd])
            else:
                ops.append(["rseg", k])
        elif r < 0.80:
            ops.append(["purge", k])
        elif r < 0.87:
            if jobs_io:
                j = jobs_io.pop(rng.randrange(len(jobs_io)) if rng.random() < 0.5 else 0)
                ops.append(["io", j, rng.random() < 0.08])
                jobs_ul.append(j)
            else:
                ops.append(["io", rng.randrange(0, max(1, njobs[0] + 1)), False])
        elif r < 0.94:
            if jobs_ul:
                j = jobs_ul.pop(rng.randrange(len(jobs_ul)) if rng.random() < 0.5 else 0)
                ops.append(["unlink", j])
                jobs_cb.append(j)
            else:
                ops.append(["unlink", rng.randrange(0, max(1, njobs[0] + 1))])
        else:
            if jobs_cb:
                j = jobs_cb.pop(rng.randrange(len(jobs_cb)) if rng.random() < 0.5 else 0)
                ops.append(["cb", j])
            else:
                ops.append(["cb", rng.randrange(0, max(1, njobs[0] + 1))])
    # drain: complete every job that may exist, then probe everything observable
    if rng.random() < 0.7:
        ops.append(["drain"])
    for k in g.keys:
        ops.append(["rseg", k])
        ops.append(["rfile", k])
        ops.append(["get", k, g.tick(), [next_rd[0]]])
        next_rd[0] += 1
    return g.cap, ops


def pressure_history(rng):
    """histories built to reach eviction: fill the store with closed datasets, read some, then over-allocate, complete jobs in
    a random order with requests in between, read back"""
    cap = rng.choice([4, 6, 8, 10, 12, 16])
    nk = rng.choice([2, 3, 4, 5])
    keys = [f"k{i}" for i in range(nk)]
    now = [rng.choice([1, 1000])]
    ops = []
    rd = [1]
    held = []

    def tick(big=False):
        now[0] += (STALE + rng.choice([1, 2, 5])) if big else rng.choice([1, 2, 3])
        return now[0]

    sizes = {}
    budget = cap
    for k in keys[:-1]:
        s = rng.randrange(1, max(2, min(budget, cap // 2 + 1) + 1))
        sizes[k] = s
        ops.append(["add", k, s, tick()])
        ops.append(["write", k, payload(rng, s)])
        if rng.random() < 0.9:
            ops.append(["close", k, None])
        budget = max(1, budget - s)
        for _ in range(rng.choice([0, 0, 1, 2])):
            ops.append(["get", k, tick(), [rd[0]]])
            if rng.random() < 0.7:
                ops.append(["close", k, rd[0]])
            else:
                held.append((k, rd[0]))
            rd[0] += 1
    if rng.random() < 0.3:
        tick(big=True)
    big = keys[-1]
    sizes[big] = rng.randrange(max(1, cap // 2), cap + 1)
    jobs_seen = 0
    pend_io, pend_ul, pend_cb = [], [], []
    for rnd in range(rng.choice([2, 3, 4, 6])):
        choice = rng.random()
        if choice < 0.5:
            ops.append(["add", big, sizes[big], tick()])
        else:
            k = rng.choice(keys)
            ops.append(["get", k, tick(), [rd[0]]])
            held.append((k, rd[0]))
            rd[0] += 1
        for _ in range(rng.choice([1, 2, 3])):
            pend_io.append(jobs_seen)
            jobs_seen += 1
        for _ in range(rng.choice([0, 1, 2, 3, 4])):
            c = rng.random()
            if c < 0.3 and pend_io:
                j = pend_io.pop(rng.randrange(len(pend_io)))
                ops.append(["io", j, rng.random() < 0.05])
                pend_ul.append(j)
            elif c < 0.5 and pend_ul:
                j = pend_ul.pop(rng.randrange(len(pend_ul)))
                ops.append(["unlink", j])
                pend_cb.append(j)
            elif c < 0.65 and pend_cb:
                ops.append(["cb", pend_cb.pop(rng.randrange(len(pend_cb)))])
            elif c < 0.75:
                ops.append(["purge", rng.choice(keys)])
            elif c < 0.85 and held:
                k, r = held.pop(rng.randrange(len(held)))
                ops.append(["close", k, r])
            elif c < 0.92:
                k = rng.choice(keys)
                ops.append(["add", k, sizes.get(k, 1), tick()])
                if rng.random() < 0.7:
                    ops.append(["write", k, payload(rng, sizes.get(k, 1))])
                    ops.append(["close", k, None])
            else:
                ops.append(["write", big, payload(rng, sizes[big])])
                ops.append(["close", big, None])
    ops.append(["drain"])
    for k in keys:
        ops.append(["get", k, tick(), [rd[0]]])
        rd[0] += 1
        ops.append(["rseg", k])
    ops.append(["drain"])
    for k in keys:
        ops.append(["get", k, tick(), [rd[0]]])
        rd[0] += 1
        ops.append(["rseg", k])
        ops.append(["rfile", k])
    return cap, ops


def midpurge_history(rng):
    """a purge (and sometimes a new allocation of the key) landing between the steps of a page-out job: fill the store with closed
    datasets, over-allocate, run the first half of the jobs, purge, run the unlinks and callbacks, then allocate again"""
    cap = rng.choice([4, 6, 8, 10, 12])
    nk = rng.choice([1, 2, 3])
    keys = [f"k{i}" for i in range(nk)]
    t = [rng.choice([1, 100])]

    def tick():
        t[0] += rng.choice([1, 2, 3])
        return t[0]
    ops, sizes = [], {}
    room = cap
    for k in keys:
        s = rng.randrange(1, max(2, room - (nk - len(sizes) - 1) + 1)) if room > 1 else 1
        s = max(1, min(s, room))
        sizes[k] = s
        room = max(1, room - s)
        ops += [["add", k, s, tick()], ["write", k, payload(rng, s)], ["close", k, None]]
        if rng.random() < 0.3:
            ops += [["get", k, tick(), [7]], ["close", k, 7]]
    big = rng.randrange(max(1, cap // 2), cap + 1)
    ops.append(["add", "new", big, tick()])
    njobs = nk   # at most one page-out per key
    order = list(range(njobs))
    rng.shuffle(order)
    stage1 = [j for j in order if rng.random() < 0.85]
    for j in stage1:
        ops.append(["io", j, False])
    for k in keys:
        if rng.random() < 0.6:
            ops.append(["purge", k])
            if rng.random() < 0.35:
                ops += [["add", k, sizes[k], tick()]] + ([["write", k, payload(rng, sizes[k])]] if rng.random() < 0.7 else [])
    for j in order:
        if j not in stage1 and rng.random() < 0.5:
            ops.append(["io", j, False])
        ops.append(["unlink", j])
        if rng.random() < 0.2:
            ops.append(["purge", rng.choice(keys)])
        ops.append(["cb", j])
    ops.append(["drain"])
    for _ in range(rng.choice([1, 2, 3])):
        ops.append(["add", rng.choice(["new", "n2", "n3"]), rng.randrange(max(1, cap // 2), cap + 1), tick()])
    ops.append(["drain"])
    ops.append(["add", "n4", cap, tick()])
    return cap, ops


def rewrite_history(rng):
    """one key written, sent to disk and back, purged, written again with other bytes (same or another size), sent to disk and
    back again -- by patient clients (macros), in a store that holds about one dataset at a time"""
    n = rng.choice([1, 2, 3, 4, 6])
    n2 = n if rng.random() < 0.6 else rng.choice([1, 2, 3, 5, 7])
    m = rng.choice([1, 2, 3, 4, 6])
    cap = max(n, n2, m) + rng.randrange(0, max(1, min(n, n2, m)))
    ops = [["alloc", "k1", payload(rng, n), 4, 0], ["alloc", "k2", payload(rng, m), 4, 0], ["read", "k1", 4, 0]]
    if rng.random() < 0.3:
        ops.append(["read", "k2", 4, 0])
        ops.append(["read", "k1", 4, 0])
    ops.append(["purge", "k1"])
    if rng.random() < 0.2:
        ops.append(["purge", "k2"])
    ops.append(["alloc", "k1", payload(rng, n2), 4, 0])
    for k in rng.choice([["k1", "k2", "k1"], ["k2", "k1"], ["k1", "k2", "k1", "k2", "k1"]]):
        ops.append(["read", k, 4, 0])
    ops += [["rfile", "k1"], ["rseg", "k1"]]
    return cap, ops


def with_config(rng, cap):
    """how the store comes to work with capacity `cap`: configured with it on a /dev/shm that offers plenty; configured with MORE than
    /dev/shm offers (a setting copied from a bigger node, /dev/shm partly filled by somebody else): trimmed; not configured at all:
    whatever /dev/shm offers; configured with what is available or a little less than it"""
    r = rng.random()
    if r < 0.5:
        return cap
    if r < 0.78:
        return [cap + rng.choice([1, 1, 2, cap, 4 * cap, 2 ** 30]), cap]
    if r < 0.9:
        return [rng.choice([None, None, 0]), cap]
    return [cap, rng.choice([cap, cap + 1, 2 * cap])]


def conc_history(rng):
    """what happens INSIDE the steps the other streams treat as atomic: the completion callbacks and the bodies of disk jobs run from
    yield point to yield point (log calls, lock acquisitions, segment and file operations), and between two such points the main thread
    serves requests (an allocation of exactly the free space, gets, retries, a purge) and other jobs of the same round take their steps:
    several page-outs of one lottery round completing together, several page-ins (gets of on-disk keys arriving back to back) reading
    their files at the same time.  Then everything is read back."""
    cap = rng.choice([6, 8, 10, 12, 16])
    nk = rng.choice([1, 2, 2, 3, 3, 4])
    keys = [f"k{i}" for i in range(nk)]
    mode = "lock" if rng.random() < 0.55 else "any"
    pf = rng.choice([0, 0, 0, 0.15, 0.4])
    t = [rng.choice([1, 1000])]
    lab = [0]

    def tick():
        t[0] += rng.choice([1, 2, 3])
        return t[0]

    def label():
        lab[0] += 1
        return lab[0]
    ops = []
    room = cap - rng.choice([0, 0, 1, 2, 3])        # some space stays free: there is something to grant while a completion is in flight
    left = room
    for n, k in enumerate(keys):
        s = max(1, min(left - (nk - n - 1), rng.randrange(1, max(2, room // nk + 2))))
        left -= s
        ops += [["add", k, s, tick()], ["write", k, payload(rng, s)], ["close", k, None]]
        for _ in range(rng.choice([0, 0, 1, 2])):
            r = label()
            ops += [["get", k, tick(), [r]], ["close", k, r]]
    big = rng.randrange(max(1, cap - room + 1), cap + 1) if rng.random() < 0.5 else cap

    def requests(n):
        out = []
        for _ in range(n):
            r = rng.random()
            if r < 0.4:
                out.append(["addfit", f"f{label()}"])
            elif r < 0.65:
                out.append(["peek", rng.choice(keys), label()])
            elif r < 0.85:
                out.append(["add", "big", big, None])
            elif r < 0.93:
                out.append(["purge", rng.choice(keys)])
            else:
                out.append(["add", f"g{label()}", rng.randrange(1, cap + 2), None])
        return out
    for _ in range(rng.choice([1, 1, 2])):
        ops.append(["add", "big", big, tick()])
        ops.append(["weave", rng.randrange(10 ** 6), mode, requests(rng.choice([0, 1, 1, 2, 3])), pf])
    ops.append(["drain"])
    ops.append(["alloc", "big", payload(rng, big), 3, 0])
    if rng.random() < 0.8:
        ops.append(["purge", "big"])
    # the consumers come back: gets of all keys back to back (on-disk keys: page-in jobs in flight together), their completions woven
    for _ in range(rng.choice([1, 1, 2])):
        for k in rng.sample(keys, len(keys)):
            ops.append(["peek", k, label()])
        ops.append(["weave", rng.randrange(10 ** 6), mode, requests(rng.choice([0, 0, 1, 2])), pf])
    ops.append(["drain"])
    for k in keys:
        ops.append(["read", k, 3, 0])
        ops.append(["rfile", k])
    return cap, ops
