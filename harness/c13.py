"""C13 -- fluent programs denote the arrays NumPy would compute, batched or not.

Streams of one run: the batching sweep, random programs (DAGs: earlier results are used again), malformed
programs, SESSIONS (what a script does: several calls of the same methods on the same actions, arguments
left to their defaults, ONE options dict / Payload / criteria dict kept in a variable and handed to several
calls; every result is checked, after the whole program was built), a small exhaustive scope of call PAIRS
(same method twice with two different values of one argument; one options object for two calls), and
programs of backend functions whose VALUES the Coq model computes itself (Fluent/ActionSem.v).
Internal arrays have 0-3 dimensions (square, non-square, size-1 axes); every axis-like argument (stack/flatten
axis, expand internal dimension, positions taken, node axis of expand/transform) runs over its whole valid
range from the front AND from the back, the internal dimension of xarray payloads also by name.
ELEMENT TYPES: the source arrays are not only float64.  Half of the programs / sessions, most of the batching sweep
and the stream semt declare an element type for their sources (bool, int8 ... uint64, float32, float64), a value regime
(small; near the end of the type's range, so that a sum or product of two elements leaves it; 10..40; signed) and a
memory layout (C, Fortran, strided view, read-only).  The NumPy reference then computes on the stacked array OF THAT
TYPE: integer and boolean results must be the same numbers exactly (a count is not a mask, a sum that NumPy accumulates
in int64 must not have wrapped at 127), floating-point results agree within the rounding of their precision, and the
element type of every cell must be NumPy's.  The graph interpreter also checks that no payload function writes into
one of its arguments (a node's value is shared by all its consumers).
Before each case the mutable default arguments of the modules under test are put back to their import-time
content, so that a stored case replays in a fresh process; state carried from call to call is looked for
inside a case.

Real code driven: earthkit.workflows.fluent (from_source, Action.map/reduce/sum/.../mean/std,
stack/concatenate/flatten, expand, select/iselect, broadcast, join, arithmetic, transform)
and the real backends (array-API path on numpy arrays, xarray path on DataArrays).

Property oracle (no Coq involved): every generated program is ALSO executed by an
independent NumPy reference on the stacked source arrays (shape = node shape + internal
shape).  The graph returned by Action.graph() is evaluated with a small reference
interpreter (payload = (func, args, kwargs); an arg that names an input is replaced by that
input's value) and at every coordinate of Action.nodes the value must equal the reference
value at the same coordinate labels; dimension names, order, coordinate values and scalar
coordinates must be the reference's.  Batch sizes 0..n+2 run through the same oracle, so
"batching never changes the values" is checked against the unbatched NumPy value.

Correspondence: the Gallina model (coq/theories/Fluent/Action.v) runs the same program
inside Coq; dims, coordinates, index flags, scalar coordinates and the EXACT expression tree
of every cell (function name, batchable flag, inputs in order, static arguments, kwargs)
are compared with the real Action.nodes; for programs that raise, the exception class.
In a session every result is compared (check_session).  For programs made of backend functions the
model also computes the VALUE of every cell (Fluent/ActionSem.v over Backends/Ops.v, exact integers) and
it is compared with what evaluating the real graph gave, or with the first cell that raises and its
exception class (check_values).  Stream semt does the same WITH element types (Fluent/ActionSemT.v over
Backends/Dtype.v: common type of the arguments, accumulator type of sum / prod, weak Python scalars, results stored
with wrap-around): element type, shape and exact value (floats as num/den) of every cell (check_values_t); where
the harness can vouch that nothing was rounded the model has to decide every cell."""
import functools
import hashlib
import json
import warnings

import numpy as np

from common import cN, cZ, cbool, clist, cnat, copt, coq_print, coq_results, cstr

TRUSTED = [
    "harness/c13.py: NumPy reference semantics of each fluent operation on stacked arrays (the property's right-hand side), the graph interpreter, Python object -> node-table numbering",
    "harness/c13.py: reset of the mutable default arguments of fluent/backends functions before each case (a case = a fresh process); flat row-major data -> nested arrays (Fluent/ActionSemCheck.v ti/unflat)",
    "floating point: values are integer-valued float64 arrays; mean/std/divide/pow compared with rtol 1e-9 / atol 1e-6 (rounding is outside the model)",
    "harness/c13.py: sources with a declared element type -- integer / boolean results compared exactly, floating-point results with rtol 1e-9 (float32: 1e-4) and an absolute tolerance of 1e-7 (float32: 2e-3) times the largest magnitude met on the way (cancellation in the batched std; a NaN from the root of a variance that rounding left below zero is accepted where the expected std is within that tolerance of 0, and nothing is derived from a batched std); element types compared by kind and size; programs NumPy itself refuses (boolean subtract / negative, a Python int outside an unsigned type) count as malformed; a join of results of different element types, a batched std whose sums of squares are not exact and a batched mean of 64-bit values near the end of the range are not generated (the rewrite through sums then measures floating-point cancellation / 64-bit wrap-around of np.sum itself)",
    "harness/c13.py: typed_values -> Coq (dtype, shape, num/den) literals; `exact` flag (every value met while evaluating the graph is an integer / boolean, or a floating-point array of integers below 2^22 / 2^50) under which the model may not stay silent",
]
ASSUMPTIONS = [
    "values (C13_take_value ... C13_expand_then_stack_values): the callables the fluent layer itself puts into nodes (take, stack, concat, sum/prod/min/max/mean, add/subtract/multiply/divide/pow, trivial) are interpreted by the exact tensor semantics of Backends/Tensor.v + Ops.v on numpy payloads; this interpretation is compared with the evaluation of the real graph on every run (stream sem: integer data, |v| < 2^52, exact) -- user callables, xarray payloads and non-integer results are compared with NumPy by the oracle only",
    "element types (C13_integer_sum_prod_obey_batch_law ... C13_pairwise_fold_is_not_the_reduction): NumPy's promotion, accumulator and result types are those of Backends/Dtype.v (C15's model, imported read-only; compared with NumPy by C15 and, through stream semt, here); integer results are stored with two's-complement wrap-around, floating-point results must be exact values of their type or the model is silent (Err rounding-outside-model); a Python int operand takes the array's type (int64 beside booleans), a Python float makes integers float64 (NumPy 2 / NEP 50); the batch law for integer sum / prod is proved pointwise for arrays of ONE element type d (elements of type d or acc_dtype d); mixed signed/unsigned 64-bit operands (NumPy answers float64) are outside it",
    "a call depends only on its instruction and operands (C13_call_ignores_other_results is a theorem of the functional model); that the implementation has no call-to-call state is what the session / pair streams test, it is not proved about Python",
    "Section hypothesis batch_law (ActionProofs): for a callable marked batchable, f applied to the per-batch results (singleton batches passed through, at least two batches) equals f applied to all arguments -- proved for the backends' marked functions by C15; instantiated here on a field for sum (Batch.sum_batch_law)",
    "mean/std over an abstract field with Leibniz equality (field_theory as hypothesis; for std additionally: every count n > 0 is non-zero in the field, sqrt uninterpreted, the array does not use the helper name **datatype**); arrays are treated pointwise; instantiated on Qc",
    "a node computes payload.func(*args, **kwargs) with input names replaced by the producers' values (C10 proves the lowering does that); expression trees ignore node names (C14)",
    "Action.a_reduce iterates the closed form batch_round; C13_batch_round_transcription_partial proves it equal, per round, to the statement-by-statement transcription batch_round_t (transform over _batch_transform) for indexed dimensions, distinct labels, distinctly named scalar coordinates and a fresh batch-dimension name; batch_round_t itself is compared with the real a.transform(_batch_transform, ...) on every run (op bround); label selection inside the closed form is positional under the NoDup check the model makes",
    "coordinate label of reduce(keep_dim=True) is opaque (CKept first last); the implementation currently renders it with the repr of 0-d DataArrays -- the operation documents no label",
    "dimension coordinates on reduced/batched dimensions are unique; binary arithmetic between two actions is generated for equal dimension names/sizes/order only; yields (generator payloads) are not generated",
]

HEADER = """From Coq Require Import List String Bool Arith NArith ZArith.
From EKW Require Import Fluent.XArr Fluent.Action Fluent.ActionCheck Fluent.ActionSem Fluent.ActionSemT Fluent.ActionSemCheck.
Import ListNotations.
Open Scope string_scope.
Open Scope list_scope.
"""

warnings.filterwarnings("ignore")


# ----------------------------------------------------------------------------- callables
def u_aff(x):
    return x * 2 + 1


def u_neg(x):
    return -x


def u_scale(x, k=1):
    return x * k


def t_scale(x, p):
    return x * p + 1


def r_wsum(*xs):  # order sensitive, not batchable
    return sum((i + 1) * x for i, x in enumerate(xs))


def r_ends(*xs):  # order sensitive
    return xs[0] * 3 - xs[-1]


def r_bsum(*xs):  # marked batchable and is: n-ary sum of its arguments
    out = xs[0]
    for x in xs[1:]:
        out = out + x
    return out


r_bsum.batchable = True


def r_bmax(*xs):
    out = xs[0]
    for x in xs[1:]:
        out = np.maximum(out, x)
    return out


r_bmax.batchable = True

MAPF = {"u_aff": u_aff, "u_neg": u_neg, "u_scale": u_scale}
REDF = {"r_wsum": r_wsum, "r_ends": r_ends, "r_bsum": r_bsum, "r_bmax": r_bmax}
TF = {"t_scale": t_scale}
USER = {**MAPF, **REDF, **TF}
NAMED = ["sum", "prod", "min", "max"]
def _pow(a, b):          # what a NumPy user writes for Action.power: a ** b (for a boolean array and the exponent 2 NOT np.power(a, 2))
    return a ** b


BINOPS = {"add": np.add, "subtract": np.subtract, "multiply": np.multiply, "divide": np.divide, "pow": _pow}


# Element types of the source arrays.  A case without "dt" is the first generation of this harness: float64
# arrays of small positive integers.  With "dt" the sources are arrays of that NumPy dtype; "vr" is the value
# regime: small (1..9; bool: a mask), edge (near the upper end of the dtype's range: the sum or product of two
# elements already leaves the range, so an operation that does not accumulate the way NumPy does wraps around),
# mid (10..40: fits every dtype, squares leave int8), signed (-9..9 without 0).  "lay" is how the array sits in
# memory: c (fresh C-ordered), f (Fortran order), view (a strided view into a larger buffer), ro (read-only).
DTYPES = ["bool", "int8", "uint8", "int16", "uint16", "int32", "uint32", "int64", "uint64", "float32", "float64"]
DT_WEIGHTED = ["bool"] * 3 + ["int8"] * 3 + ["uint8"] * 2 + ["int16", "uint16", "int32", "int32", "uint32", "int64", "uint64",
                                                         "float32", "float32", "float64"]
LAYOUTS = ["c", "c", "f", "view", "ro"]


def regimes_of(dt):
    if dt == "bool":
        return ["small"]
    if dt.startswith("float"):
        return ["small", "edge", "signed"]
    if dt.startswith("uint"):
        return ["small", "edge", "edge", "mid"]
    return ["small", "edge", "edge", "mid", "signed"]


def value_range(dt, vr):
    """inclusive bounds of the source values"""
    if dt == "bool":
        return 0, 1
    if vr == "mid":
        return 10, 40
    if vr == "signed":
        return -9, 9
    if vr == "edge":
        if dt.startswith("float"):
            return 100, 999
        hi = int(np.iinfo(dt).max)
        return hi // 3 + 1, hi
    return 1, 9


def src_value(k, ishape, seed, dt=None, vr=None, lay=None):
    rs = np.random.RandomState((seed * 7919 + k * 104729) % (2**31))
    if dt is None:
        return (rs.randint(0, 5, size=tuple(ishape)) + (k % 5) + 1).astype(np.float64)   # 1..9: divisors never 0
    lo, hi = value_range(dt, vr)
    if dt == "bool":
        v = rs.random_sample(size=tuple(ishape)) < 0.6
    else:
        u = rs.random_sample(size=tuple(ishape))
        # exact integer arithmetic: float64 has too few digits for the 64-bit ranges
        flat = [lo + int(x * (hi - lo + 1)) for x in np.asarray(u).reshape(-1).tolist()]
        flat = [min(max(x, lo), hi) for x in flat]
        if vr == "signed":
            flat = [x if x else (k % 9) + 1 for x in flat]          # divisors never 0
        v = np.array(flat, dtype=dt).reshape(tuple(ishape))
    return lay_out(v, lay)


def lay_out(v, lay):
    if lay == "f" and v.ndim >= 2:
        return np.asfortranarray(v)
    if lay == "view" and v.ndim >= 1:
        big = np.zeros(tuple(2 * n for n in v.shape), dtype=v.dtype)
        sl = tuple(slice(None, None, 2) for _ in v.shape)
        big[sl] = v
        return big[sl]
    if lay == "ro":
        v = v.copy()
        v.setflags(write=False)
    return v


def src_opts(ins):
    return ins.get("dt"), ins.get("vr"), ins.get("lay")


def make_src(k, ishape, seed, kind, dt=None, vr=None, lay=None):
    def f():
        v = src_value(k, ishape, seed, dt, vr, lay)
        if kind == "xarray":
            import xarray as xr
            return xr.DataArray(v, dims=[f"i{j}" for j in range(v.ndim)])
        return v
    f.__name__ = f"src{k}"
    f._src = k
    f._opts = (tuple(ishape), seed, dt, vr, lay)
    return f


# ----------------------------------------------------------------------------- reference (NumPy) semantics
class Ref:
    """dims: names; coords: name -> list of labels; scal: name -> label; data: node shape + internal shape"""

    def __init__(self, dims, coords, scal, data, indexed=None):
        self.dims, self.coords, self.scal, self.data = list(dims), dict(coords), dict(scal), data
        self.indexed = dict(indexed) if indexed is not None else {d: True for d in dims}
        self.inames = None        # names of the internal dimensions (xarray payloads); set by ref_step
        self.mixed = False        # cells of more than one element type (one round of batching with a batch of one)
        self.typed = False        # the sources declare an element type: dtype and values are compared dtype-aware
        self.scale = 0.0          # largest magnitude met on the way to this result (absolute tolerance of float results)

    @property
    def nn(self):
        return len(self.dims)

    def size(self, d):
        return self.data.shape[self.dims.index(d)]

    @property
    def ishape(self):
        return self.data.shape[self.nn:]


class Invalid(Exception):
    """the reference rejects the program (malformed on purpose); carries nothing the oracle uses"""


def kept(cs):
    return ("kept", cs[0], cs[-1])


def ref_reduce_core(r, fname, kw, k, call):
    n = r.data.shape[k]
    slices = [np.take(r.data, i, axis=k) for i in range(n)]
    rest = r.nn - 1
    if fname == "sum":
        out = np.sum(r.data, axis=k)
    elif fname == "prod":
        out = np.prod(r.data, axis=k)
    elif fname == "min":
        out = np.min(r.data, axis=k)
    elif fname == "max":
        out = np.max(r.data, axis=k)
    elif fname == "mean":
        out = np.mean(r.data, axis=k)
    elif fname == "std":
        out = np.std(r.data, axis=k)
    elif fname == "stack":
        ax = kw.get("axis", 0)
        ni = len(r.ishape)
        if ax < 0:
            ax += ni + 1
        if not (0 <= ax <= ni):
            raise Invalid()
        out = np.stack(slices, axis=rest + ax)
    elif fname == "concat":
        ni = len(r.ishape)
        if not ni:
            raise Invalid()
        if "dim" in kw:            # xarray payloads: the internal dimension by name
            if not r.inames or kw["dim"] not in r.inames:
                raise Invalid()
            ax = r.inames.index(kw["dim"])
        else:
            ax = kw.get("axis", 0)
            if not (-ni <= ax < ni):
                raise Invalid()
            ax %= ni
        out = np.concatenate(slices, axis=rest + ax)
    elif fname in BINOPS:
        if n != 2:
            raise Invalid()
        out = BINOPS[fname](slices[0], slices[1])
    else:
        out = USER[fname](*slices, **kw)
    return out


def ref_reduce(r, fname, kw, d, keep):
    if d == "":
        if not r.dims:
            raise Invalid()
        d = r.dims[0]
    if d not in r.dims:
        raise Invalid()
    k = r.dims.index(d)
    out = ref_reduce_core(r, fname, kw, k, None)
    dims = [x for x in r.dims if x != d]
    coords = {x: r.coords[x] for x in dims}
    res = Ref(dims, coords, r.scal, out)          # every remaining dimension gets an index
    if keep:
        res.dims.insert(k, d)
        res.coords[d] = [kept(r.coords[d])]
        res.indexed[d] = True
        res.data = np.expand_dims(out, k)
    return res


def ref_step(env, ins, seed, kind):
    """reference result of one instruction; also tracks the NAMES of the internal dimensions (the
    xarray payloads are addressed by name as well as by position)"""
    typed = ins.get("dt") is not None if ins["op"] == "source" else any(env[ins[x]].typed for x in ("a", "b") if x in ins)
    if typed:
        # arithmetic NumPy itself refuses for the element type (boolean subtract / negative, a Python integer that does
        # not fit the unsigned type) is no program of the fragment; the implementation refuses it when the graph runs
        try:
            with np.errstate(all="ignore"):
                r = ref_step0(env, ins, seed, kind)
        except (TypeError, OverflowError):
            raise Invalid()
    else:
        r = ref_step0(env, ins, seed, kind)
    r.typed = typed
    if typed:
        mags = np.abs(np.asarray(r.data, dtype=float))
        mags = mags[np.isfinite(mags)]
        r.scale = max([float(mags.max()) if mags.size else 0.0] + [env[ins[x]].scale for x in ("a", "b") if x in ins])
    if ins["op"] == "source":
        r.inames = [f"i{j}" for j in range(len(ins["ishape"]))]
    elif r.inames is None:
        r.inames = list(env[ins["a"]].inames)
        if ins["op"] in ("stack", "flatten") and kind == "xarray" and len(r.ishape) == len(r.inames) + 1:
            ax = ins.get("axis", 0)
            r.inames.insert(ax if ax >= 0 else ax + len(r.inames) + 1, ins.get("kw", {}).get("dim"))
    return r


def norm_internal(iax, inames, ni, kind):
    """position of the internal dimension an expand addresses: an int (negative = from the back, what
    np.take / list indexing accept) or, for xarray payloads, the dimension's name"""
    if isinstance(iax, str):
        if kind != "xarray" or iax not in inames:
            raise Invalid()
        return inames.index(iax)
    if not (-ni <= iax < ni):
        raise Invalid()
    return iax % ni


def ref_step0(env, ins, seed, kind):
    op = ins["op"]
    if op == "source":
        dims = [d for d, _ in ins["dims"]]
        shape = [len(c) for _, c in ins["dims"]]
        data = np.empty(tuple(shape) + tuple(ins["ishape"]), dtype=ins.get("dt") or "float64")
        for k, idx in enumerate(np.ndindex(*shape)):
            data[idx] = src_value(ins["base"] + k, ins["ishape"], seed, *src_opts(ins))
        return Ref(dims, {d: list(c) for d, c in ins["dims"]}, {}, data)
    a = env[ins["a"]]
    if op == "map":
        return Ref(a.dims, a.coords, a.scal, MAPF[ins["f"]](a.data, **ins.get("kw", {})), a.indexed)
    if op in ("reduce", "named", "mean", "std", "stack", "concat", "flatten"):
        d = ins["d"]
        dd = d if d else (a.dims[0] if a.dims else None)
        if dd is None or dd not in a.dims:
            raise Invalid()
        n = a.size(dd)
        bs = ins.get("bs", 0)
        fname = {"reduce": ins.get("f"), "named": ins.get("n"), "mean": "mean", "std": "std", "stack": "stack",
                 "concat": "concat", "flatten": "stack"}[op]
        kw = dict(ins.get("kw", {}))
        if op in ("stack", "flatten"):
            kw = {"axis": ins.get("axis", 0), **kw}
        if op != "flatten" and n == 1:
            raise Invalid()          # reduced dimensions of size 1 are outside the property (one argument = reduce INSIDE the array)
        if kind == "xarray" and op in ("stack", "flatten") and ("dim" not in kw or kw["dim"] in (a.inames or [])):
            raise Invalid()          # XArrayBackend.stack wants a name for the new internal dimension, and a NEW one
        batchable = fname in ("sum", "prod", "min", "max", "concat") or getattr(USER.get(fname), "batchable", False)
        if op not in ("mean", "std") and 1 < bs < n and not batchable:
            raise Invalid()
        if 1 < bs < n and (len(set(map(repr, a.coords[dd]))) != n or not all(a.indexed.values())):
            raise Invalid()
        if 1 < bs < n and any(str(x).startswith("batch.") for x in list(a.scal) + list(a.dims)):
            raise Invalid()          # left behind by ONE hand-made round (op bround): the loop's own names batch.<level>.<dim> would clash
        return ref_reduce(a, fname, kw if fname in USER or fname in ("stack", "concat") else {}, dd, ins.get("keep", False))
    if op == "expand":
        name, axis = ins["name"], ins["axis"]
        idxs = list(range(ins["size"])) if ins.get("idxs") is None else list(ins["idxs"])
        vals = ins.get("vals")
        if vals is not None and len(vals) != len(idxs):
            raise Invalid()
        if name in a.dims or name in a.scal or not idxs:
            raise Invalid()
        ni = len(a.ishape)
        if ni == 0:
            raise Invalid()
        iax = norm_internal(ins["internal"], a.inames, ni, kind)
        m = a.ishape[iax]

        def okidx(i):          # a position, from the front or from the back; or a non-empty list of positions
            if isinstance(i, list):
                return bool(i) and all(isinstance(j, int) and -m <= j < m for j in i)
            return isinstance(i, int) and -m <= i < m
        if not all(okidx(i) for i in idxs):
            raise Invalid()
        pos = axis if axis >= 0 else axis + a.nn + 1
        if not (0 <= pos <= a.nn):
            raise Invalid()
        keepi = any(isinstance(i, list) for i in idxs)
        if keepi and (not all(isinstance(i, list) for i in idxs) or len({len(i) for i in idxs}) != 1):
            raise Invalid()
        # a list of positions per node keeps the internal dimension (with the list's length), one position drops it
        outs = [np.take(a.data, i, axis=a.nn + iax) for i in idxs]
        labels = list(vals) if vals is not None else list(range(len(idxs)))
        inames = list(a.inames) if keepi else [x for j, x in enumerate(a.inames) if j != iax]
        if len(idxs) == 1:
            res = Ref(a.dims, a.coords, {**a.scal, name: labels[0]}, outs[0], a.indexed)
            res.inames = inames
            return res
        out = np.stack(outs, axis=pos)
        dims = list(a.dims)
        dims.insert(pos, name)
        res = Ref(dims, {**a.coords, name: labels}, a.scal, out, {**a.indexed, name: True})
        res.inames = inames
        return res
    if op in ("select", "iselect"):
        r = Ref(a.dims, a.coords, a.scal, a.data, a.indexed)
        for key, v in ins["crit"]:
            if key not in r.dims:
                if op == "select" and key in r.scal and not isinstance(v, list) and r.scal[key] == v and type(r.scal[key]) is type(v):
                    continue
                raise Invalid()
            k = r.dims.index(key)
            if op == "select":
                if not r.indexed[key]:
                    raise Invalid()
                labs = r.coords[key]
                uniq = len(set(map(repr, labs))) == len(labs)
                if isinstance(v, list) and not uniq:
                    raise Invalid()      # pandas: a list of labels needs a uniquely valued index
                def pos(x):
                    hits = [i for i, l in enumerate(labs) if l == x and type(l) is type(x)]
                    if len(hits) != 1:
                        raise Invalid()  # missing, or a repeated label (xarray then keeps the dimension: outside the generated fragment)
                    return hits[0]
                ps = [pos(x) for x in v] if isinstance(v, list) else pos(v)
            else:
                n = r.data.shape[k]
                def ip(i):
                    if not (-n <= i < n):
                        raise Invalid()
                    return i % n
                ps = [ip(i) for i in v] if isinstance(v, list) else ip(v)
            if isinstance(ps, list):
                data = np.take(r.data, ps, axis=k)
                coords = dict(r.coords)
                coords[key] = [r.coords[key][p] for p in ps] if r.indexed[key] else list(range(len(ps)))
                r = Ref(r.dims, coords, r.scal, data, r.indexed)
            else:
                data = np.take(r.data, ps, axis=k)
                scal = dict(r.scal)
                if not ins.get("drop", False) and r.indexed[key]:
                    scal[key] = r.coords[key][ps]
                dims = [x for x in r.dims if x != key]
                r = Ref(dims, {x: r.coords[x] for x in dims}, scal, data, {x: r.indexed[x] for x in dims})
        return r
    if op == "broadcast":
        b = env[ins["b"]]
        excl = ins.get("excl") or []
        for d in b.dims:
            if d in excl:
                continue
            if d in a.scal:
                raise Invalid()
            if d in a.dims and (a.indexed[d] != b.indexed[d] or a.coords[d] != b.coords[d]):
                raise Invalid()
        for s, v in b.scal.items():
            if s in excl:
                continue
            if s in a.dims or (s in a.scal and a.scal[s] != v):
                raise Invalid()
        dims = [d for d in b.dims if d not in excl] + [d for d in a.dims if d not in b.dims and d not in excl] + [d for d in excl if d in a.dims]
        coords = {d: (a.coords[d] if d in a.dims else b.coords[d]) for d in dims}
        indexed = {d: (a.indexed[d] if d in a.dims else b.indexed[d]) for d in dims}
        # move a's axes into the order they have in dims, then insert the new ones
        order = [d for d in dims if d in a.dims]
        data = np.transpose(a.data, [a.dims.index(d) for d in order] + list(range(a.nn, a.data.ndim)))
        for i, d in enumerate(dims):
            if d not in a.dims:
                data = np.expand_dims(data, i)
                data = np.repeat(data, len(coords[d]), axis=i)
        return Ref(dims, coords, a.scal, data, indexed)
    if op in ("join", "binA"):
        b = env[ins["b"]]
        if op == "binA":
            if a.dims != b.dims or a.data.shape != b.data.shape or a.indexed != b.indexed:
                raise Invalid()
            if any((s in b.dims) for s in a.scal) or any((s in a.dims) for s in b.scal):
                raise Invalid()
            scal = {**b.scal, **a.scal}
            return Ref(a.dims, a.coords, scal, BINOPS[ins["f"]](a.data, b.data), a.indexed)
        name, given, matchc = ins["name"], ins.get("given"), ins.get("matchc", False)
        if a.ishape != b.ishape:
            raise Invalid()
        bc, bscal = dict(b.coords), dict(b.scal)
        if matchc:
            for d in b.dims:
                if d in a.dims:
                    if a.indexed[d] != b.indexed[d] or a.size(d) != b.size(d):
                        raise Invalid()
                    bc[d] = a.coords[d]
                elif d in a.scal:
                    raise Invalid()
            for s in b.scal:
                if s in a.scal:
                    bscal[s] = a.scal[s]
                elif s in a.dims:
                    raise Invalid()
        for s in bscal:
            if s in a.scal and a.scal[s] != bscal[s] and s != name:
                raise Invalid()

        def promoted(r, coords, scal):
            if name in r.dims:
                return list(r.dims), coords, scal, r.data, dict(r.indexed)
            if name in scal:
                sc = {k: v for k, v in scal.items() if k != name}
                return [name] + r.dims, {**coords, name: [scal[name]]}, sc, r.data[None], {**r.indexed, name: True}
            return [name] + r.dims, {**coords, name: [0]}, scal, r.data[None], {**r.indexed, name: False}
        ad, ac, asc, adata, aix = promoted(a, dict(a.coords), dict(a.scal))
        bd, bcc, bsc, bdata, bix = promoted(b, bc, bscal)
        if ad != bd or aix != bix:
            raise Invalid()
        for s in bsc:
            if s in asc and asc[s] != bsc[s]:
                raise Invalid()
        k = ad.index(name)
        for d in ad:
            if d != name and (ac[d] != bcc[d] if aix[d] else len(ac[d]) != len(bcc[d])):
                raise Invalid()
        lab = ac[name] + bcc[name]
        ix = dict(aix)
        if given is not None:
            if len(given) != len(lab) or name in a.dims or name in b.dims:
                raise Invalid()
            lab, ix[name] = list(given), True
        elif not aix[name]:
            lab = list(range(len(lab)))
        return Ref(ad, {**ac, name: lab}, {**bsc, **asc}, np.concatenate([adata, bdata], axis=k), ix)
    if op == "binC":
        return Ref(a.dims, a.coords, a.scal, BINOPS[ins["f"]](a.data, ins["c"]), a.indexed)
    if op == "bround":
        d, bs, name = ins["d"], ins["bs"], ins["name"]
        fname = ins.get("n") or ins["f"]
        if d not in a.dims or bs < 1 or name in a.dims or name in a.scal or not all(a.indexed.values()):
            raise Invalid()
        k = a.dims.index(d)
        n = a.size(d)
        if len(set(map(repr, a.coords[d]))) != n or len(set(a.scal)) != len(a.scal):
            raise Invalid()
        rest = [x for x in a.dims if x != d]
        outs = []
        for lo in range(0, n, bs):
            hi = min(n, lo + bs)
            if hi - lo == 1:
                outs.append(np.take(a.data, lo, axis=k))
            else:
                sub = Ref(a.dims, a.coords, a.scal, np.take(a.data, list(range(lo, hi)), axis=k))
                outs.append(ref_reduce_core(sub, fname, {}, k, None))
        coords = {x: a.coords[x] for x in rest}
        if len(outs) == 1:
            return Ref(rest, coords, {**a.scal, name: 0}, outs[0])
        res = Ref([name] + rest, {**coords, name: list(range(len(outs)))}, a.scal, np.stack(outs, axis=0))
        # one round of batching passes a batch of ONE through as it is: beside accumulated results it keeps its element type
        res.mixed = len({np.asarray(o).dtype for o in outs}) > 1
        return res
    if op == "transform":
        params, name, vals, axis = ins["params"], ins["name"], ins.get("vals"), ins["axis"]
        if not params or (vals is not None and len(vals) < len(params)):
            raise Invalid()
        labels = list(vals)[:len(params)] if vals is not None else list(range(len(params)))
        if ins["body"] == "map":
            if name in a.dims or name in a.scal:
                raise Invalid()
            pos = axis if axis >= 0 else axis + a.nn + 1
            if not (0 <= pos <= a.nn):
                raise Invalid()
            outs = [TF[ins["f"]](a.data, p) for p in params]
            if len(params) == 1:
                return Ref(a.dims, a.coords, {**a.scal, name: labels[0]}, outs[0], a.indexed)
            dims = list(a.dims)
            dims.insert(pos, name)
            return Ref(dims, {**a.coords, name: labels}, a.scal, np.stack(outs, axis=pos), {**a.indexed, name: True})
        # body == "sel": select {d: p} with drop=True, joined along a new dimension
        d = ins["d"]
        if d not in a.dims or not a.indexed[d] or name in a.dims or name in a.scal or len(params) < 2:
            raise Invalid()
        k = a.dims.index(d)
        ps = []
        for p in params:
            m = [i for i, l in enumerate(a.coords[d]) if l == p and type(l) is type(p)]
            if len(m) != 1:
                raise Invalid()
            ps.append(m[0])
        dims0 = [x for x in a.dims if x != d]
        pos = axis if axis >= 0 else axis + len(dims0) + 1
        if not (0 <= pos <= len(dims0)):
            raise Invalid()
        outs = [np.take(a.data, p, axis=k) for p in ps]
        dims = list(dims0)
        dims.insert(pos, name)
        return Ref(dims, {**{x: a.coords[x] for x in dims0}, name: labels}, a.scal, np.stack(outs, axis=pos),
                   {**{x: a.indexed[x] for x in dims0}, name: True})
    raise ValueError(op)


# ----------------------------------------------------------------------------- real implementation
# How the caller hands over keyword-argument dictionaries / payload objects (ins["kwm"]):
#   "fresh"   a new dict for this call (the only mode the first version of this harness had)
#   "default" the argument is left out: the method's own default is used (only when nothing is to be passed)
#   "shared"  ONE caller-owned object, created once per case from the declared content, handed to every call of
#             the case that declares the same content (what a script does that keeps its options in a variable)
# ins["omit"]: every argument that has its documented default value is left out of the call.
# The reference and the Coq model always see the DECLARED content: a call must behave as documented whatever was
# called before it in the same process and whoever else holds the same options object.
DEFAULTS = {"dim": "", "batch_size": 0, "keep_dim": False, "axis": 0, "drop": False, "match_coord_values": False,
            "exclude": None}


def shared_obj(shared, tag, content, make):
    key = tag + ":" + json.dumps(content, sort_keys=True, default=str)
    if key not in shared:
        shared[key] = make()
    return shared[key]


def call_args(ins, shared, **given):
    """keyword arguments of the real call: documented defaults dropped under ins['omit'], backend_kwargs per ins['kwm']"""
    out = {}
    for k, v in given.items():
        if ins.get("omit") and k in DEFAULTS and v == DEFAULTS[k] and type(v) is type(DEFAULTS[k]):
            continue
        out[k] = v
    return out


def with_bkw(args, ins, shared):
    kw = dict(ins.get("kw", {}))
    mode = ins.get("kwm", "fresh")
    if mode == "default" and not kw:
        return args
    if mode == "shared":
        args["backend_kwargs"] = shared_obj(shared, "kw", kw, lambda: dict(kw))
    else:
        args["backend_kwargs"] = kw
    return args


def payload_of(ins, shared, table):
    from earthkit.workflows.fluent import Payload
    kw = dict(ins.get("kw", {}))
    f = table[ins["f"]]
    if ins.get("kwm") == "shared":
        # the same Payload OBJECT for every map/reduce of the case with this function and these kwargs
        return shared_obj(shared, "payload:" + ins["f"], kw, lambda: Payload(f, kwargs=dict(kw)) if kw else Payload(f))
    return Payload(f, kwargs=kw) if kw else f


def criteria_of(ins, shared):
    crit = {k: v for k, v in ins["crit"]}
    if ins.get("kwm") == "shared":
        return shared_obj(shared, "crit", ins["crit"], lambda: crit)
    return crit


def impl_step(env, ins, seed, kind, reg, shared=None):
    from earthkit.workflows import backends, fluent
    from earthkit.workflows.fluent import Payload
    shared = {} if shared is None else shared
    op = ins["op"]
    if op == "source":
        shape = [len(c) for _, c in ins["dims"]]
        arr = np.empty(tuple(shape), dtype=object)
        for k, idx in enumerate(np.ndindex(*shape)):
            arr[idx] = make_src(ins["base"] + k, ins["ishape"], seed, kind, *src_opts(ins))
        return fluent.from_source(arr, dims=[d for d, _ in ins["dims"]], coords={d: list(c) for d, c in ins["dims"]})
    a = env[ins["a"]]
    red = dict(dim=ins.get("d", ""), batch_size=ins.get("bs", 0), keep_dim=ins.get("keep", False))
    if ins.get("keep") and op in ("reduce", "named", "mean", "std", "stack", "concat"):
        d = ins.get("d") or (str(a.nodes.dims[0]) if a.nodes.dims else "")
        if d in a.nodes.dims and a.nodes.sizes[d] > 0:
            c = a.nodes.coords[d]
            first, last = canon(c.values[0], reg), canon(c.values[-1], reg)
            reg[f"{c[0]}-{c[-1]}"] = ("kept", first, last)
            reg[f"{c.values[0]}-{c.values[-1]}"] = ("kept", first, last)
    if op == "map":
        return a.map(payload_of(ins, shared, MAPF))
    if op == "reduce":
        return a.reduce(payload_of(ins, shared, REDF), **call_args(ins, shared, **red))
    if op == "named":
        return getattr(a, ins["n"])(**with_bkw(call_args(ins, shared, **red), ins, shared))
    if op in ("mean", "std"):
        return getattr(a, op)(**with_bkw(call_args(ins, shared, **red), ins, shared))
    if op == "stack":
        args = call_args(ins, shared, batch_size=red["batch_size"], keep_dim=red["keep_dim"], axis=ins.get("axis", 0))
        return a.stack(ins["d"], **with_bkw(args, ins, shared))
    if op == "concat":
        args = call_args(ins, shared, batch_size=red["batch_size"], keep_dim=red["keep_dim"])
        return a.concatenate(ins["d"], **with_bkw(args, ins, shared))
    if op == "flatten":
        args = call_args(ins, shared, dim=ins["d"], axis=ins.get("axis", 0))
        return a.flatten(**with_bkw(args, ins, shared))
    if op == "expand":
        dim = ins["name"] if ins.get("vals") is None else (ins["name"], list(ins["vals"]))
        args = with_bkw(call_args(ins, shared, axis=ins["axis"]), ins, shared)
        if ins.get("idxs") is None:
            return a.expand(dim, ins["internal"], ins["size"], **args)
        return a.expand(dim, (ins["internal"], [list(i) if isinstance(i, list) else i for i in ins["idxs"]]), **args)
    if op == "select":
        return a.select(criteria_of(ins, shared), **call_args(ins, shared, drop=ins.get("drop", False)))
    if op == "iselect":
        return a.iselect(criteria_of(ins, shared), **call_args(ins, shared, drop=ins.get("drop", False)))
    if op == "broadcast":
        return a.broadcast(env[ins["b"]], **call_args(ins, shared, exclude=ins.get("excl")))
    if op == "join":
        dim = ins["name"] if ins.get("given") is None else (ins["name"], list(ins["given"]))
        return a.join(copy_action(env[ins["b"]]), dim, **call_args(ins, shared, match_coord_values=ins.get("matchc", False)))
    if op == "binA":
        return getattr(a, {"pow": "power"}.get(ins["f"], ins["f"]))(copy_action(env[ins["b"]]), **with_bkw({}, ins, shared))
    if op == "binC":
        return getattr(a, {"pow": "power"}.get(ins["f"], ins["f"]))(ins["c"], **with_bkw({}, ins, shared))
    if op == "bround":
        d, bs = ins["d"], ins["bs"]
        lst = a.nodes.coords[d].data
        pay = Payload(getattr(backends, ins["n"])) if "n" in ins else Payload(REDF[ins["f"]])
        return a.transform(fluent._batch_transform, [({d: lst[i:i + bs]}, pay) for i in range(0, len(lst), bs)], ins["name"])
    if op == "transform":
        dim = ins["name"] if ins.get("vals") is None else (ins["name"], list(ins["vals"]))
        targs = call_args(ins, shared, axis=ins["axis"])
        if ins["body"] == "map":
            f = TF[ins["f"]]
            return a.transform(lambda act, p: act.map(Payload(f, ("input0", p))), [(p,) for p in ins["params"]], dim, **targs)
        d = ins["d"]
        return a.transform(lambda act, p: act.select({d: p}, drop=True), [(p,) for p in ins["params"]], dim, **targs)
    raise ValueError(op)


# ----------------------------------------------------------------------------- one case = one fresh process
# A case must mean the same whatever ran before it in this process (otherwise its replay file would not reproduce it).
# The state a Python library can silently carry from call to call without any global statement is the MUTABLE DEFAULT
# ARGUMENT: every dict/list/set default of the functions and methods of the modules under test is snapshotted at first
# use and put back (in place) before each case.  State leaking from call to call is then looked for where it can be
# replayed: INSIDE a case (several calls of the same methods in one program, see gen_session).
_PRISTINE = None
LEAKS = {}


def _default_objects():
    import importlib
    import types
    out, seen = [], set()

    def visit(fn, where):
        objs = list(fn.__defaults__ or ()) + list((fn.__kwdefaults__ or {}).values())
        for o in objs:
            if isinstance(o, (dict, list, set)) and id(o) not in seen:
                seen.add(id(o))
                out.append((where, o))
    for mname in ("earthkit.workflows.fluent", "earthkit.workflows.backends", "earthkit.workflows.backends.arrayapi",
                  "earthkit.workflows.backends.xarray"):
        try:
            mod = importlib.import_module(mname)
        except Exception:
            continue
        for name, obj in list(vars(mod).items()):
            if isinstance(obj, types.FunctionType):
                visit(obj, f"{mname}.{name}")
            elif isinstance(obj, type) and str(getattr(obj, "__module__", "")).startswith("earthkit.workflows"):
                for n2, o2 in list(vars(obj).items()):
                    f = o2.__func__ if isinstance(o2, (staticmethod, classmethod)) else o2
                    if isinstance(f, types.FunctionType):
                        visit(f, f"{mname}.{name}.{n2}")
    return out


def reset_process_state():
    """put every mutable default argument back to its import-time content; -> names of the functions whose default had changed"""
    global _PRISTINE
    import copy
    if _PRISTINE is None:
        _PRISTINE = [(w, o, copy.deepcopy(o)) for w, o in _default_objects()]
        return []
    leaked = []
    for w, o, p in _PRISTINE:
        if o != p:
            leaked.append(w)
            if isinstance(o, list):
                o[:] = copy.deepcopy(p)
            else:
                o.clear()
                o.update(copy.deepcopy(p))
    for w in leaked:
        LEAKS[w] = LEAKS.get(w, 0) + 1
    return leaked


def copy_action(act):
    """join(match_coord_values=True) assigns to its operand (C14's subject): hand it a shallow copy
    so that later uses of the same environment entry see the original"""
    return type(act)(act.nodes.copy(deep=False))


def canon(v, reg):
    if isinstance(v, (bool, np.bool_)):
        return int(v)
    if isinstance(v, (int, np.integer)):
        return int(v)
    if isinstance(v, (float, np.floating)):
        if float(v) == 0.5:
            return ("half",)
        if float(v).is_integer():
            return int(v)
        raise ValueError(f"float outside the modelled domain: {v!r}")
    if isinstance(v, (str, np.str_)):
        s = str(v)
        return reg.get(s, s)
    if isinstance(v, tuple) and v and v[0] in ("kept", "half"):
        return v
    raise ValueError(f"value outside the modelled domain: {v!r}")


def canon_static(v, reg):
    """a static operand of a payload: a Python float stays a float (x ** 2.0 is computed in floating point, x ** 2 in
    the element type of x), everything else as canon"""
    if isinstance(v, (float, np.floating)) and float(v).is_integer() and not isinstance(v, bool):
        return ("float", int(v))
    return canon(v, reg)


def evaluate(node, memo):
    """reference interpreter for one node of Action.graph()"""
    key = id(node)
    if key in memo:
        return memo[key]
    func, args, kwargs = node.payload
    vals = []
    for x in args:
        if isinstance(x, str) and x in node.inputs:
            src = node.inputs[x]
            vals.append(evaluate(src.parent, memo))
        else:
            vals.append(x)
    # a node's value is kept by the executor and handed to every consumer: a payload function must not write into it
    snap = [(i, np.array(getattr(v, "values", v), copy=True)) for i, v in enumerate(vals) if hasattr(v, "shape") and hasattr(v, "dtype")]
    out = func(*vals, **kwargs)
    for i, before in snap:
        now = np.asarray(getattr(vals[i], "values", vals[i]))
        if now.shape != before.shape or now.dtype != before.dtype or not np.array_equal(now, before, equal_nan=now.dtype.kind in "fc"):
            memo.setdefault("__mutated__", []).append(f"{getattr(func, '__name__', func)!s} changed its argument {i} in place "
                                                      f"({before.reshape(-1)[:6].tolist()} -> {now.reshape(-1)[:6].tolist()})")
    memo[key] = out
    return out


def observe(act, reg, table=True):
    """dims, scalar coords, cell ids, node table of the real Action.nodes (table=False: dims and coordinates only)"""
    nodes = act.nodes
    dims = []
    for d in nodes.dims:
        ix = d in nodes.coords
        cs = [canon(x, reg) for x in nodes.coords[d].values.tolist()] if ix else list(range(nodes.sizes[d]))
        dims.append((str(d), cs, ix))
    scal = sorted((str(k), canon(v.values.tolist(), reg)) for k, v in nodes.coords.items() if k not in nodes.dims)
    if not table:
        return {"dims": dims, "scal": scal, "cells": None, "table": None, "graph_missing": []}
    table, ids = [], {}

    def visit(n):
        if id(n) in ids:
            return ids[id(n)]
        func, args, kwargs = n.payload
        if hasattr(func, "_src"):
            ent = ("src", func._src)
        else:
            nin = len(n.inputs)
            names = [f"input{i}" for i in range(nin)]
            if list(args[:nin]) != names or any(isinstance(x, str) and x in n.inputs for x in args[nin:]):
                raise ValueError(f"payload args are not inputs-then-statics: {args!r}")
            ins = [visit(n.inputs[nm].parent) for nm in names]
            ent = ("node", getattr(func, "__name__", ""), bool(getattr(func, "batchable", False)), ins,
                   [canon_static(x, reg) for x in args[nin:]], [(str(k), canon(v, reg)) for k, v in kwargs.items()])
        table.append(ent)
        ids[id(n)] = len(table) - 1
        return ids[id(n)]
    cells = [visit(n) for n in nodes.data.flatten()]
    # the graph handed to the executor must contain every cell's node
    g = act.graph()
    gnodes = {id(n) for n in g.nodes()}
    missing = [i for i, n in enumerate(nodes.data.flatten()) if id(n) not in gnodes]
    return {"dims": dims, "scal": scal, "cells": cells, "table": table, "graph_missing": missing}


def tree_size(table, cells):
    memo = {}

    def sz(i):
        if i not in memo:
            e = table[i]
            memo[i] = 1 if e[0] == "src" else 1 + sum(sz(j) for j in e[3])
        return memo[i]
    return sum(sz(c) for c in cells)


def close(got, exp):
    got = np.asarray(getattr(got, "values", got), dtype=float)
    exp = np.asarray(exp, dtype=float)
    if got.shape != exp.shape:
        return False
    ok = np.isclose(got, exp, rtol=1e-9, atol=1e-6)
    # sqrt(E[x^2] - E[x]^2) of a constant column: rounding may leave -1e-16 under the root
    ok |= (np.abs(exp) < 1e-12) & (np.isnan(got) | (np.abs(got) < 1e-6))
    return bool(np.all(ok))


def same_dtype(a, b):
    a, b = np.dtype(a), np.dtype(b)
    return a.kind == b.kind and a.itemsize == b.itemsize


def close_typed(got, exp, scale):
    """sources with a declared element type: integers and booleans must be the SAME numbers (no tolerance: a sum that
    wrapped around, a count that collapsed to a mask); floating-point results within the rounding of their own precision,
    relative to the result and to the largest magnitude met on the way (cancellation in E[x^2] - E[x]^2)"""
    got = np.asarray(getattr(got, "values", got))
    exp = np.asarray(exp)
    if got.shape != exp.shape:
        return False
    if got.dtype.kind in "biu" and exp.dtype.kind in "biu":
        return bool(np.array_equal(got, exp))
    single = any(np.dtype(d).kind == "f" and np.dtype(d).itemsize <= 4 for d in (got.dtype, exp.dtype))
    rtol, arel = (1e-4, 2e-3) if single else (1e-9, 1e-7)
    atol = arel * max(scale, 10.0)
    with np.errstate(all="ignore"):
        g = got.astype(float)
        e = exp.astype(float)
        ok = np.isclose(g, e, rtol=rtol, atol=atol, equal_nan=True)
        # the root of a variance that rounding left just below zero
        ok |= (np.abs(e) <= atol) & np.isnan(g)
    return bool(np.all(ok))


def check_entry(act, r, obs, reg, memo, values=True):
    """the property read directly on ONE result: dimensions, coordinates, scalar coordinates, value at every coordinate"""
    if [d[0] for d in obs["dims"]] != r.dims:
        return ("dims", f"dimensions {[d[0] for d in obs['dims']]} != documented {r.dims}")
    for name, cs, ix in obs["dims"]:
        want = [canon(x, reg) for x in r.coords[name]]
        if cs != want:
            return ("coords", f"coordinates of {name}: {cs} != {want}")
    if dict(obs["scal"]) != {k: canon(v, reg) for k, v in r.scal.items()}:
        return ("scalar-coords", f"scalar coordinates {obs['scal']} != {sorted(r.scal.items())}")
    if obs["graph_missing"]:
        return ("graph", f"Action.graph() lacks the nodes of cells {obs['graph_missing'][:5]}")
    flat = act.nodes.data.flatten()
    shape = act.nodes.shape
    if not values:
        return None
    for pos, idx in enumerate(np.ndindex(*shape)):
        try:
            got = evaluate(flat[pos], memo)
        except Exception as e:
            return ("eval-raises", f"evaluating the node at {idx} raised {e!r}"[:300])
        exp = r.data[idx]
        if not (close_typed(got, exp, r.scale) if r.typed else close(got, exp)):
            labels = {d: r.coords[d][i] for d, i in zip(r.dims, idx)}
            gv = np.asarray(getattr(got, 'values', got))
            what = f"value at {labels} is {gv.tolist()!r}, NumPy gives {exp.tolist()!r}"[:400]
            if r.typed:
                what += f" (element type {gv.dtype}, NumPy's {np.asarray(exp).dtype})"
            return ("value", what)
        if r.typed and not r.mixed:
            gd = np.asarray(getattr(got, 'values', got)).dtype
            if not same_dtype(gd, r.data.dtype):
                labels = {d: r.coords[d][i] for d, i in zip(r.dims, idx)}
                return ("dtype", f"element type of the value at {labels} is {gd}, NumPy's result has {r.data.dtype} (equal numbers so far: the next "
                                 f"operation computes in the wrong type)")
    return None


def run_case(case):
    """-> dict(ref_ok, err, obs (of the last result), all_obs (sessions: of every result), fail)

    EVERY result of the program (not only the last) is held against the reference, and only after the whole program
    has been built: an operation that spoils an earlier result, its operand or an options object is seen as well."""
    seed, kind = case["seed"], case.get("kind", "numpy")
    prog = case["prog"]
    leaked = reset_process_state()
    refs, ref_ok = [], True
    try:
        for ins in prog:
            refs.append(ref_step(refs, ins, seed, kind))
    except Invalid:
        ref_ok = False
    reg, shared = {}, {}
    env, err = [], None
    try:
        for ins in prog:
            env.append(impl_step(env, ins, seed, kind, reg, shared))
    except Exception as e:
        err = type(e).__name__
        errmsg = repr(e)[:300]
    out = {"ref_ok": ref_ok, "err": err, "obs": None, "all_obs": None, "fail": None, "leaked": leaked}
    if err is not None and (ref_ok or len(env) < len(refs)):
        out["fail"] = ("raises", f"valid program raised {errmsg} at instruction {len(env)} ({prog[len(env)]['op']})", len(env))
        return out
    want_table = not case.get("nocoq")
    every = bool(case.get("session")) and want_table
    memo, all_obs = {}, []
    n = min(len(refs), len(env))
    for j in range(len(env)):
        last = j == len(env) - 1
        if prog[j]["op"] == "source" and not last:
            obs = observe(env[j], reg, table=False)
        else:
            obs = observe(env[j], reg, table=want_table and ((last and err is None) or every))
        if last and err is None:
            out["obs"] = obs
        if every and prog[j]["op"] != "source":
            all_obs.append((j, obs))
        if j < n and out["fail"] is None:
            f = check_entry(env[j], refs[j], obs, reg, memo, values=not case.get("coqonly"))
            if f is not None:
                out["fail"] = (f[0], f[1] + (f" [result {j} of {len(prog)}: {prog[j]['op']}]" if not last else ""), j)
    if out["fail"] is None and memo.get("__mutated__"):
        out["fail"] = ("mutates-input", "evaluating the graph overwrote a value another node (or the caller) still holds: " + memo["__mutated__"][0], len(env) - 1)
    if every and err is None:
        out["all_obs"] = all_obs
    if case.get("sem") and err is None:
        out["values"] = typed_values(env[-1], memo) if case.get("semt") else exact_values(env[-1], memo)
    return out


def exact_values(act, memo):
    """("ok", [(shape, flat ints)] per cell, row-major) | ("raises", cell number, exception class) | ("inexact",)"""
    vals = []
    for pos, node in enumerate(act.nodes.data.flatten()):
        try:
            v = np.asarray(evaluate(node, memo), dtype=float)
        except Exception as e:
            return ("raises", pos, type(e).__name__)
        if not np.all(np.isfinite(v)) or np.any(v != np.round(v)) or np.any(np.abs(v) >= 2.0 ** 52):
            return ("inexact",)
        vals.append((list(v.shape), [int(x) for x in v.reshape(-1).tolist()]))
    return ("ok", vals)


COQ_DT = {"bool": "BD.DBool", "int8": "BD.DI8", "int16": "BD.DI16", "int32": "BD.DI32", "int64": "BD.DI64", "uint8": "BD.DU8",
          "uint16": "BD.DU16", "uint32": "BD.DU32", "uint64": "BD.DU64", "float32": "BD.DF32", "float64": "BD.DF64"}


def typed_values(act, memo):
    """("ok", [(dtype name, shape, [(num, den)])] per cell, exact) | ("raises", cell number, exception class) | ("inexact",)
    exact: no value met while evaluating the graph can have been rounded (integers / booleans, or floating-point
    arrays of small integers): the model then has to decide every cell"""
    vals = []
    for pos, node in enumerate(act.nodes.data.flatten()):
        try:
            v = np.asarray(evaluate(node, memo))
        except Exception as e:
            return ("raises", pos, type(e).__name__)
        if v.dtype.name not in COQ_DT:
            return ("inexact",)
        if v.dtype.kind == "f":
            if not np.all(np.isfinite(v)):
                return ("inexact",)
            flat = [float(x).as_integer_ratio() for x in v.astype(np.float64).reshape(-1).tolist()]
        else:
            flat = [(int(x), 1) for x in v.reshape(-1).tolist()]
        vals.append((v.dtype.name, list(v.shape), flat))
    exact = True
    for key, v in memo.items():
        if key == "__mutated__":
            continue
        v = np.asarray(getattr(v, "values", v))
        if v.dtype.kind == "f":
            lim = 2.0 ** (22 if v.dtype.itemsize <= 4 else 50)
            if not (np.all(np.isfinite(v)) and np.all(v == np.round(v)) and np.all(np.abs(v) < lim)):
                exact = False
        elif v.dtype.kind not in "biu":
            exact = False
    return ("ok", vals, exact)


# ----------------------------------------------------------------------------- Coq terms
def ccv(v):
    if isinstance(v, tuple):
        if v[0] == "kept":
            return f"(CKept {ccv(v[1])} {ccv(v[2])})"
        if v[0] == "half":
            return "CHalf"
        if v[0] == "float":
            return f"(CF {cZ(v[1])})"
    if isinstance(v, bool):
        return f"(CZ {cZ(int(v))})"
    if isinstance(v, int):
        return f"(CZ {cZ(v)})"
    if isinstance(v, float):
        if v == 0.5:
            return "CHalf"
        if v.is_integer():
            return f"(CZ {cZ(int(v))})"
    if isinstance(v, str):
        return f"(CS {cstr(v)})"
    raise ValueError(f"no Coq literal for {v!r}")


def ckw(kw):
    items = kw.items() if isinstance(kw, dict) else kw
    return clist([f"({cstr(k)}, {ccv(v)})" for k, v in items])


def cfn(name, batch):
    return f"(F {cstr(name)} {cbool(batch)})"


def cuser(name):
    return cfn(name, bool(getattr(USER[name], "batchable", False)))


def cinstr(ins):
    op = ins["op"]
    a = cnat(ins["a"]) if "a" in ins else None
    kw = ckw(ins.get("kw", {}))
    d = cstr(ins.get("d", ""))
    bs = cnat(ins.get("bs", 0))
    keep = cbool(ins.get("keep", False))
    if op == "source":
        return f"ISource {clist([f'({cstr(n)}, {clist([ccv(x) for x in c])})' for n, c in ins['dims']])} {cN(ins['base'])}"
    if op == "map":
        return f"IMap {a} {cuser(ins['f'])} {kw}"
    if op == "reduce":
        return f"IReduce {a} {cuser(ins['f'])} {kw} {d} {bs} {keep}"
    if op == "named":
        return f"INamed {a} {'N' + ins['n'].capitalize()} {d} {bs} {keep} {kw}"
    if op == "mean":
        return f"IMean {a} {d} {bs} {keep} {kw}"
    if op == "std":
        return f"IStd {a} {d} {bs} {keep} {kw}"
    if op == "stack":
        return f"IStack {a} {d} {bs} {keep} {cZ(ins.get('axis', 0))} {kw}"
    if op == "concat":
        return f"IConcat {a} {d} {bs} {keep} {kw}"
    if op == "flatten":
        return f"IFlatten {a} {d} {cZ(ins.get('axis', 0))} {kw}"
    if op == "expand":
        sel = f"(inl {cnat(ins['size'])})" if ins.get("idxs") is None else f"(inr {clist([ccv(x) for x in ins['idxs']])})"
        return f"IExpand {a} {cstr(ins['name'])} {copt(ins.get('vals'), lambda v: clist([ccv(x) for x in v]))} {ccv(ins['internal'])} {sel} {cZ(ins['axis'])} {kw}"
    if op == "select":
        cr = clist([f"({cstr(k)}, {('SMany ' + clist([ccv(x) for x in v])) if isinstance(v, list) else ('SOne ' + ccv(v))})" for k, v in ins["crit"]])
        return f"ISelect {a} {cr} {cbool(ins.get('drop', False))}"
    if op == "iselect":
        cr = clist([f"({cstr(k)}, {('IMany ' + clist([cZ(x) for x in v])) if isinstance(v, list) else ('IOne ' + cZ(v))})" for k, v in ins["crit"]])
        return f"IIselect {a} {cr} {cbool(ins.get('drop', False))}"
    if op == "broadcast":
        return f"IBroadcast {a} {cnat(ins['b'])} {clist([cstr(x) for x in (ins.get('excl') or [])])}"
    if op == "join":
        return f"IJoin {a} {cnat(ins['b'])} {cstr(ins['name'])} {copt(ins.get('given'), lambda v: clist([ccv(x) for x in v]))} {cbool(ins.get('matchc', False))}"
    if op == "binA":
        return f"IBinA {a} {cnat(ins['b'])} {cfn(ins['f'], False)} {kw}"
    if op == "binC":
        return f"IBinC {a} {cfn(ins['f'], False)} {ccv(ins['c'])} {kw}"
    if op == "bround":
        f = cfn(ins["n"], True) if "n" in ins else cuser(ins["f"])
        return f"IBatchRound {a} {f} [] {d} {cnat(ins['bs'])} {cstr(ins['name'])}"
    if op == "transform":
        body = f"(TBMap {cuser(ins['f'])} [])" if ins["body"] == "map" else f"(TBSel {cstr(ins['d'])} true)"
        return f"ITransform {a} {body} {clist([ccv(p) for p in ins['params']])} {cstr(ins['name'])} {copt(ins.get('vals'), lambda v: clist([ccv(x) for x in v]))} {cZ(ins['axis'])}"
    raise ValueError(op)


def cobs(obs):
    dims = clist([f"({cstr(n)}, {clist([ccv(x) for x in cs])}, {cbool(ix)})" for n, cs, ix in obs["dims"]])
    scal = clist([f"({cstr(k)}, {ccv(v)})" for k, v in obs["scal"]])
    tbl = clist([f"OSrc {cN(e[1])}" if e[0] == "src" else
                 f"ONode {cfn(e[1], e[2])} {clist([cnat(i) for i in e[3]])} {clist([ccv(x) for x in e[4]])} {ckw(e[5])}" for e in obs["table"]])
    return f"({dims}, {scal}, {clist([cnat(i) for i in obs['cells']])}, {tbl})"


def ccase(case, out):
    prog = clist([cinstr(i) for i in case["prog"]])
    if out.get("all_obs"):
        exps = clist([f"({cnat(j)}, {cobs(o)})" for j, o in out["all_obs"]])
        return f"CAll ({prog}, {exps})"
    exp = f"inl {cobs(out['obs'])}" if out["err"] is None else f"inr {cstr(out['err'])}"
    return f"CLast ({prog}, {exp})"


def csources(case):
    """the arrays the sources of the case compute, as Coq tensors (source number = position)"""
    n = max(i["base"] + int(np.prod([len(c) for _, c in i["dims"]])) for i in case["prog"] if i["op"] == "source")
    ish = [i["ishape"] for i in case["prog"] if i["op"] == "source"][0]
    out = []
    for k in range(n):
        v = src_value(k, ish, case["seed"])
        out.append(f"ti {clist([cnat(x) for x in v.shape])} {clist([cZ(int(x)) for x in v.reshape(-1).tolist()])}")
    return clist(out)


def csources_t(case):
    """the source arrays with their element types (source number = position)"""
    out = {}
    for i in case["prog"]:
        if i["op"] == "source":
            n = int(np.prod([len(c) for _, c in i["dims"]]))
            for k in range(i["base"], i["base"] + n):
                v = src_value(k, i["ishape"], case["seed"], *src_opts(i))
                out[k] = f"tsrc {COQ_DT[v.dtype.name]} {clist([cnat(x) for x in v.shape])} {clist([cZ(int(x)) for x in v.reshape(-1).tolist()])}"
    # numbers of sources the generator made and dropped again are never referenced: a 0-d placeholder keeps the positions
    return clist([out.get(k, f"tsrc BD.DI64 [] {clist([cZ(0)])}") for k in range(max(out) + 1)])


def cvalcase_t(case, values):
    """CValT: program, typed source arrays, element type + shape + exact values of every cell the real graph gave"""
    prog = clist([cinstr(i) for i in case["prog"]])
    if values[0] == "raises":
        exp, exact = f"inr ({cnat(values[1])}, {cstr(values[2])})", True
    else:
        exp = "inl " + clist([f"({COQ_DT[dt]}, {clist([cnat(x) for x in sh])}, {clist([f'({cZ(n)}, {d}%positive)' for n, d in flat])})"
                              for dt, sh, flat in values[1]])
        exact = values[2]
    return f"CValT ({prog}, {csources_t(case)}, {exp}, {cbool(exact)})"


def cvalcase(case, values):
    """CVal: program, source arrays, the values the real graph gave (or the first cell that raised and its exception class)"""
    prog = clist([cinstr(i) for i in case["prog"]])
    if values[0] == "raises":
        exp = f"inr ({cnat(values[1])}, {cstr(values[2])})"
    else:
        exp = "inl " + clist([f"({clist([cnat(x) for x in sh])}, {clist([cZ(x) for x in flat])})" for sh, flat in values[1]])
    return f"CVal ({prog}, {csources(case)}, {exp})"


# ----------------------------------------------------------------------------- generator
DIMNAMES = ["x", "y", "z", "t", "lev"]
# internal array shapes; the first three are also used for xarray payloads.  Square and non-square, a longer and a
# shorter leading axis, size-1 axes, three internal dimensions, and 0-d payloads
ISHAPES = [(2,), (3,), (2, 3), (2, 2), (3, 2), (3, 3), (2, 4), (1, 3), (2, 1), (2, 2, 2), (2, 3, 2), (3, 2, 2), (2, 2, 3), (4,), ()]
XISHAPES = [(2,), (3,), (2, 3), (2, 2), (3, 2), (2, 3, 2), (3, 3)]
KWOPS = ("named", "mean", "std", "stack", "concat", "flatten", "expand", "binA", "binC")


def gen_coords(rng, n, style=None):
    style = style or rng.choice(["int", "int10", "str", "neg"])
    if style == "int":
        return list(range(n))
    if style == "int10":
        s = rng.choice([10, 100, 7])
        return [s + 2 * i for i in range(n)]
    if style == "neg":
        return [i - 2 for i in range(n)]
    return [chr(ord("a") + i) for i in range(n)]


class Gen:
    """grows one program while tracking the reference state, so that most steps are valid"""

    def __init__(self, rng, seed, kind, malformed):
        self.rng, self.seed, self.kind, self.malformed = rng, seed, kind, malformed
        self.prog, self.refs, self.tsz = [], [], []
        self.nsrc = 0
        self.ishape = list(rng.choice(ISHAPES if kind == "numpy" else XISHAPES))
        self.fresh = 0
        self.bad_done = False
        self.made_bad = False
        self.session = False      # several calls of the same methods on the same objects, every result checked
        self.sem = False          # only operations whose VALUE the Coq model computes (backends on exact integers)
        self.dt = self.vr = self.lay = None      # element type / value regime / memory layout of the sources (None: first generation)
        self.dt2 = None           # element type of second operands (typed value stream only)

    def typed(self, dt, vr=None, lay=None):
        self.dt = dt
        self.vr = vr or self.rng.choice(regimes_of(dt))
        self.lay = lay or self.rng.choice(LAYOUTS)
        return self

    def dress(self, ins):
        """how the call is written: arguments left to their defaults, options objects fresh / shared / left out"""
        rng = self.rng
        op = ins["op"]
        if self.sem or op in ("source", "bround"):
            return
        p = 0.6 if self.session else 0.35
        if rng.random() < p:
            ins["omit"] = True
        if op in KWOPS or op in ("map", "reduce"):
            has = bool(ins.get("kw"))
            m = rng.random()
            if op in ("map", "reduce"):
                if m < (0.5 if self.session else 0.2):
                    ins["kwm"] = "shared"
            elif has:
                ins["kwm"] = "shared" if m < 0.5 else "fresh"
            else:
                ins["kwm"] = "default" if m < 0.5 else ("shared" if m < 0.8 else "fresh")
        if op in ("select", "iselect") and rng.random() < (0.5 if self.session else 0.2):
            ins["kwm"] = "shared"

    def again(self, cur):
        """an earlier call of the session written once more, with the SAME options (one shared object), on another operand"""
        rng = self.rng
        cands = [j for j, i in enumerate(self.prog) if i["op"] in KWOPS + ("select", "iselect", "map", "reduce") and i.get("a") != cur]
        if not cands:
            return False
        if getattr(self.refs[cur], "noderive", False):
            return False
        j = rng.choice(cands)
        old = self.prog[j]
        ins = {k: (list(v) if isinstance(v, list) else dict(v) if isinstance(v, dict) else v) for k, v in old.items()}
        ins["a"] = cur
        if "name" in ins:
            ins["name"] = self.newname()
        old["kwm"] = ins["kwm"] = "shared"
        if ins["op"] in ("binA",):
            return False
        return self.push(ins, self.tsz[cur] * 4 + 1, dressed=True)

    def push(self, ins, tsz, dressed=False):
        if not dressed:
            self.dress(ins)
        try:
            r = ref_step(self.refs, ins, self.seed, self.kind)
        except Invalid:
            # only a step that was deliberately malformed may be the failing last step; a step the
            # reference rejects for being outside the generated fragment is dropped
            if not (self.malformed and not self.bad_done and self.made_bad):
                return False
            self.prog.append(ins)
            self.bad_done = True
            return True
        if r.typed and ins["op"] == "std" and 1 < ins.get("bs", 0) < self.refs[ins["a"]].size(ins["d"] or self.refs[ins["a"]].dims[0]):
            # sqrt(E[x^2] - E[x]^2) may round to the root of a negative number where the deviation is (nearly) zero: the NaN
            # is accepted there, what is computed FROM it is not comparable any more
            r.noderive = True
        if r.mixed:
            r.noderive = True          # "the same operation on the stacked arrays" would compute every cell in the common type
        self.prog.append(ins)
        self.refs.append(r)
        self.tsz.append(tsz)
        return True

    def source(self, dims=None, maxn=6):
        rng = self.rng
        if dims is None:
            nd = rng.choice([1, 2, 2, 2, 3])
            names = rng.sample(DIMNAMES, nd)
            dims = []
            for i, n in enumerate(names):
                size = rng.choice([2, 2, 3, 3, 4, 5, 6, 7] if nd == 1 else [2, 2, 3, 3, 4, 5] if nd == 2 else [2, 2, 2, 3, 4])
                dims.append([n, gen_coords(rng, size)])
        ins = {"op": "source", "dims": dims, "base": self.nsrc, "ishape": self.ishape}
        if self.dt is not None:
            ins.update(dt=self.dt, vr=self.vr, lay=self.lay)
            if self.dt2 is not None and self.prog and self.rng.random() < 0.7:
                ins.update(dt=self.dt2, vr=self.rng.choice(regimes_of(self.dt2)))
        self.nsrc += int(np.prod([len(c) for _, c in dims]))
        self.push(ins, 1)
        return len(self.refs) - 1

    def newname(self):
        self.fresh += 1
        return self.rng.choice(["e", "n", "new"]) + str(self.fresh)

    def kw_for(self, fname):
        rng = self.rng
        if self.sem or rng.random() < 0.75:
            return {}
        if fname in ("sum", "prod", "min", "max", "mean", "std"):
            return {"keepdims": False} if self.kind == "numpy" else {"skipna": True}
        return {}

    def ops(self):
        if self.sem:
            return ["named", "named", "select", "iselect", "binC", "binA", "join", "broadcast", "transform", "bround",
                    "stack", "stack", "concat", "flatten", "expand", "expand", "expand"]
        ops = ["map", "named", "named", "reduce", "mean", "std", "select", "iselect", "binC", "binA", "join", "broadcast", "transform", "bround"]
        ops += ["stack", "concat", "flatten", "expand", "expand"]
        if self.dt is not None:
            # where the element type decides the result: accumulating reductions, their batched rewrites, arithmetic
            ops += ["named", "named", "named", "mean", "std", "bround", "reduce", "binA", "binC"]
        return ops

    def same_payload_layout(self, r):
        """a second operand from a fresh source combines with r element by element: same internal shape and, for
        xarray payloads (which align by NAME), the same internal dimension names"""
        return r.ishape == tuple(self.ishape) and (self.kind != "xarray" or r.inames == [f"i{j}" for j in range(len(self.ishape))])

    def step(self, op=None, cur=None):
        rng = self.rng
        if cur is None:
            cur = len(self.refs) - 1
            if cur > 0 and not self.malformed and rng.random() < 0.15:
                cur = rng.randrange(cur + 1)      # an earlier result is used again (programs are DAGs, objects are reused)
        r = self.refs[cur]
        if getattr(r, "noderive", False):
            return False
        ts = self.tsz[cur]
        ncell = int(np.prod(r.data.shape[:r.nn])) if r.nn else 1
        bad = self.malformed and not self.bad_done and rng.random() < 0.4
        self.made_bad = False
        if op is None:
            op = rng.choice(self.ops())
        big = [d for d in r.dims if r.size(d) >= 2]
        if op in ("named", "reduce", "mean", "std", "stack", "concat", "flatten"):
            if not big:
                return False
            d = rng.choice(big)
            n = r.size(d)
            bs = rng.choice([0, 0, 1, 2, 2, 3, n - 1, n, n + 1, n + 2]) if op != "flatten" else 0
            keep = rng.random() < 0.35 and op != "flatten"
            dd = "" if (r.dims[0] == d and rng.random() < 0.3 and op not in ("stack", "concat")) else d
            ins = {"op": op, "a": cur, "d": dd, "bs": max(bs, 0), "keep": keep}
            if self.sem:
                ins["bs"] = ins["bs"] if op in ("named", "concat") else 0
            if op == "named":
                ins["n"] = rng.choice(NAMED)
                ins["kw"] = self.kw_for(ins["n"])
            elif op == "reduce":
                ins["f"] = rng.choice(list(REDF))
                if not getattr(REDF[ins["f"]], "batchable", False) and not bad:
                    ins["bs"] = rng.choice([0, 1, n, n + 1])
            elif op in ("mean", "std"):
                ins["kw"] = self.kw_for(op)
                if self.dt is not None and 1 < ins["bs"] < n and not bad:
                    big = max(r.scale, 1.0)
                    # the rewrite through sums is exact only while the sums (of squares) are: beyond that the comparison
                    # with np.mean / np.std would measure floating-point cancellation (or the wrap-around of a 64-bit sum)
                    if (op == "std" and big * big * n >= 2 ** (24 if self.dt == "float32" else 53)) or (op == "mean" and big >= 2 ** 60):
                        ins["bs"] = rng.choice([0, 1, n, n + 1])
            elif op in ("stack", "flatten"):
                # every position np.stack accepts: -(ni+1) .. ni, from the front and from the back
                ni = len(r.ishape)
                ins["axis"] = rng.choice([0, 0, ni, -1] + list(range(-(ni + 1), ni + 1)))
                if op == "stack" and not bad:
                    ins["bs"] = rng.choice([0, 1, n, n + 2])
                if self.kind == "xarray":      # XArrayBackend.stack names the new internal dimension
                    self.fresh += 1
                    ins["kw"] = {"dim": f"s{self.fresh}"}
            elif op == "concat":
                # along any internal axis: numpy payloads by position (axis keyword), xarray payloads by name
                ni = len(r.ishape)
                if self.kind == "xarray":
                    if not r.inames:
                        return False
                    ins["kw"] = {"dim": rng.choice(r.inames)}
                elif ni and rng.random() < 0.6:
                    ins["kw"] = {"axis": rng.randrange(-ni, ni)}
            if bad:
                self.made_bad = True
                how = rng.choice(["baddim", "nonbatch"] + (["badaxis"] if op in ("stack", "flatten") else []))
                if how == "baddim":
                    ins["d"] = "nosuch"
                elif how == "badaxis":
                    ins["axis"] = rng.choice([len(r.ishape) + 1, -(len(r.ishape) + 2)])     # builds; fails when the graph runs
                elif op in ("stack",) or (op == "reduce" and not getattr(REDF[ins["f"]], "batchable", False)):
                    ins["bs"] = 2 if n > 2 else ins["bs"]
            mult = n + (3 if ins["bs"] and 1 < ins["bs"] < n else 0)
            if op == "std" and 1 < ins["bs"] < n:
                mult = 3 * n + 12
            return self.push(ins, ts * mult + 1)
        if op == "bround":
            if not big:
                return False
            d = rng.choice(big)
            n = r.size(d)
            ins = {"op": "bround", "a": cur, "d": d, "bs": rng.choice([1, 2, 2, 3, n - 1, n, n + 1]), "name": f"batch.0.{d}"}
            if ins["bs"] < 1:
                ins["bs"] = 1
            if self.sem or rng.random() < 0.6:
                ins["n"] = rng.choice(NAMED)
            else:
                ins["f"] = rng.choice(["r_bsum", "r_bmax", "r_wsum"])
            return self.push(ins, ts * min(n, max(ins["bs"], 1)) + 1)
        if op == "map":
            f = rng.choice(list(MAPF))
            ins = {"op": "map", "a": cur, "f": f}
            if f == "u_scale":
                ins["kw"] = {"k": rng.choice([2, 3, -1])}
            return self.push(ins, ts + 1)
        if op == "binC":
            f = rng.choice(["add", "subtract", "multiply", "divide", "pow"] if not self.sem else ["add", "subtract", "multiply", "pow"])
            if f == "pow" and (r.data.dtype.kind == "b" or "bool" in (self.dt, self.dt2)):
                f = "multiply"          # True ** 2 is int8 for an array and int64 for a 0-d array (NumPy's fast path for squares): no common reading
            c = rng.choice([2, 3, 4]) if f != "pow" else 2
            if f == "divide":
                c = rng.choice([2, 4])
            return self.push({"op": "binC", "a": cur, "f": f, "c": c}, ts + 1)
        if op in ("select", "iselect"):
            if not r.dims:
                return False
            keys = rng.sample(r.dims, rng.choice([1, 1, 2]) if len(r.dims) > 1 else 1)
            crit = []
            for k in keys:
                n = r.size(k)
                if op == "select":
                    if not r.indexed[k]:
                        continue
                    labs = r.coords[k]
                    if any(isinstance(l, tuple) for l in labs):
                        continue
                    once = [l for l in labs if sum(1 for m in labs if m == l and type(m) is type(l)) == 1]
                    if not once:
                        continue
                    v = rng.choice(once) if rng.random() < 0.5 else rng.sample(once, rng.randint(1, len(once)))
                    if bad:
                        self.made_bad = True
                        v = "nolabel" if not isinstance(v, list) else v + [12345]
                else:
                    v = rng.randrange(-n, n) if rng.random() < 0.5 else [p - rng.choice([0, n]) for p in rng.sample(range(n), rng.randint(1, n))]
                    if bad:
                        self.made_bad = True
                        v = n + 1
                crit.append([k, v])
            if not crit:
                return False
            if op == "select" and r.scal and rng.random() < (0.6 if self.session else 0.3):
                s = rng.choice(sorted(r.scal))
                if not isinstance(r.scal[s], tuple):
                    crit.append([s, r.scal[s]])
            return self.push({"op": op, "a": cur, "crit": crit, "drop": rng.random() < 0.4}, ts)
        if op == "expand":
            ni = len(r.ishape)
            if ni == 0:
                return False
            # the internal dimension: by position from the front, by position from the back (negative), by name (xarray)
            iax = rng.randrange(-ni, ni)
            m = r.ishape[iax]
            internal = iax
            if self.kind == "xarray" and rng.random() < 0.35:
                internal = r.inames[iax % ni]
            name = self.newname()
            ins = {"op": "expand", "a": cur, "name": name, "internal": internal, "axis": rng.randint(-(r.nn + 1), r.nn) if rng.random() < 0.6 else 0}
            how = rng.random()
            if how < 0.55:
                ins["size"] = rng.choice([m, m, max(1, m - 1), 1])
                nn = ins["size"]
            elif how < 0.9 or self.sem:
                # explicit positions, also counted from the back
                ins["idxs"] = [i - rng.choice([0, 0, m]) for i in rng.sample(range(m), rng.randint(1, m))]
                ins["size"] = None
                nn = len(ins["idxs"])
            else:
                # every new node takes a LIST of positions (the internal dimension stays)
                k = rng.randint(1, m)
                nn = rng.choice([1, 2, 3])
                ins["idxs"] = [[rng.randrange(-m, m) for _ in range(k)] for _ in range(nn)]
                ins["size"] = None
            if rng.random() < 0.4:
                ins["vals"] = gen_coords(rng, nn, rng.choice(["str", "int10"]))
                if bad:
                    self.made_bad = True
                    ins["vals"] = ins["vals"] + [99]
            elif bad and rng.random() < 0.5:
                self.made_bad = True
                ins["internal"] = rng.choice([ni, -ni - 1])          # builds; fails when the graph runs
            return self.push(ins, ts + 1)
        if op == "transform":
            name = self.newname()
            if (rng.random() < 0.6 and not self.sem) or not r.dims:
                if self.sem:
                    return False
                ps = [rng.choice([2, 3, 5, -1]) for _ in range(rng.choice([1, 2, 3]))]
                ins = {"op": "transform", "a": cur, "body": "map", "f": "t_scale", "params": ps, "name": name,
                       "axis": rng.choice([0, rng.randint(-(r.nn + 1), r.nn)])}
            else:
                d = rng.choice(r.dims)
                labs = r.coords[d]
                if not r.indexed[d] or any(isinstance(l, tuple) for l in labs):
                    return False
                once = [l for l in labs if sum(1 for m in labs if m == l and type(m) is type(l)) == 1]
                if not once:
                    return False
                ps = [rng.choice(once) for _ in range(rng.choice([2, 3]))]
                ins = {"op": "transform", "a": cur, "body": "sel", "d": d, "params": ps, "name": name,
                       "axis": rng.choice([0, rng.randint(-r.nn, r.nn - 1)])}
            if rng.random() < 0.5:
                ins["vals"] = gen_coords(rng, len(ps), rng.choice(["str", "int10"]))
            return self.push(ins, ts + 1)
        # operations with a second operand
        if op == "binA":
            dims = [[d, list(r.coords[d]) if rng.random() < 0.7 else gen_coords(rng, r.size(d), "int10")] for d in r.dims]
            if any(isinstance(l, tuple) for _, c in dims for l in c) or not all(r.indexed.values()) or not self.same_payload_layout(r):
                return False
            b = self.source(dims)
            if rng.random() < 0.5 and not self.sem:
                self.push({"op": "map", "a": b, "f": "u_aff"}, 2)
                b = len(self.refs) - 1
            f = rng.choice(["add", "subtract", "multiply", "divide"] if not self.sem else ["add", "subtract", "multiply"])
            if f == "divide" and not np.all(self.refs[b].data):
                f = "multiply"          # a divisor with zeros (masks): x/0 and 0/0 are not numbers, and xarray's reductions skip NaN
            return self.push({"op": "binA", "a": cur, "b": b, "f": f}, ts + self.tsz[b] + 1)
        if op == "join":
            if any(isinstance(l, tuple) for c in r.coords.values() for l in c) or not all(r.indexed.values()) or not self.same_payload_layout(r):
                return False
            if self.dt is not None and self.dt2 is None and r.data.dtype != np.dtype(self.dt):
                # the joined array would hold cells of two element types; "the stacked source arrays" have ONE (the common
                # type), so that later arithmetic would wrap in some cells and not in the reference
                return False
            if r.dims and rng.random() < 0.5:
                d = rng.choice(r.dims)          # along an existing dimension: new labels
                m = rng.choice([1, 2, 3])
                labs = r.coords[d]
                self.fresh += 1
                new = [f"q{self.fresh}{i}" for i in range(m)] if isinstance(labs[0], str) else [1000 * self.fresh + i for i in range(m)]
                dims = [[x, (new if x == d else list(r.coords[x]))] for x in r.dims]
                if bad:
                    self.made_bad = True
                    o = [x for x in r.dims if x != d]
                    if o:
                        dims = [[x, (gen_coords(rng, len(c), "int10") if x == o[0] else c)] for x, c in dims]
                b = self.source(dims)
                return self.push({"op": "join", "a": cur, "b": b, "name": d, "matchc": bool(bad and rng.random() < 0.5)}, max(ts, 1))
            dims = [[x, list(r.coords[x])] for x in r.dims]
            b = self.source(dims)
            ins = {"op": "join", "a": cur, "b": b, "name": self.newname(), "matchc": rng.random() < 0.3}
            if rng.random() < 0.6:
                ins["given"] = gen_coords(rng, 2, rng.choice(["str", "int10"]))
            return self.push(ins, max(ts, 1))
        if op == "broadcast":
            if not all(r.indexed.values()) or any(isinstance(l, tuple) for c in r.coords.values() for l in c):
                return False
            shared = [d for d in r.dims if rng.random() < 0.6]
            extra = [n for n in DIMNAMES if n not in r.dims and n not in r.scal]
            rng.shuffle(extra)
            extra = extra[:rng.choice([0, 1, 1, 2])]
            names = shared + extra
            rng.shuffle(names)
            if not names:
                return False
            dims = [[n, list(r.coords[n]) if n in r.dims else gen_coords(rng, rng.choice([2, 3]))] for n in names]
            if bad and shared:
                self.made_bad = True
                dims = [[n, (gen_coords(rng, len(c), "int10") if n == shared[0] else c)] for n, c in dims]
            b = self.source(dims)
            excl = None
            if extra and rng.random() < 0.25:
                excl = [extra[0]]
            mult = int(np.prod([len(c) for n, c in dims if n in extra])) if extra else 1
            return self.push({"op": "broadcast", "a": cur, "b": b, "excl": excl}, ts + 1)
        return False


def finish(g, **extra):
    case = {"seed": g.seed, "kind": g.kind, "prog": g.prog, **extra}
    if any(isinstance(i, list) for ins in g.prog for i in (ins.get("idxs") or [])):
        case["nocoq"] = True          # a list of positions per node is not a value of the model's `cv`: oracle only
    return case


def grow(g, depth, op=None, cur=None):
    tries = nops = 0
    while nops < depth and tries < 40 and not g.bad_done:
        tries += 1
        before = len(g.prog)
        nref = len(g.refs)
        if g.step(op=op, cur=cur):
            nops += 1
            r = g.refs[-1]
            ncell = int(np.prod(r.data.shape[:r.nn])) if r.nn else 1
            if g.tsz[-1] * ncell > 6000:
                break
        else:
            del g.prog[before:]
            del g.refs[nref:]
            del g.tsz[nref:]
    return nops


def gen_case(rng, seed, malformed=False, depth=None, sem=False):
    kind = "xarray" if (rng.random() < 0.15 and not sem) else "numpy"
    g = Gen(rng, seed, kind, malformed)
    g.sem = sem
    if sem:
        g.ishape = list(rng.choice([s for s in ISHAPES if s]))
    elif rng.random() < 0.5:
        g.typed(rng.choice(DT_WEIGHTED))
    g.source()
    grow(g, depth or rng.choice([1, 2, 2, 3, 3, 4, 5]))
    return finish(g)


SESSION_FAMILIES = {"numpy": ["stack", "stack", "flatten", "expand", "expand", "concat", "named", "mean", "std", "select", "iselect",
                              "transform", "map", "reduce", "binC"],
                    "xarray": ["expand", "expand", "stack", "flatten", "concat", "named", "mean", "select", "iselect", "transform", "map", "binC"]}


def gen_session(rng, seed, kind=None):
    """what a script does: ONE source action (and what was derived from it) used for several calls, mostly of the same
    method with other arguments, options left to their defaults or kept in one object; every result is checked"""
    kind = kind or ("xarray" if rng.random() < 0.12 else "numpy")
    g = Gen(rng, seed, kind, False)
    g.session = True
    if kind == "numpy":
        g.ishape = list(rng.choice([s for s in ISHAPES if len(s) >= 1]))
    if rng.random() < 0.5:
        g.typed(rng.choice(DT_WEIGHTED))
    names = rng.sample(DIMNAMES, rng.choice([2, 2, 3]))
    g.source([[n, gen_coords(rng, rng.choice([2, 2, 3, 4]))] for n in names])
    fam = rng.choice(SESSION_FAMILIES[kind])
    calls = rng.choice([2, 3, 3, 4])
    for _ in range(calls):
        if rng.random() < 0.25:
            fam = rng.choice(SESSION_FAMILIES[kind])
        # the operand: the source again, or the result of the previous call (a.stack(..).stack(..))
        cur = 0 if rng.random() < 0.55 else len(g.refs) - 1
        if len(g.prog) > 2 and rng.random() < 0.3 and g.again(rng.randrange(len(g.refs))):
            continue
        if not grow(g, 1, op=fam, cur=cur):
            grow(g, 1, op=fam, cur=0)
    return finish(g, session=True)


def pair_sessions(seed):
    """small exhaustive scope: the same method called twice on the same source with two DIFFERENT values of one
    argument (all ordered pairs), everything else left to its default"""
    out = []
    dims = [["x", [10, 11]], ["y", ["a", "b", "c"]]]

    def case(ishape, calls, **typed):
        prog = [{"op": "source", "dims": dims, "base": 0, "ishape": list(ishape), **typed}]
        for c in calls:
            prog.append({"a": 0, "omit": True, "kwm": "default", **c})
        out.append({"seed": seed, "kind": "numpy", "prog": prog, "session": True, "pair": True})
    for ishape in ((2, 4), (3, 3), (2, 2, 2)):
        ni = len(ishape)
        axes = list(range(-(ni + 1), ni + 1))
        for a1 in axes:
            for a2 in axes:
                if a1 % (ni + 1) != a2 % (ni + 1):
                    case(ishape, [{"op": "stack", "d": "x", "bs": 0, "keep": False, "axis": a1},
                                  {"op": "stack", "d": "y" if (a1 + a2) % 2 else "x", "bs": 0, "keep": False, "axis": a2}])
                    case(ishape, [{"op": "flatten", "d": "x", "axis": a1}, {"op": "flatten", "d": "", "axis": a2}])
        for i1 in range(-ni, ni):
            for i2 in range(-ni, ni):
                if i1 != i2:
                    case(ishape, [{"op": "expand", "name": "e1", "internal": i1, "size": ishape[i1], "idxs": None, "axis": 0},
                                  {"op": "expand", "name": "e2", "internal": i2, "size": ishape[i2], "idxs": None, "axis": -1}])
    for ishape in ((2, 3), (2,)):
        for n1 in NAMED + ["mean"]:
            for d1, d2, k1, k2 in (("x", "y", False, True), ("y", "x", True, False), ("", "y", False, False)):
                o = "named" if n1 in NAMED else n1
                case(ishape, [{"op": o, "n": n1, "d": d1, "bs": 0, "keep": k1}, {"op": o, "n": n1, "d": d2, "bs": 2, "keep": k2}])
                if len(ishape) == 1:
                    # the same two calls over masks and over narrow integers close to the end of their range
                    for dt, vr in (("bool", "small"), ("int8", "edge"), ("uint8", "edge"), ("int32", "edge"), ("float32", "small")):
                        case(ishape, [{"op": o, "n": n1, "d": d1, "bs": 0, "keep": k1}, {"op": o, "n": n1, "d": d2, "bs": 2, "keep": k2}],
                             dt=dt, vr=vr, lay="c")
        case(ishape, [{"op": "concat", "d": "x", "bs": 0, "keep": False}, {"op": "concat", "d": "y", "bs": 2, "keep": True}])
    # ONE options object written once and used for two calls on different operands (a script's `opts = {...}`):
    # selection criteria (one key names a scalar coordinate of the first operand, a dimension of the second),
    # backend_kwargs of a reduction / stack / expand, a Payload
    src = {"op": "source", "dims": dims, "base": 0, "ishape": [2, 3]}
    for op, first, crit in (("select", [["x", 10]], [["y", "b"], ["x", 10]]), ("select", [["y", "c"]], [["x", 11], ["y", "c"]]),
                            ("iselect", [["x", 1]], [["y", [0, 2]]]), ("iselect", [["y", 0]], [["y", 0]])):
        for opnd in ((1, 0), (0, 1)):
            prog = [src, {"op": "select" if op == "select" else "iselect", "a": 0, "crit": first, "drop": False},
                    {"op": op, "a": opnd[0], "crit": crit, "drop": False, "kwm": "shared"},
                    {"op": op, "a": opnd[1], "crit": crit, "drop": False, "kwm": "shared"}]
            if op == "iselect" and first == [["y", 0]]:
                prog[1] = {"op": "iselect", "a": 0, "crit": [["x", 0]], "drop": True}
            out.append({"seed": seed, "kind": "numpy", "prog": prog, "session": True, "pair": True, "reuse": True})
    for c1, c2 in (({"op": "stack", "d": "x", "bs": 0, "keep": False, "axis": 1}, {"op": "stack", "d": "y", "bs": 0, "keep": False, "axis": -1}),
                   ({"op": "stack", "d": "y", "bs": 0, "keep": False, "axis": 0}, {"op": "expand", "name": "e", "internal": -1, "size": 3, "idxs": None, "axis": 0}),
                   ({"op": "expand", "name": "e", "internal": 1, "size": 3, "idxs": None, "axis": 0}, {"op": "flatten", "d": "x", "axis": 2}),
                   ({"op": "named", "n": "sum", "d": "x", "bs": 0, "keep": False}, {"op": "stack", "d": "y", "bs": 0, "keep": False, "axis": 1}),
                   ({"op": "mean", "d": "y", "bs": 2, "keep": False}, {"op": "named", "n": "max", "d": "y", "bs": 2, "keep": True}),
                   ({"op": "concat", "d": "x", "bs": 0, "keep": False}, {"op": "stack", "d": "x", "bs": 0, "keep": False, "axis": 2}),
                   ({"op": "map", "f": "u_scale", "kw": {"k": 3}}, {"op": "map", "f": "u_scale", "kw": {"k": 3}}),
                   ({"op": "reduce", "f": "r_wsum", "d": "x", "bs": 0, "keep": False}, {"op": "reduce", "f": "r_wsum", "d": "y", "bs": 0, "keep": True})):
        for x, y in ((c1, c2), (c2, c1)):
            prog = [src, {"a": 0, "kwm": "shared", **x}, {"a": 0, "kwm": "shared", **y},
                    {"a": 1 if x["op"] == "map" else 0, "kwm": "shared", **x, **({"name": "e9"} if "name" in x else {})}]
            out.append({"seed": seed, "kind": "numpy", "prog": prog, "session": True, "pair": True, "reuse": True})
    return out


def sweep_cases(seed):
    """batching sweep: every reduction x size x batch size x keep_dim x axis position"""
    out = []
    for nd, pos in ((1, 0), (2, 0), (2, 1), (3, 1)):
        for n in (2, 3, 4, 5, 6, 7):
            if nd == 3 and n > 5:
                continue
            dims = []
            for i in range(nd):
                dims.append([DIMNAMES[i], [10 + 3 * j for j in range(n)] if i == pos else ["a", "b"]])
            for fam in ("sum", "prod", "min", "max", "concat", "mean", "std", "r_bsum", "r_bmax"):
                for bs in range(0, n + 3):
                    for keep in (False, True):
                        ins = {"a": 0, "d": DIMNAMES[pos], "bs": bs, "keep": keep}
                        if fam in NAMED:
                            ins.update(op="named", n=fam)
                        elif fam in ("mean", "std", "concat"):
                            ins.update(op=fam)
                        else:
                            ins.update(op="reduce", f=fam)
                        out.append({"seed": seed, "kind": "numpy", "prog": [{"op": "source", "dims": dims, "base": 0, "ishape": [2]}, ins],
                                    "sweep": True})
    return out


def long_sweep_cases(seed):
    """reduced dimensions of 8..27 nodes: three and more rounds of batching, rounds whose size is no multiple of the
    batch size, a last batch of one in a LATER round"""
    out = []
    for n in range(8, 28):
        dims = [["x", [10 + 3 * j for j in range(n)]]]
        for fam in ("sum", "prod", "max", "concat", "mean", "std", "r_bsum"):
            for bs in (2, 3, 4, 5):
                ins = {"a": 0, "d": "x", "bs": bs, "keep": False}
                if fam in NAMED:
                    ins.update(op="named", n=fam)
                elif fam in ("mean", "std", "concat"):
                    ins.update(op=fam)
                else:
                    ins.update(op="reduce", f=fam)
                out.append({"seed": seed, "kind": "numpy", "prog": [{"op": "source", "dims": dims, "base": 0, "ishape": [2]}, ins],
                            "sweep": True, "long": True})
    return out


SWEEP_TYPES = [("bool", "small"), ("int8", "edge"), ("uint8", "edge"), ("int16", "edge"), ("int32", "edge"), ("uint32", "edge"),
               ("int64", "small"), ("uint16", "mid"), ("int8", "mid"), ("float32", "small"), ("int8", "signed"), ("uint64", "small"),
               ("float32", "edge"), ("int16", "mid"), ("float64", "signed")]


def typed_sweep(cases, rng, share):
    """the batching sweep over source arrays of every element type: `share` of the cases (all of them in turn when
    share >= 1) get an element type and a value regime; the batch sizes, reductions and sizes stay those of the sweep"""
    out = []
    for j, c in enumerate(cases):
        if share < 1 and rng.random() >= share:
            out.append(c)
            continue
        dt, vr = SWEEP_TYPES[rng.randrange(len(SWEEP_TYPES))]
        src, ins = dict(c["prog"][0]), dict(c["prog"][1])
        n = max(len(co) for _, co in src["dims"])
        lo, hi = value_range(dt, vr)
        big = max(abs(lo), abs(hi))
        if ins["op"] == "std" and 1 < ins["bs"] < n and big * big * n >= 2 ** (24 if dt == "float32" else 53):
            vr = "small"
        src.update(dt=dt, vr=vr, lay=LAYOUTS[rng.randrange(len(LAYOUTS))])
        out.append({**c, "prog": [src, ins]})
    return out


def case_key(case):
    return hashlib.sha1(json.dumps(case["prog"], sort_keys=True, default=str).encode()).hexdigest()


def signature(fail, case):
    """failure class: what went wrong and in which operation (callers pass the shortest failing prefix)"""
    kind = fail[0]
    last = case["prog"][-1] if case["prog"] else {"op": "none"}
    if len(fail) > 2 and 0 <= fail[2] < len(case["prog"]):
        last = case["prog"][fail[2]]          # the instruction whose result is wrong / that raised
    extra = ""
    if 1 < last.get("bs", 0):
        extra += "+batch"
    if last.get("keep"):
        extra += "+keep_dim"
    if last.get("kwm") == "shared":
        extra += "+reused-options-object"
    return f"{kind}:{last['op']}{extra}"


# ----------------------------------------------------------------------------- driver
def run_cases(ctx, res, cases, tag, check_corr=True, sink=None):
    """oracle on every case now; the Coq terms go to `sink` (one Coq run for all streams, see flush_coq)"""
    own = sink is None
    sink = [] if sink is None else sink
    for case in cases:
        res.evaluations += 1
        try:
            out = run_case(case)
        except ValueError as e:
            res.disagree(f"harness cannot canonicalise the observation: {e}"[:300], case)
            continue
        for w in out.get("leaked") or []:
            res.count(f"state:default-argument-changed-by-an-earlier-case:{w}")
        ops = [i["op"] for i in case["prog"] if i["op"] != "source"]
        for o in ops:
            res.count(f"{tag}:op:{o}")
        for i in case["prog"]:
            if i.get("omit"):
                res.count(f"{tag}:call-with-defaults-left-out")
            if i.get("kwm") in ("default", "shared"):
                res.count(f"{tag}:options-object:{i['kwm']}")
            if i["op"] == "expand":
                it = i["internal"]
                res.count(f"{tag}:expand-internal:{'name' if isinstance(it, str) else 'negative' if it < 0 else 'non-negative'}")
            if i["op"] in ("stack", "flatten") and i.get("axis", 0) < 0:
                res.count(f"{tag}:{i['op']}-axis-negative")
        batched = any(1 < i.get("bs", 0) for i in case["prog"])
        res.count(f"{tag}:{'valid' if out['ref_ok'] else 'malformed'}:{case.get('kind')}")
        res.count(f"{tag}:internal-ndim:{len([i for i in case['prog'] if i['op'] == 'source'][0]['ishape'])}")
        if batched:
            res.count(f"{tag}:with-batch-size>1")
        if out["err"] is not None:
            res.count(f"{tag}:raises:{out['err']}")
        if out["fail"] is not None:
            f = {"signature": signature(out["fail"], case), "what": out["fail"][1], "case": case}
            if sum(1 for g in res.failures if g["signature"] == f["signature"]) < 2:
                f = shrink(ctx, f)         # the first failures of a class are minimised, the rest only recorded
            res.fail(f["signature"], f["what"], f["case"])
            continue
        if ops and (len(ops) >= 2 or batched):
            res.nontrivial_keys.add(case_key(case))
        if len(res.samples) < 4 and len(ops) >= 2 and out["obs"] is not None and out["obs"]["cells"] is not None:
            res.samples.append({"prog": case["prog"], "dims": [d[0] for d in out["obs"]["dims"]], "cells": len(out["obs"]["cells"]), "graph_nodes": len(out["obs"]["table"])})
        if check_corr:
            if case.get("nocoq"):
                res.count(f"{tag}:oracle-only(list-of-positions-per-node)")
                continue
            big = [o for _, o in (out.get("all_obs") or [])] + ([out["obs"]] if out["obs"] is not None else [])
            if any(tree_size(o["table"], o["cells"]) > 40000 for o in big):
                res.count(f"{tag}:skipped-in-coq-too-large")
                continue
            try:
                sink.append((ccase(case, out), case, out, "structure"))
                v = out.get("values")
                if v is not None:
                    if v[0] == "inexact":
                        res.count(f"{tag}:values-not-exact-integers(structure-only)")
                    else:
                        sink.append(((cvalcase_t if case.get("semt") else cvalcase)(case, v), case, out, "values"))
                        res.count(f"{tag}:values-compared-in-coq:{v[0]}" + (":model-must-decide" if case.get("semt") and v[0] == "ok" and v[2] else ""))
            except ValueError as e:
                res.disagree(f"harness cannot express the case in Coq: {e}"[:300], case)
    if own:
        flush_coq(ctx, res, sink, tag)


def flush_coq(ctx, res, sink, tag="all"):
    if not sink:
        return
    # one wave of four parallel coqc: loading the libraries costs more than a few dozen cases, and on a busy machine
    # eight of them only get in each other's way
    shard = ctx.n(max(60, min(320, -(-len(sink) // 4))), 150)
    results, logs = coq_results("C13", HEADER, [t for t, _, _, _ in sink], "check_any", shard=shard, tag=tag)
    res.corr_checked += len(results)
    for r, (_, case, out, what_kind) in zip(results, sink):
        if r is not True:
            if what_kind == "values":
                what = "Coq semantics of the graph (Fluent/ActionSem.v: take/stack/concat/reductions/arithmetic on exact arrays) gives other VALUES than evaluating the real graph"
            else:
                what = "Coq model of fluent.Action disagrees with the implementation"
            if r is None:
                what += " (cases file did not compile: " + (logs[0][-300:] if logs else "") + ")"
            else:
                try:
                    prog = clist([cinstr(i) for i in case["prog"]])
                    if what_kind == "values":
                        v = out["values"]
                        m = coq_print("C13", HEADER, f"model_values_t {prog} {csources_t(case)}" if case.get("semt") else f"model_values {prog} {csources(case)}")
                        what += f": implementation {('raised ' + v[2] + ' at cell ' + str(v[1])) if v[0] == 'raises' else 'gave ' + str(v[1])[:200]}, model says {' '.join(m.split())[-300:]}"
                    else:
                        m = coq_print("C13", HEADER, f"model_error {prog}")
                        what += f": implementation {'raised ' + out['err'] if out['err'] else 'returned an array'}, model says {m.strip()[-80:]}"
                except Exception:
                    pass
            res.disagree(what, case)
            break


def gen_sem(rng, seed, malformed=False):
    case = gen_case(rng, seed, malformed=malformed, sem=True, depth=rng.choice([1, 2, 2, 3, 3, 4]))
    case["sem"] = True
    return case


def gen_semt(rng, seed, malformed=False):
    """programs of backend functions over sources WITH an element type: the typed model (Fluent/ActionSemT.v) computes
    element type and value of every cell, wrap-around included.  In a third of the cases a second operand comes
    from sources of ANOTHER element type (join / arithmetic of unlike arrays): cell by cell the model still says what
    NumPy computes, while "the stacked source arrays" have one common type -- there the NumPy oracle only looks at
    dimensions and coordinates (case["coqonly"])"""
    g = Gen(rng, seed, "numpy", malformed)
    g.sem = True
    g.ishape = list(rng.choice([s for s in ISHAPES if s]))
    g.typed(rng.choice(DT_WEIGHTED))
    if rng.random() < 0.33:
        g.dt2 = rng.choice([d for d in DTYPES if d != g.dt])
    g.source()
    grow(g, rng.choice([1, 2, 2, 3, 3, 4]))
    case = finish(g, sem=True, semt=True)
    unlike_join = any(i["op"] == "join" and max(i["a"], i["b"]) < len(g.refs) and g.refs[i["a"]].data.dtype != g.refs[i["b"]].data.dtype
                      for i in g.prog)
    if len({i.get("dt") for i in g.prog if i["op"] == "source"}) > 1 or unlike_join:
        case["coqonly"] = True
    return case


def run(ctx, res):
    res.rule = ("a case is one fluent program (SSA list of operations over from_source arrays, 1-3 dims, internal arrays of 0-3 dims; "
                "in a session: several calls on the same objects, every result checked) "
                "run on the real API, on the NumPy reference and inside Coq; distinct_nontrivial counts distinct programs with >= 2 operations "
                "after the sources or a batch size > 1")
    import time
    from common import load_corpus
    t0 = time.time()
    corpus = [c.get("case") for _, c in load_corpus("C13") if isinstance(c.get("case"), dict) and "prog" in c.get("case", {})]
    if corpus:
        run_cases(ctx, res, corpus, "corpus", check_corr=False)
    sink = []
    rng = ctx.sub_rng("sweep")
    sw = sweep_cases(ctx.seed)
    if ctx.tier != "thorough":
        # the cases whose batching needs a second round (more batches than the batch size) are few: keep a fixed share
        def rounds2(c):
            i = c["prog"][1]
            n = max(len(co) for _, co in c["prog"][0]["dims"])
            return i["bs"] >= 2 and -(-n // i["bs"]) > i["bs"]
        multi = [c for c in sw if rounds2(c)]
        rest = [c for c in sw if not rounds2(c)]
        sw = rng.sample(multi, min(60, len(multi))) + rng.sample(rest, 160)
        sw = typed_sweep(sw + rng.sample(long_sweep_cases(ctx.seed), 30), rng, 0.6)
    else:
        sw = sw + long_sweep_cases(ctx.seed)
        sw = sw + typed_sweep(sw, rng, 1) + typed_sweep(sw, rng, 1)
    run_cases(ctx, res, sw, "sweep", sink=sink)
    rng = ctx.sub_rng("programs")
    progs = [gen_case(rng, ctx.seed * 1000 + i) for i in range(ctx.n(310, 9000))]
    run_cases(ctx, res, progs, "prog", sink=sink)
    rng = ctx.sub_rng("malformed")
    bad = [gen_case(rng, ctx.seed * 1000 + i, malformed=True) for i in range(ctx.n(60, 1500))]
    run_cases(ctx, res, bad, "bad", sink=sink)
    # several calls on the same objects in one process, defaults left out, options objects shared
    rng = ctx.sub_rng("sessions")
    ses = [gen_session(rng, ctx.seed * 1000 + i) for i in range(ctx.n(110, 2000))]
    run_cases(ctx, res, ses, "session", sink=sink)
    pairs = pair_sessions(ctx.seed)
    if ctx.tier != "thorough":
        pairs = [c for c in pairs if c.get("reuse")] + rng.sample([c for c in pairs if not c.get("reuse")], 36)
    run_cases(ctx, res, pairs, "pair", sink=sink)
    # values, not only wiring: programs of backend functions, evaluated inside Coq on the same integer arrays
    rng = ctx.sub_rng("sem")
    sem = [gen_sem(rng, ctx.seed * 1000 + i, malformed=(i % 8 == 7)) for i in range(ctx.n(90, 1500))]
    run_cases(ctx, res, sem, "sem", sink=sink)
    # element types too: the typed model decides dtype and value (wrap-around, masks) of every cell
    rng = ctx.sub_rng("semt")
    semt = [gen_semt(rng, ctx.seed * 1000 + i, malformed=(i % 10 == 9)) for i in range(ctx.n(100, 1800))]
    run_cases(ctx, res, semt, "semt", sink=sink)
    t_py = time.time() - t0
    flush_coq(ctx, res, sink)
    ctx.notes.append(f"timing: implementation + oracle {t_py:.1f} s, Coq correspondence ({len(sink)} cases) {time.time() - t0 - t_py:.1f} s")
    if LEAKS:
        ctx.notes.append("mutable default arguments changed by calls (reset before every case): " + ", ".join(f"{k} x{v}" for k, v in sorted(LEAKS.items())))


def search(ctx, res):
    """enlarged search after a broken proof / correspondence: the full batching sweep, all pair sessions and many more programs, oracle only"""
    from common import Result
    r2 = Result()
    ctx2 = type(ctx)(ctx.pid, "thorough", ctx.seed + 1)
    sw = sweep_cases(ctx.seed + 1) + long_sweep_cases(ctx.seed + 1)
    run_cases(ctx2, r2, sw, "search-sweep", check_corr=False)
    if not r2.failures:
        run_cases(ctx2, r2, typed_sweep(sw, ctx2.sub_rng("search-sweep"), 1), "search-sweep-typed", check_corr=False)
    if not r2.failures:
        run_cases(ctx2, r2, pair_sessions(ctx.seed + 1), "search-pairs", check_corr=False)
    if not r2.failures:
        rng = ctx2.sub_rng("search")
        run_cases(ctx2, r2, [gen_session(rng, 778000 + i) for i in range(1500)], "search-session", check_corr=False)
    if not r2.failures:
        rng = ctx2.sub_rng("search")
        run_cases(ctx2, r2, [gen_case(rng, 777000 + i) for i in range(3000)], "search", check_corr=False)
    if r2.failures:
        return shrink(ctx, r2.failures[0])
    return None


def without(prog, j):
    """the program with instruction j removed; later uses of its result are pointed at its own operand
    (None if it has none, i.e. a source that is still used)"""
    used = any(i.get("a") == j or i.get("b") == j for i in prog[j + 1:])
    if used and ("a" not in prog[j] or prog[j]["op"] == "source"):
        return None
    out = []
    for k, i in enumerate(prog):
        if k == j:
            continue
        i = dict(i)
        for key in ("a", "b"):
            if key in i and k > j:
                if i[key] == j:
                    i[key] = prog[j]["a"]
                elif i[key] > j:
                    i[key] -= 1
        out.append(i)
    return out


def shrink(ctx, f):
    """shortest failing prefix, then drop every instruction the failure does not need (same signature)"""
    case = f["case"]
    sig = f["signature"]
    best = None
    for cut in range(1, len(case["prog"]) + 1):
        c2 = {**case, "prog": case["prog"][:cut]}
        try:
            out = run_case(c2)
        except Exception:
            continue
        if out["fail"] is not None:
            best = {"signature": signature(out["fail"], c2), "what": out["fail"][1], "case": c2}
            break
    if best is None:
        return {"signature": sig, "what": f["what"], "case": case}
    j = len(best["case"]["prog"]) - 1
    while j >= 0:
        p2 = without(best["case"]["prog"], j)
        if p2:
            c2 = {**best["case"], "prog": p2}
            try:
                out = run_case(c2)
            except Exception:
                out = None
            if out and out["fail"] is not None and signature(out["fail"], c2) == best["signature"]:
                best = {"signature": best["signature"], "what": out["fail"][1], "case": c2}
        j -= 1
    return best


def replay(ctx, case):
    c = case.get("case", case)
    if not isinstance(c, dict) or "prog" not in c:
        return {"fails": None, "note": "no program stored; re-run ./check C13 with the recorded seed"}
    out = run_case(c)
    return {"fails": out["fail"] is not None, "what": out["fail"][1] if out["fail"] else None, "raised": out["err"]}
