"""C17 -- encodings round-trip.  (a) shm protocol: translator tie + theorem + byte-exact
correspondence with the Coq model; (b) multipart framing; (c) gateway envelope;
(d) pickle / orjson / pydantic round-trips (sampled oracles, no Gallina model can express them)."""
import dataclasses
import enum
import inspect

from common import cN, cZ, clist, cstr, coq_results

TRUSTED = [
    "translate/shm_api.py (ast translator for cascade/shm/api.py; checked against the implementation by byte-exact ser/deser correspondence on every run)",
    "pickle, cloudpickle, orjson, pydantic are outside the model: their round-trips are sampled, not proved",
]
ASSUMPTIONS = [
    "a shm message is a record of ints, ASCII strings and enum members; str length < 2^32",
    "UDP datagram size limit (recvfrom(1024)) is not modelled",
]

HEADER = """From Coq Require Import List NArith ZArith String.
From EKW Require Import Shm.Codec Shm.CodecCheck.
From EKWgen Require Import ShmLayouts.
Import ListNotations.
Open Scope string_scope.
"""

SIZE_FIELDS = {"l", "free_space"}
INT_EDGES = [0, 1, 255, 256, 65535, 2**31 - 1, 2**31, 2**32 - 1, 2**32, 2**32 + 1, 2**40, 5 * 2**30, 2**63 - 1, 2**63, 2**64 - 1]
INT_BAD = [-1, -2**31, 2**64, 2**64 + 5, 2**70]


def shm_classes(api):
    out = []
    for name, obj in vars(api).items():
        if inspect.isclass(obj) and obj.__module__ == api.__name__ and hasattr(obj, "ser") and hasattr(obj, "deser"):
            if name in ("Comm", "EmptyCommand"):
                continue
            out.append(obj)
    return out


def rand_ascii(rng, maxlen=24):
    n = rng.choice([0, 0, 1, 2, 3, 5, 8, 13, maxlen, 200])
    alpha = rng.choice(["abcXYZ09_./-", "".join(chr(i) for i in range(128)), " \t\n\"'\\"])
    return "".join(rng.choice(alpha) for _ in range(n))


def gen_value(rng, cls, f, bad):
    t = f.type if isinstance(f.type, type) else None
    ann = f.type if isinstance(f.type, str) else getattr(f.type, "__name__", str(f.type))
    if ann == "str" or t is str:
        if bad:
            s = rand_ascii(rng, 6)
            pos = rng.randrange(len(s) + 1)
            return s[:pos] + rng.choice(["\x80", "\xe9", "€", "\U0001f600"]) + s[pos:]
        return rand_ascii(rng)
    if ann == "int" or t is int:
        if bad:
            return rng.choice(INT_BAD)
        if f.name in SIZE_FIELDS:
            return rng.choice(INT_EDGES + [rng.randrange(2**64)])
        return rng.choice(INT_EDGES[:9] + [rng.randrange(2**32)])
    if inspect.isclass(t) and issubclass(t, enum.Enum):
        return rng.choice(list(t))
    raise ValueError(f"unknown field type {cls.__name__}.{f.name}: {f.type!r}")


def coq_value(v):
    if isinstance(v, enum.Enum):
        return f"VInt {cZ(int(v.value))}"
    if isinstance(v, bool):
        raise ValueError("bool field")
    if isinstance(v, int):
        return f"VInt {cZ(v)}"
    if isinstance(v, str):
        return "VStr " + clist([cN(ord(c)) for c in v])
    raise ValueError(type(v))


def coq_msg(m):
    fs = dataclasses.fields(m) if dataclasses.is_dataclass(m) else []
    return clist([f"({cstr(f.name)}, {coq_value(getattr(m, f.name))})" for f in fs])


def coq_bytes(b):
    return clist([cN(x) for x in b])


def same(a, b):
    if type(a) is not type(b):
        return False
    if dataclasses.is_dataclass(a):
        return a == b
    return True


BIG_INTS = [2**64, 2**64 + 1, 2**70, 2**70 + 1, -2**63 - 1, -2**64, 10**30 + 7]   # outside every 64-bit JSON integer range


def plain(x):
    """a message as plain data with every scalar tagged by its exact type: 2**70 and float(2**70) compare equal in
    Python, but one is not the other's round trip"""
    if hasattr(x, "model_dump"):
        return plain(x.model_dump())
    if dataclasses.is_dataclass(x) and not isinstance(x, type):
        return (type(x).__name__, plain(dataclasses.asdict(x)))
    if isinstance(x, dict):
        return ("dict", sorted(((plain(k), plain(v)) for k, v in x.items()), key=repr))
    if isinstance(x, (list, tuple)):
        return ("seq", [plain(v) for v in x])
    if isinstance(x, (set, frozenset)):
        return ("set", sorted((plain(v) for v in x), key=repr))
    return (type(x).__name__, x)


def has_big_int(x):
    if hasattr(x, "model_dump"):
        return has_big_int(x.model_dump())
    if isinstance(x, dict):
        return any(has_big_int(k) or has_big_int(v) for k, v in x.items())
    if isinstance(x, (list, tuple, set, frozenset)):
        return any(has_big_int(v) for v in x)
    return isinstance(x, int) and not isinstance(x, bool) and not (-2**63 <= x < 2**64)


def in_domain(m):
    if not dataclasses.is_dataclass(m):
        return True
    for f in dataclasses.fields(m):
        v = getattr(m, f.name)
        if isinstance(v, enum.Enum):
            continue
        if isinstance(v, int) and not (0 <= v < (2**64 if f.name in SIZE_FIELDS else 2**32)):
            return False
        if isinstance(v, str) and not v.isascii():
            return False
    return True


def make(rng, cls, bad=False):
    if not dataclasses.is_dataclass(cls):
        return cls()
    fs = dataclasses.fields(cls)
    badidx = rng.randrange(len(fs)) if (bad and fs) else -1
    kw = {}
    for i, f in enumerate(fs):
        try:
            kw[f.name] = gen_value(rng, cls, f, i == badidx)
        except ValueError:
            raise
    return cls(**kw)


def shm_part(ctx, res):
    import cascade.shm.api as api
    rng = ctx.sub_rng("shm")
    classes = shm_classes(api)
    per = ctx.n(60, 1500)
    ser_cases, deser_cases, metas = [], [], []
    for cls in classes:
        for k in range(per):
            bad = dataclasses.is_dataclass(cls) and bool(dataclasses.fields(cls)) and k % 5 == 4
            m = make(rng, cls, bad)
            res.evaluations += 1
            res.count(f"shm:{cls.__name__}:{'out-of-domain' if bad else 'in-domain'}")
            case = {"part": "shm", "cls": cls.__name__, "fields": {f.name: (getattr(m, f.name).value if isinstance(getattr(m, f.name), enum.Enum) else getattr(m, f.name)) for f in (dataclasses.fields(m) if dataclasses.is_dataclass(m) else [])}}
            try:
                b = api.ser(m)
                err = None
            except Exception as e:
                b, err = None, type(e).__name__
            # property oracle on the implementation
            if err is None:
                try:
                    back = api.deser(b)
                    back2 = api.deser(b + bytes(rng.randrange(256) for _ in range(rng.choice([0, 3]))))
                    ok = same(back, m) and same(back2, m)
                except Exception as e:
                    ok, back = False, repr(e)
                if not ok:
                    res.fail("shm-roundtrip", f"api.deser(api.ser({m!r})) gave {back!r}", case)
            elif in_domain(m):
                res.fail("shm-in-domain-rejected", f"api.ser({m!r}) raised {err}", case)
            if len(res.samples) < 3 and k in (0, 4):
                res.samples.append({**case, "ser": b.hex() if b else err})
            res.nontrivial_keys.add(("shm", cls.__name__, b if b is not None else repr(case["fields"])))
            exp = f"inl {coq_bytes(b)}" if err is None else f"inr {cstr(err)}"
            ser_cases.append(f"({cstr(cls.__name__)}, {coq_msg(m)}, {exp})")
            metas.append(("ser", case))
            if err is None and dataclasses.is_dataclass(m):
                # mutate the encoding: truncations and byte flips (malformed stream)
                for _ in range(2):
                    bb = bytearray(b)
                    mode = rng.choice(["trunc", "flip", "tag", "asis"])
                    if mode == "trunc" and len(bb) > 1:
                        bb = bb[: rng.randrange(1, len(bb))]
                    elif mode == "flip" and len(bb) > 1:
                        i = rng.randrange(1, len(bb))
                        bb[i] = rng.choice([0, 1, 0x7F, 0x80, 0xFF, bb[i] ^ 1])
                    elif mode == "tag":
                        bb[0] = rng.choice([0, 1, 2, 8, 13, 14, 200])
                    bb = bytes(bb)
                    try:
                        mm = api.deser(bb)
                        exp = f"inl ({cstr(type(mm).__name__)}, {coq_msg(mm)})"
                    except Exception as e:
                        exp = f"inr {cstr(type(e).__name__)}"
                    res.count("shm:deser-of-mutated-bytes")
                    deser_cases.append(f"({coq_bytes(bb)}, {exp})")
                    metas.append(("deser", {"part": "shm-deser", "bytes": bb.hex()}))
    r1, logs1 = coq_results("C17", HEADER, ser_cases, "check_ser shm_table shm_message_classes", tag="ser", case_type="string * msg * (list N + string)")
    r2, logs2 = coq_results("C17", HEADER, deser_cases, "check_deser shm_table", tag="deser", case_type="list N * (string * msg + string)")
    res.corr_checked += len(r1) + len(r2)
    k = 0
    sm = [m for m in metas if m[0] == "ser"]
    dm = [m for m in metas if m[0] == "deser"]
    for r, meta in list(zip(r1, sm)) + list(zip(r2, dm)):
        if r is not True:
            res.disagree(f"Coq model of shm {meta[0]} disagrees with cascade.shm.api" + ("" if r is False else " (cases file did not compile: " + (logs1 + logs2)[0][-400:] + ")"), meta[1])
            break


def envelope_part(ctx, res):
    """gateway envelope: real request_response / parse_request / serialize_response over a fake REQ socket"""
    import cascade.gateway.api as gapi
    import cascade.gateway.client as client
    from cascade.low.core import DatasetId, JobInstance, Task2TaskEdge, TaskDefinition, TaskInstance
    rng = ctx.sub_rng("gw")

    def rstr():
        return rand_ascii(rng, 12) if rng.random() < 0.8 else rng.choice(["", "é€", "clazz", "a" * 300])

    def job_instance():
        nt = rng.randrange(1, 5)
        tasks = {}
        for i in range(nt):
            outs = {str(j): "int" for j in range(rng.choice([1, 1, 2, 12]))}
            d = TaskDefinition(entrypoint=rstr(), func=rng.choice([None, TaskDefinition.func_enc(len)]), environment=[rstr() for _ in range(rng.randrange(3))],
                               input_schema={rstr(): "int" for _ in range(rng.randrange(3))}, output_schema=outs, needs_gpu=rng.random() < 0.3)
            big = rng.random() < 0.3
            tasks[f"t{i}"] = TaskInstance(definition=d, static_input_kw={rstr(): rng.choice([1, "x", None, [1, 2], {"a": 1.5}] + ([rng.choice(BIG_INTS), {"n": [rng.choice(BIG_INTS)]}] if big else []))
                                                                         for _ in range(rng.randrange(3))},
                                          static_input_ps={str(j): rng.choice([0, "s", 2**40, None, 2**63, 2**64 - 1] + (BIG_INTS if big else [])) for j in range(rng.randrange(3))})
        edges = []
        names = list(tasks)
        for _ in range(rng.randrange(0, 5)):
            s, t = rng.choice(names), rng.choice(names)
            out = rng.choice(list(tasks[s].definition.output_schema))
            if rng.random() < 0.5:
                edges.append(Task2TaskEdge(source=DatasetId(s, out), sink_task=t, sink_input_kw=rstr(), sink_input_ps=None))
            else:
                edges.append(Task2TaskEdge(source=DatasetId(s, out), sink_task=t, sink_input_kw=None, sink_input_ps=rng.randrange(4)))
        ext = [DatasetId(n, "0") for n in names if rng.random() < 0.5]
        serdes = {rstr(): (rstr(), rstr())} if rng.random() < 0.3 else {}
        if rng.random() < 0.5:
            return JobInstance(tasks=tasks, edges=edges, ext_outputs=ext, serdes=serdes)
        # built with defaults, then filled in place (as user code that appends outputs does): fields the
        # model was never *assigned* must still reach the gateway
        ji = JobInstance(tasks=tasks, edges=edges)
        for e in ext:
            ji.ext_outputs.append(e)
        for k, v in serdes.items():
            ji.serdes[k] = v
        return ji

    def gen_request():
        k = rng.randrange(4)
        if k == 0:
            ji = job_instance() if rng.random() < 0.7 else None
            spec = gapi.JobSpec(benchmark_name=None if ji else rstr(), envvars={rstr(): rstr() for _ in range(rng.randrange(3))}, job_instance=ji,
                                workers_per_host=rng.randrange(1, 2**33), hosts=rng.randrange(1, 9), use_slurm=rng.random() < 0.5)
            return gapi.SubmitJobRequest(job=spec)
        if k == 1:
            return gapi.JobProgressRequest(job_ids=[rstr() for _ in range(rng.randrange(4))])
        if k == 2:
            return gapi.ResultRetrievalRequest(job_id=rstr(), dataset_id=DatasetId(rstr(), rstr()))
        return gapi.ShutdownRequest()

    def gen_response(req):
        n = type(req).__name__
        if n == "SubmitJobRequest":
            return gapi.SubmitJobResponse(job_id=rng.choice([None, rstr()]), error=rng.choice([None, rstr()]))
        if n == "JobProgressRequest":
            return gapi.JobProgressResponse(progresses={rstr(): rng.choice(["0.00", "55.10", "Shutdown"]) for _ in range(rng.randrange(4))}, error=rng.choice([None, rstr()]))
        if n == "ResultRetrievalRequest":
            return gapi.ResultRetrievalResponse(result=rng.choice([None, rstr()]), error=rng.choice([None, rstr()]))
        return gapi.ShutdownResponse(error=rng.choice([None, rstr()]))

    class FakeSock:
        def __init__(self):
            self.sent = None
            self.reply = None

        def set(self, *a):
            pass

        def connect(self, url):
            pass

        def send(self, b):
            self.sent = b
            seen["parsed"] = client.parse_request(b)
            seen["resp"] = gen_response(seen["parsed"])
            self.reply = client.serialize_response(seen["resp"])

        def poll(self, *a, **k):
            return 1

        def recv(self):
            return self.reply

    class FakeCtx:
        def socket(self, kind):
            return FakeSock()

    import threading
    real_local = threading.local
    seen = {}

    class L:  # threading.local() replacement carrying our context
        context = FakeCtx()

    n = ctx.n(120, 3000)
    client.threading = type("T", (), {"local": staticmethod(lambda: L)})
    try:
        for i in range(n):
            req = gen_request()
            res.evaluations += 1
            res.count("gateway:" + type(req).__name__)
            case = {"part": "gateway", "request": repr(req)[:1500]}
            seen.clear()
            outside = has_big_int(req)
            if outside:
                res.count("gateway:integer-outside-64-bit")
            try:
                got = client.request_response(req, "fake://")
                ok = seen["parsed"] == req and plain(seen["parsed"]) == plain(req) and got == seen["resp"] and plain(got) == plain(seen["resp"])
                what = f"server parsed {seen.get('parsed')!r}, client got {got!r} for response {seen.get('resp')!r}"
            except Exception as e:
                # a value outside the admitted domain may be refused when encoding (nothing was sent yet), never altered
                ok, what = (outside and "parsed" not in seen), f"request_response raised {e!r}"
                if ok:
                    res.count("gateway:refused-at-encoding")
            if not ok:
                res.fail("gateway-envelope-roundtrip", what[:600], case)
            res.nontrivial_keys.add(("gw", repr(req)[:200]))
            if i == 0:
                res.samples.append(case)
    finally:
        client.threading = threading


def jobinstance_file_roundtrip(ji):
    """the job instance as the gateway hands it to a local job (router._spawn_local writes /tmp/<job_id>.json, the
    process launch is stubbed) and as the benchmark entrypoint reads it (benchmarks.__main__.get_job).  Falls back to
    the two library calls those functions make when either of them is no longer there under that name."""
    import os
    import orjson
    from cascade.low.core import JobInstance
    try:
        import cascade.gateway.router as router
        import cascade.gateway.api as gapi
        from cascade.benchmarks.__main__ import get_job
        spawn = router._spawn_local
    except Exception:
        return JobInstance(**orjson.loads(orjson.dumps(ji.dict()))), "library-calls"
    job_id = f"verif-c17-{os.getpid()}"
    path = f"/tmp/{job_id}.json"
    launched = []
    real_popen = router.subprocess.Popen
    router.subprocess.Popen = lambda *a, **k: launched.append(a)
    try:
        spec = gapi.JobSpec(benchmark_name=None, envvars={}, job_instance=ji, workers_per_host=1, hosts=1, use_slurm=False)
        spawn(spec, "tcp://none:0", job_id)
        args = [str(x) for x in launched[0][0]] if launched else []
        if "--instance" in args:
            path = args[args.index("--instance") + 1]
        return get_job(None, path), "gateway-writer+entrypoint-reader"
    finally:
        router.subprocess.Popen = real_popen
        try:
            os.unlink(path)
        except OSError:
            pass


class _Wire:
    """in-process stand-in for the zmq transport, swapped in at the level of the zmq module (zmq.Context / zmq.Poller and
    every name a loaded cascade.* module has bound to them), so the real comms.send_data / callback / Listener run
    unchanged whatever helper they open their sockets through: a PUSH socket puts whole multipart messages into the
    queue of the address it is connected to, a PULL socket reads the queue of the address it is bound to"""
    def __init__(self):
        import collections
        self.queues = collections.defaultdict(collections.deque)
        wire = self

        class Sock:
            def __init__(self, kind):
                self.kind, self.addr, self.parts = kind, None, []

            def set(self, *a, **k):
                pass
            setsockopt = set

            def connect(self, addr, *a, **k):
                self.addr = addr

            def bind(self, addr, *a, **k):
                self.addr = addr

            def send(self, data, flags=0, *a, **k):
                self.parts.append(bytes(data))
                if not (flags & 2):        # zmq.SNDMORE
                    wire.queues[self.addr].append(self.parts)
                    self.parts = []

            def send_multipart(self, msg_parts, flags=0, *a, **k):
                msg_parts = list(msg_parts)
                for i, part in enumerate(msg_parts):
                    self.send(part, flags | (2 if i + 1 < len(msg_parts) else 0))

            def recv_multipart(self, *a, **k):
                return list(wire.queues[self.addr].popleft())

            def recv(self, *a, **k):
                return self.recv_multipart()[0]

            def close(self, *a, **k):
                pass

        class Context:
            def __init__(self, *a, **k):
                pass

            @classmethod
            def instance(cls, *a, **k):
                return cls()

            def socket(self, kind, *a, **k):
                return Sock(kind)

            def term(self, *a, **k):
                pass
            destroy = term

        class Poller:
            def __init__(self, *a, **k):
                self.socks = []

            def register(self, sock, *a, **k):
                self.socks.append(sock)

            def unregister(self, sock):
                self.socks.remove(sock)

            def poll(self, timeout=None):
                return [(sk, 1) for sk in self.socks if wire.queues[sk.addr]]
        self.Context, self.Poller = Context, Poller

    def __enter__(self):
        import sys
        import zmq
        self.saved = []
        for name, fake in (("Context", self.Context), ("Poller", self.Poller)):
            real = getattr(zmq, name)
            self.saved.append((zmq, name, real))
            setattr(zmq, name, fake)
            for mn, mod in list(sys.modules.items()):
                if mn.startswith("cascade") and mod is not None:
                    for an, av in list(vars(mod).items()):
                        if av is real:
                            self.saved.append((mod, an, real))
                            setattr(mod, an, fake)
        return self

    def __exit__(self, *exc):
        for mod, name, real in reversed(self.saved):
            setattr(mod, name, real)


PAYLOAD_MAGIC = [b"\x78\x9c", b"\x78\x01", b"\x78\xda", b"\x1f\x8b\x08", b"BZh9", b"\xfd7zXZ\x00", b"\x28\xb5\x2f\xfd", b"\x80\x04", b"\x80\x05\x95",
                 b"PK\x03\x04", b"\x89HDF", b"GRIB", b"\x93NUMPY", b"\x00", b"\xff\xff"]


def wire_value(recipe):
    import zlib
    k = recipe["kind"]
    if k == "zlib":
        return zlib.compress(bytes.fromhex(recipe["raw_hex"]), recipe["level"])
    if k == "repeat":
        unit = bytes.fromhex(recipe["hex"])
        return (unit * (recipe["len"] // len(unit) + 8))[:recipe["len"]]
    if k == "zlib-of-z":
        return zlib.compress(b"z" * recipe["len"])
    return bytes.fromhex(recipe["hex"])


def wire_part(ctx, res):
    """payload frames end to end: the real comms.send_data puts [Syn, header, value] on the (fake) wire, the real
    Listener.recv_messages hands the payload to the application; header and value bytes must come out as they went in,
    whatever the value looks like (outputs of serdes that compress, pickles, empty, sizes around powers of two)"""
    import zlib
    import cascade.executor.comms as comms
    import cascade.executor.msg as msg
    from cascade.low.core import DatasetId
    rng = ctx.sub_rng("wire")

    def value():
        k = rng.randrange(8)
        if k == 0:
            raw = bytes(rng.randrange(256) for _ in range(rng.choice([0, 2, 100, 5000])))
            return {"kind": "zlib", "raw_hex": raw.hex(), "level": rng.choice([1, 6, 9])}
        if k == 1:
            return {"kind": "bytes", "hex": (rng.choice(PAYLOAD_MAGIC) + bytes(rng.randrange(256) for _ in range(rng.choice([0, 1, 9, 200])))).hex()}
        if k == 2:
            return {"kind": "bytes", "hex": ""}
        if k == 3:
            return {"kind": "repeat", "hex": rng.choice(PAYLOAD_MAGIC + [b"ab"]).hex(), "len": rng.choice([2**16, 2**20, 2**21]) + rng.choice([-1, 0, 1])}
        if k == 4:
            return {"kind": "zlib-of-z", "len": rng.choice([2**20, 3 * 2**20])}
        return {"kind": "bytes", "hex": bytes(rng.randrange(256) for _ in range(rng.choice([1, 7, 300, 4096, 70000]))).hex()}
    with _Wire():
        addr, back = "inproc://c17-wire", "inproc://c17-back"
        listener = comms.Listener(addr)
        for i in range(ctx.n(150, 3000)):
            recipe = value()
            v = wire_value(recipe)
            hdr = msg.DatasetTransmitPayloadHeader(confirm_address=back, confirm_idx=i, ds=DatasetId(rand_ascii(rng, 6), rand_ascii(rng, 3)), deser_fun=rng.choice(["cloudpickle.loads", "zlib.decompress", "x.y"]))
            payload = msg.DatasetTransmitPayload(header=hdr, value=v)
            res.evaluations += 1
            res.count("wire:payload:" + ("zlib-magic" if v[:1] == b"\x78" else "empty" if not v else ">=1MiB" if len(v) >= 2**20 else "other"))
            case = {"part": "wire", "value": recipe, "deser_fun": hdr.deser_fun, "value_len": len(v), "value_head_hex": v[:16].hex()}
            try:
                comms.send_data(addr, payload, msg.Syn(i, back))
                got = listener.recv_messages(0)
                ok = len(got) == 1 and type(got[0]) is msg.DatasetTransmitPayload and got[0].header == hdr and bytes(got[0].value) == v
                what = f"sent a payload of {len(v)} bytes starting {v[:8].hex()}, the listener delivered " + (f"{len(got)} messages" if len(got) != 1 else f"{type(got[0]).__name__} with {len(bytes(getattr(got[0], 'value', b'')))} bytes starting {bytes(getattr(got[0], 'value', b''))[:8].hex()}, header equal: {getattr(got[0], 'header', None) == hdr}")
            except Exception as e:
                ok, what = False, f"payload of {len(v)} bytes starting {v[:8].hex()}: {e!r}"
            if not ok:
                res.fail("payload-frame-roundtrip", what, case)
            res.nontrivial_keys.add(("wire", len(v), v[:8]))


def pickle_part(ctx, res):
    """(d) executor messages, controller reports, JobInstance JSON: sampled round-trips"""
    import orjson
    import cascade.executor.msg as msg
    from cascade.controller import report
    from cascade.executor.serde import des_message, ser_message
    from cascade.low.core import DatasetId, JobInstance, Task2TaskEdge, TaskDefinition, TaskInstance, WorkerId
    rng = ctx.sub_rng("pickle")

    def rs():
        return rand_ascii(rng, 10) if rng.random() < 0.8 else rng.choice(["", "é€\U0001f600"])

    def ri():
        return rng.choice([0, 1, 2**31, 2**32, 2**40, 2**64, -1, rng.randrange(10**6)])

    def wid():
        return WorkerId(rs(), rs())

    def did():
        return DatasetId(rs(), rs())

    def by():
        return bytes(rng.randrange(256) for _ in range(rng.choice([0, 1, 7, 300])))

    gens = {
        "Syn": lambda: msg.Syn(ri(), rs()),
        "Ack": lambda: msg.Ack(ri()),
        "TaskSequence": lambda: msg.TaskSequence(wid(), [rs() for _ in range(rng.randrange(4))], {did() for _ in range(rng.randrange(4))}),
        "TaskFailure": lambda: msg.TaskFailure(wid(), rng.choice([None, rs()]), rs()),
        "DatasetPublished": lambda: msg.DatasetPublished(rng.choice([wid(), rs()]), did(), rng.choice([None, ri()])),
        "DatasetPurge": lambda: msg.DatasetPurge(did()),
        "DatasetTransmitCommand": lambda: msg.DatasetTransmitCommand(rs(), rs(), rs(), did(), ri()),
        "DatasetTransmitPayloadHeader": lambda: msg.DatasetTransmitPayloadHeader(rs(), ri(), did(), rs()),
        "DatasetTransmitPayload": lambda: msg.DatasetTransmitPayload(msg.DatasetTransmitPayloadHeader(rs(), ri(), did(), rs()), by()),
        "DatasetTransmitFailure": lambda: msg.DatasetTransmitFailure(rs(), rs()),
        "ExecutorFailure": lambda: msg.ExecutorFailure(rs(), rs()),
        "ExecutorExit": lambda: msg.ExecutorExit(rs()),
        "Worker": lambda: msg.Worker(wid(), ri(), ri(), ri()),
        "ExecutorRegistration": lambda: msg.ExecutorRegistration(rs(), rs(), rs(), [msg.Worker(wid(), ri(), ri(), ri()) for _ in range(rng.randrange(3))]),
        "ExecutorShutdown": lambda: msg.ExecutorShutdown(),
        "WorkerReady": lambda: msg.WorkerReady(wid()),
        "WorkerShutdown": lambda: msg.WorkerShutdown(),
    }
    # every dataclass of the module must have a generator: a new message class without one is a harness gap, reported
    for name, obj in vars(msg).items():
        if inspect.isclass(obj) and obj.__module__ == msg.__name__ and dataclasses.is_dataclass(obj) and name not in gens:
            res.disagree(f"cascade.executor.msg.{name} has no generator in harness/c17.py", {"class": name})
    n = ctx.n(12, 300)
    for name, g in gens.items():
        for i in range(n):
            m = g()
            res.evaluations += 1
            res.count("pickle:" + name)
            try:
                back = des_message(ser_message(m))
                ok = back == m and type(back) is type(m)
            except Exception as e:
                ok, back = False, repr(e)
            if not ok:
                res.fail("executor-message-roundtrip", f"des_message(ser_message({m!r})) gave {back!r}", {"part": "pickle", "class": name, "repr": repr(m)})
            res.nontrivial_keys.add(("pk", repr(m)[:200]))
    for i in range(ctx.n(60, 1500)):
        # every field at its edges: an optional string is None, empty, blank, or spells "None"; empty job id; empty,
        # one-byte and magic-prefixed result payloads; dataset ids with dots and non-ASCII; timestamps at 0 and 64-bit edges
        r = report.ControllerReport(rng.choice([rs(), rs(), ""]), rng.choice([None, "", " ", "None", "0.00", "99.99", "Shutdown", "é"]),
                                    rng.choice([0, 1, 2**63 - 1, 2**63, 2**64 - 1, rng.randrange(2**40)]),
                                    [(rng.choice([did(), DatasetId("a.b", "c.d"), DatasetId("", "")]), rng.choice([by(), b"", b"\x00", rng.choice(PAYLOAD_MAGIC) + by()])) for _ in range(rng.randrange(4))])
        res.evaluations += 1
        res.count("pickle:ControllerReport")
        try:
            back = report.deserialize(report.serialize(r))
            ok = back == r and plain(back) == plain(r)
        except Exception as e:
            ok, back = False, repr(e)
        if not ok:
            res.fail("controller-report-roundtrip", f"deserialize(serialize({r!r})) gave {back!r}", {"part": "report", "repr": repr(r)})
        res.nontrivial_keys.add(("rep", repr(r)[:200]))
    # JobInstance written as the gateway writes it and read as the benchmark entrypoint reads it
    for i in range(ctx.n(60, 1500)):
        nt = rng.randrange(1, 5)
        tasks = {}
        for k in range(nt):
            outs = {str(j): rng.choice(["int", "str"]) for j in range(rng.choice([1, 2, 3, 12]))}
            d = TaskDefinition(entrypoint=rs(), func=rng.choice([None, TaskDefinition.func_enc(max)]), environment=[rs() for _ in range(rng.randrange(3))],
                               input_schema={rs(): "int" for _ in range(rng.randrange(3))}, output_schema=outs, needs_gpu=rng.random() < 0.3)
            big = rng.random() < 0.3
            tasks[f"t{k}"] = TaskInstance(definition=d, static_input_kw={rs(): rng.choice([1, "x", None, [1, [2]], {"a": 1.5}, True] + ([rng.choice(BIG_INTS), [[rng.choice(BIG_INTS)]]] if big else []))
                                                                         for _ in range(rng.randrange(3))},
                                          static_input_ps={str(j): rng.choice([0, "s", 2**40, None, -3, 2**64 - 1] + (BIG_INTS if big else [])) for j in range(rng.randrange(3))})
        names = list(tasks)
        edges = []
        for _ in range(rng.randrange(6)):
            s, t = rng.choice(names), rng.choice(names)
            out = rng.choice(list(tasks[s].definition.output_schema))
            kw = rng.random() < 0.5
            edges.append(Task2TaskEdge(source=DatasetId(s, out), sink_task=t, sink_input_kw=rs() if kw else None, sink_input_ps=None if kw else rng.randrange(5)))
        ji = JobInstance(tasks=tasks, edges=edges, ext_outputs=[DatasetId(x, "0") for x in names if rng.random() < 0.5],
                         serdes={rs(): (rs(), rs())} if rng.random() < 0.3 else {})
        res.evaluations += 1
        res.count("json:JobInstance")
        outside = has_big_int(ji)
        wrote = False
        try:
            back, how = jobinstance_file_roundtrip(ji)
            wrote = True
            res.count("json:JobInstance:" + how)
            ok = back == ji and plain(back) == plain(ji)
        except Exception as e:
            ok, back = (outside and not wrote), repr(e)      # refused when encoding: admitted for values outside the domain
        if not ok:
            res.fail("jobinstance-json-roundtrip", f"job instance written by the gateway and read by the benchmark entrypoint differs: {str(back)[:300]}", {"part": "jobinstance", "repr": repr(ji)[:1500]})
        res.nontrivial_keys.add(("ji", repr(ji)[:300]))


def run(ctx, res):
    res.rule = ("per shm message class: random in-domain instances (ASCII strings of length 0..200, sizes at the 2^32/2^64 edges) and 1-in-5 out-of-domain ones; "
                "byte-exact ser and deser (incl. truncated/flipped encodings) compared with the Coq model evaluated on the regenerated table; "
                "gateway envelope through real request_response/parse_request/serialize_response; pickle/orjson round-trips of every executor message class, "
                "ControllerReport and JobInstance. distinct = distinct (class, encoding) or distinct repr")
    shm_part(ctx, res)
    envelope_part(ctx, res)
    wire_part(ctx, res)
    pickle_part(ctx, res)


def search(ctx, res):
    """enlarged search after a broken proof / correspondence: many more shm messages"""
    from common import Result
    r2 = Result()
    ctx2 = type(ctx)(ctx.pid, "thorough", ctx.seed + 1)
    import cascade.shm.api as api
    rng = ctx2.sub_rng("search")
    for cls in shm_classes(api):
        for k in range(4000):
            m = make(rng, cls, False)
            try:
                b = api.ser(m)
                ok = same(api.deser(b), m)
                what = f"api.deser(api.ser({m!r})) != original"
            except Exception as e:
                ok = not in_domain(m)
                what = f"api.ser/deser({m!r}) raised {e!r}"
            if not ok:
                return {"signature": "shm-roundtrip", "what": what, "case": {"part": "shm", "cls": cls.__name__, "repr": repr(m)}}
    return None


def replay(ctx, case):
    import cascade.shm.api as api
    c = case.get("case", case)
    if c.get("part") == "shm" and "fields" in c:
        cls = getattr(api, c["cls"])
        kw = dict(c["fields"])
        for f in (dataclasses.fields(cls) if dataclasses.is_dataclass(cls) else []):
            if inspect.isclass(f.type) and issubclass(f.type, enum.Enum):
                kw[f.name] = f.type(kw[f.name])
        m = cls(**kw)
        try:
            back = api.deser(api.ser(m))
            return {"fails": not same(back, m), "got": repr(back)}
        except Exception as e:
            return {"fails": in_domain(m), "raised": repr(e)}
    if c.get("part") == "wire" and "value" in c:
        import cascade.executor.comms as comms
        import cascade.executor.msg as msg
        from cascade.low.core import DatasetId
        v = wire_value(c["value"])
        with _Wire():
            listener = comms.Listener("inproc://c17-wire")
            hdr = msg.DatasetTransmitPayloadHeader(confirm_address="inproc://c17-back", confirm_idx=0, ds=DatasetId("t", "o"), deser_fun=c.get("deser_fun", "x.y"))
            try:
                comms.send_data("inproc://c17-wire", msg.DatasetTransmitPayload(header=hdr, value=v), msg.Syn(0, "inproc://c17-back"))
                got = listener.recv_messages(0)
                ok = len(got) == 1 and getattr(got[0], "header", None) == hdr and bytes(got[0].value) == v
                return {"fails": not ok, "delivered": [type(g).__name__ for g in got], "value_len_out": len(bytes(getattr(got[0], "value", b""))) if got else None}
            except Exception as e:
                return {"fails": True, "raised": repr(e)}
    return {"fails": None, "note": "replay by re-running ./check C17 with the recorded seed"}
