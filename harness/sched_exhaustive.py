"""Exhaustive small-scope enumeration of jobs x clusters for the scheduler family (thorough tier):
every DAG with <= 3 tasks (1-2 outputs each, <= 2 inputs per task drawn from all earlier outputs,
multi-edges included), 4 cluster shapes, 3 requested-output choices."""
import itertools


def specs(max_tasks=3):
    clusters = [[(0,)], [(0,), (0,)], [(0,), (1,)], [(0,), (0,), (1,), (1,)]]
    for n in range(1, max_tasks + 1):
        for nouts in itertools.product([1, 2], repeat=n):
            def ins_choices(k):
                outs = [(s, o) for s in range(k) for o in range(nouts[s])]
                ch = [[]]
                ch += [[d] for d in outs]
                ch += [list(p) for p in itertools.combinations_with_replacement(outs, 2)]
                return ch
            for ins in itertools.product(*[ins_choices(k) for k in range(n)]):
                tasks = [{"nout": nouts[k], "ins": [list(d) for d in ins[k]], "gpu": False, "none": [],
                          "onames": [f"o{o}" for o in range(nouts[k])][::-1] if k % 2 else [f"o{o}" for o in range(nouts[k])],
                          "static_kw": {}, "static_ps": {}} for k in range(n)]
                all_ds = [(k, o) for k in range(n) for o in range(nouts[k])]
                consumed = {tuple(d) for t in tasks for d in t["ins"]}
                for ext in ([], [d for d in all_ds if d not in consumed], all_ds):
                    for cl in clusters:
                        yield {"tasks": tasks, "workers": [{"host": h[0], "gpu": False} for h in cl], "ext": [list(d) for d in ext]}


def count(max_tasks=3):
    return sum(1 for _ in specs(max_tasks))
