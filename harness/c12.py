"""C12 -- serialising a graph and reading it back gives an equal graph.

Real code driven: earthkit.workflows.graph.{serialise,deserialise,to_json,from_json},
Graph.__eq__, Graph.nodes, Node/Output, Cascade.serialise/from_serialised, and graphs built
by generated fluent programs.  The property oracle does its own identity-based traversal
(it trusts neither Graph.nodes nor Graph.__eq__) and additionally demands `==` to say True.
Correspondence: the Gallina model (coq/theories/Graph/Export.v) is evaluated inside Coq on
the same graphs / dicts: exact serialised dict (with insertion order), exact result of
deserialise (sink order, nodes() order, every field) or exception type, the value of `==`
on equal and on perturbed pairs, and json.loads(json.dumps(.)) of the serialised dict.
Nothing in the generated graphs is sorted unless by accident: outputs (named, numbered past
ten, reversed, with duplicates), inputs (up to 13, numbered) and node names (numbered) come
in arbitrary order, and graphs go up to 30 nodes.
Sessions (Graph/ExportSession.v): several Cascade objects live in one directory and are
written repeatedly (same and different file names), extended in place (`+=`), united
(`+`), re-loaded from files, round-tripped in place (dict/JSON, several generations) and
their node objects mutated (payload, outputs, new sinks) between writes.  After every write
the file is read back and compared with the graph the object has NOW; at the end every file
is read again and compared with the graph its writer had at the last write of that name.
The model of the session (one attribute, `_graph`; a write stores serialise(_graph)) is run
in Coq on the observed operations and compared with dill.load of every file."""
import ast
import copy
import functools
import graphlib
import json
import math
import os
import re
import tempfile

from common import BUILD, cZ, cbool, clist, cnat, copt, coq_eval_file, cstr, load_findings

TRUSTED = [
    "harness/c12.py: identity-based numbering of Node objects in a topological order (Python object -> heap index), payload <-> pv conversion",
    "harness/c12.py sessions: the graph a Cascade object has after `+=`, `+`, a reload or a mutation of its nodes is read off the real object (own traversal) and handed to the model as the new value of `_graph`; deduplicate_nodes itself is C11's",
    "graphlib.TopologicalSorter, json, dill are outside the model: their contracts are Section hypotheses, validated per case (order checked topological in Coq; json/dill round-trips compared on every case)",
]
ASSUMPTIONS = [
    "graphlib: static_order returns a topological order of exactly the names that occur whenever one exists (Section hypotheses static_order_sound/complete); the order actually returned is read from the run and validated in Coq",
    "json.loads(json.dumps(d)) = jsonify d on serialised graphs (tuples become lists, payload p becomes jp p); dill.load(dill.dump(d)) = d (Section hypotheses json_roundtrip, dill_roundtrip)",
    "payloads: `!=` is modelled by peqb; theorem hypothesis: peqb (pser p) p = true for every payload (a payload without .serialise() that is equal to itself); JSON: peqb (jp (pser p)) p = true",
    "a Cascade object carries nothing but `_graph` from one call to the next (Graph/ExportSession.v: the state of the object is its graph; a write stores serialise(_graph), opened with 'wb'); checked on every session by comparing the model's directory with dill.load of every file",
    "graph objects are numbered topologically (an input points to a smaller index): every acyclic pointer graph has such a numbering; cyclic Node structures are outside the property",
    "input names that are parameter names of Node.__init__/the node factory (self, name, outputs, payload) cannot be passed to Node(...); graphs that obtain such an input by assigning to node.inputs are excluded by hypothesis kw_ok (C12_roundtrip_any_input_name_refuted shows they do not round-trip)",
]

HEADER = """From Coq Require Import List String Bool Arith ZArith.
From EKW Require Import Graph.GStore Graph.Export Graph.ExportCheck Graph.ExportSession Graph.ExportSessionCheck.
Import ListNotations.
Open Scope string_scope.
Open Scope list_scope.
"""

SIG_RESERVED = "input-named-like-node-constructor-parameter"
RESERVED = ("self", "name", "outputs", "payload")


# ----------------------------------------------------------------------------- payloads
class WithSer:
    """a payload with its own serialise(): deserialise() hands back the serialised form"""

    def __init__(self, inner):
        self.inner = inner

    def serialise(self):
        return self.inner

    def __eq__(self, other):
        return isinstance(other, WithSer) and self.inner == other.inner

    def __hash__(self):
        return hash(repr(self.inner))

    def __repr__(self):
        return f"WithSer({self.inner!r})"


def src_fn(a=1):  # importable callables for fluent programs (dill pickles them by reference)
    return a


def map_fn(x, a=1):
    return x


def pay_to_json(p):
    if p is None:
        return None
    if isinstance(p, bool):
        raise ValueError("bool payload")
    if isinstance(p, int):
        return {"i": p}
    if isinstance(p, str):
        return {"s": p}
    if isinstance(p, list):
        return {"l": [pay_to_json(x) for x in p]}
    if isinstance(p, tuple):
        return {"t": [pay_to_json(x) for x in p]}
    if isinstance(p, WithSer):
        return {"ser": pay_to_json(p.inner)}
    raise ValueError(f"payload outside the modelled domain: {p!r}")


def any_pay_to_json(p):
    """payloads of the modelled domain structurally, every other (literal) payload by its repr"""
    try:
        return pay_to_json(p)
    except ValueError:
        return {"py": repr(p)}


def pay_from_json(j):
    if j is None:
        return None
    if "py" in j:
        return ast.literal_eval(j["py"])
    if "i" in j:
        return j["i"]
    if "s" in j:
        return j["s"]
    if "l" in j:
        return [pay_from_json(x) for x in j["l"]]
    if "t" in j:
        return tuple(pay_from_json(x) for x in j["t"])
    return WithSer(pay_from_json(j["ser"]))


class Tokens:
    """opaque payloads (fluent: tuples holding callables) become PInt <index of equality class>"""

    def __init__(self):
        self.seen = []

    def tok(self, p):
        for i, q in enumerate(self.seen):
            try:
                if q is p or q == p:
                    return i
            except Exception:
                pass
        self.seen.append(p)
        return len(self.seen) - 1


def coq_pv(p, tokens=None):
    if tokens is not None:
        return f"PInt {cZ(1000 + tokens.tok(p))}"
    if isinstance(p, bool):
        raise ValueError("bool payload")
    if isinstance(p, int):
        return f"PInt {cZ(p)}"
    if isinstance(p, str):
        return f"PStr {cstr(p)}"
    if isinstance(p, (list, tuple)):
        return f"PSeq {cbool(isinstance(p, tuple))} " + clist([coq_pv(x) for x in p])
    if isinstance(p, WithSer):
        return f"PSer ({coq_pv(p.inner)})"
    raise ValueError(f"payload outside the modelled domain: {p!r}")


def copt_pv(p, tokens=None):
    return "None" if p is None else f"(Some ({coq_pv(p, tokens)}))"


def plain(p):
    """no .serialise() anywhere, equal to itself"""
    if p is None or isinstance(p, (int, str, bytes)):
        return True
    if isinstance(p, float):
        return not math.isnan(p)
    if isinstance(p, (list, tuple)):
        return all(plain(x) for x in p)
    if isinstance(p, dict):
        return all(plain(k) and plain(v) for k, v in p.items())
    return False


def modelled(p):
    """inside the payload type pv of Graph/ExportCheck.v (everything else is an opaque token)"""
    if p is None:
        return True
    if isinstance(p, bool):
        return False
    if isinstance(p, (int, str)):
        return True
    if isinstance(p, (list, tuple)):
        return all(x is not None and modelled(x) for x in p)
    if isinstance(p, WithSer):
        return p.inner is not None and modelled(p.inner)
    return False


def json_faithful(p):
    """json.loads(json.dumps(p)) is p again, types included"""
    if p is None or isinstance(p, (int, str)):      # bool is an int
        return True
    if isinstance(p, float):
        return math.isfinite(p)
    if isinstance(p, list):
        return all(json_faithful(x) for x in p)
    if isinstance(p, dict):
        return all(type(k) is str and json_faithful(v) for k, v in p.items())
    return False


def deep_same(a, b):
    """equal, and of the same types all the way down (True is not 1, a tuple is not a list)"""
    if a is b:
        return True
    if type(a) is not type(b):
        return False
    if isinstance(a, (list, tuple)):
        return len(a) == len(b) and all(deep_same(x, y) for x, y in zip(a, b))
    if isinstance(a, dict):
        if len(a) != len(b):
            return False
        for k, v in a.items():
            k2 = [kk for kk in b if type(kk) is type(k) and kk == k]
            if not k2 or not deep_same(v, b[k2[0]]):
                return False
        return True
    try:
        return bool(a == b) and not bool(a != b)
    except Exception:
        return False


# ----------------------------------------------------------------------------- specs -> real graphs
NAMES = ["a", "b", "a.b", "a.b.c", "ab", "0", "1", "data", "node_factory", "name", "payload", "outputs", "inputs", "class", "def", "None",
         "", " ", "reader", "reader-0", "process-1", "writer", "x y", "n\"q", "a'b", "self", "A", "a.0", "0.a", "sink", "source:1", "k\\n"]
INAMES = ["input", "input0", "input1", "x", "y", "data", "node_factory", "a.b", "class", "0", "", "kw", "in put", "factory", "cls", "args", "kwargs", "inputs", "src"]
OUTS = [None, None, None, [], ["0"], ["a", "b"], ["0", "x"], ["out.1", "out.2", "out.3"], ["a", "a"], ["", "0"], ["output0", "output1"], ["name"]]
# output names that are NOT in lexicographic order as declared, and pools to draw more from
OUTS_UNSORTED = [["mean", "std", "count"], ["b", "a"], ["x", "0"], ["z", "a", "m"], ["out.2", "out.10", "out.1"], ["b", "a", "b"], ["B", "a", "A", "b"],
                 ["1", "0"], ["0", "", " "], ["output1", "output0"], ["_", "Z", "z", "0"], ["payload", "outputs", "name", "inputs"]]
OUTNAMES = ["mean", "std", "count", "min", "max", "a", "b", "c", "A", "B", "z", "_x", "0", "1", "2", "10", "", "out.1", "out.2", "out.10", "x y", "name", "inputs",
            "outputs", "payload", "serialise", "output", "e'", "n\"q", "k\\n", "0.0", "-1"]


def gen_outputs(rng):
    k = rng.randrange(20)
    if k < 9:
        return rng.choice(OUTS)
    if k < 12:
        return list(rng.choice(OUTS_UNSORTED))
    if k < 15:                       # numbered, past ten: "output10" sorts before "output2"
        n = rng.choice([11, 12, 13, 14, 21])
        pre = rng.choice(["output", "output", "", "o", "out."])
        outs = [f"{pre}{i}" for i in range(n)]
        if rng.random() < 0.25:
            outs.reverse()
        return outs
    n = rng.choice([2, 3, 3, 4, 5, 7])   # any names, any order, now and then a duplicate
    outs = rng.sample(OUTNAMES, n)
    if rng.random() < 0.15:
        outs.append(outs[0])
    return outs


def gen_inames(rng):
    k = rng.randrange(12)
    if k < 9:
        return rng.sample(INAMES, rng.choice([1, 1, 2, 3]))
    if k < 11:                       # numbered inputs, past ten
        n = rng.choice([4, 11, 12, 13])
        pre = rng.choice(["input", "input", "arg", "x"])
        names = [f"{pre}{i}" for i in range(n)]
        if rng.random() < 0.4:
            rng.shuffle(names)
        return names
    return rng.sample(INAMES, rng.choice([5, 8]))


def gen_payload(rng, depth=0):
    k = rng.randrange(12)
    if k < 3:
        return None
    if k < 5:
        return rng.choice([0, 1, -1, 7, 2**40, -2**33, 2**70])
    if k < 7:
        return rng.choice(["", "p", "a.b", "0", "x y", "[1, 2]", "null"])
    if k >= 10 and depth == 0:       # sequences that are not in order, repeated elements, nesting
        return copy.deepcopy(rng.choice([[3, 1, 2], ["b", "a", "c"], (2, 1), [[2, 1], [1]], ["10", "9"], [1, 1, 0], ("z", ("y", "x")), [0, "0"], [[], [[]]]]))
    if depth < 2:
        xs = [gen_payload(rng, depth + 1) for _ in range(rng.randrange(3))]
        xs = [0 if x is None or isinstance(x, WithSer) else x for x in xs]
        return xs if k < 9 else tuple(xs)
    return 3


def gen_opaque_payload(rng):
    """payloads outside the value type of the model (opaque tokens there): the dict and file
    paths must hand them back equal and of the same types; JSON only the JSON-faithful ones"""
    return copy.deepcopy(rng.choice([True, False, 1.5, -0.0, 1e300, b"ab", b"", {"k": 1, "a": [1, 2]}, {"b": 1, "a": 2}, {1: "x", 0: "y"}, [None, 1], (None,),
                                     {"x": {"y": (1, 2)}}, [True, 1], [1.0, 1], {"t": True}, {}, {"z": None, "a": None}, (b"x", "x"), [{"b": [2, 1]}, {"a": 0}]]))


def gen_names(rng, n):
    k = rng.randrange(10)
    if k < 7 and n <= len(NAMES):
        return rng.sample(NAMES, n)
    pre = rng.choice(["node", "n", "process-", ""])       # numbered: "node10" sorts before "node2"
    names = [f"{pre}{i}" for i in range(n)]
    if k == 9:
        rng.shuffle(names)
    return names


def gen_spec(rng, flavour, sizes=(0, 1, 1, 2, 2, 3, 3, 4, 5, 6, 8, 11) * 2 + (16, 30)):
    """spec = {"nodes": [{"name","outputs","payload","inputs":[[iname, parent index, oname]]}], "sinks": [idx]}
    nodes are listed in creation order (parents first)."""
    n = rng.choice(sizes)
    names = gen_names(rng, n)
    if flavour == "dup-names" and n >= 2:
        names[rng.randrange(1, n)] = names[0]
    nodes = []
    for i in range(n):
        outs = gen_outputs(rng)
        if flavour == "fluent-like":
            outs = None
        ins = []
        cands = [j for j in range(i) if (nodes[j]["outputs"] is None or nodes[j]["outputs"])]
        if cands and rng.random() < 0.8:
            for iname in gen_inames(rng):
                j = rng.choice(cands) if rng.random() < 0.6 else cands[-1]
                po = nodes[j]["outputs"]
                oname = "0" if po is None else rng.choice(po)
                ins.append([iname, j, oname])
        pay = gen_payload(rng)
        if flavour == "payload-serialise" and rng.random() < 0.5:
            pay = WithSer(rng.choice([1, "s", [1, 2]]))
        if flavour == "opaque-payload" and rng.random() < 0.6:
            pay = gen_opaque_payload(rng)
        nodes.append({"name": names[i], "outputs": outs, "payload": pay, "inputs": ins})
    consumed = {j for nd in nodes for (_, j, _) in nd["inputs"]}
    terminal = [i for i in range(n) if i not in consumed]
    mode = rng.randrange(6)
    if mode <= 2:
        sinks = terminal
    elif mode == 3:
        sinks = terminal[::-1]
    elif mode == 4:
        sinks = [i for i in range(n) if rng.random() < 0.5]
    else:
        sinks = terminal + ([rng.randrange(n)] if n else [])
    if flavour == "reserved-input" and n >= 2:
        cand = [i for i in range(n) if nodes[i]["inputs"]]
        if cand:
            i = rng.choice(cand)
            _, j, o = nodes[i]["inputs"][0]
            nodes[i]["inputs"].append([rng.choice(RESERVED), j, o])   # injected after construction, see build_spec
    if flavour == "bogus-ref" and n >= 2:
        cand = [i for i in range(n) if nodes[i]["inputs"]]
        if cand:
            i = rng.choice(cand)
            nodes[i]["inputs"][-1][2] = rng.choice(["bogus", "0", "zz"])
    return {"nodes": nodes, "sinks": sinks}


def build_spec(spec):
    from earthkit.workflows.graph import Graph, Node
    from earthkit.workflows.graph.nodes import Output
    objs = []
    for nd in spec["nodes"]:
        kw, late = {}, []
        for iname, j, oname in nd["inputs"]:
            p = objs[j]
            if iname in RESERVED or oname not in p.outputs:
                late.append((iname, Output(p, oname)))     # only reachable by assigning to node.inputs
            else:
                kw[iname] = p if (oname == "0" and len(kw) % 2 == 0) else p.get_output(oname)
        if nd["outputs"] is None:
            o = Node(nd["name"], payload=nd["payload"], **kw)
        else:
            o = Node(nd["name"], list(nd["outputs"]), nd["payload"], **kw)
        for iname, out in late:
            o.inputs[iname] = out
        objs.append(o)
    return Graph([objs[i] for i in spec["sinks"]])


def spec_to_json(spec):
    return {"nodes": [{**nd, "payload": any_pay_to_json(nd["payload"])} for nd in spec["nodes"]], "sinks": list(spec["sinks"])}


def spec_from_json(j):
    return {"nodes": [{**nd, "payload": pay_from_json(nd["payload"])} for nd in j["nodes"]], "sinks": list(j["sinks"])}


# ----------------------------------------------------------------------------- own traversal (no Graph.nodes, no ==)
def topo_objects(g):
    """reachable Node objects, parents first, by identity.  None if cyclic."""
    order, state = [], {}
    for s in g.sinks:
        stack = [(s, iter([src.parent for src in s.inputs.values()]))] if id(s) not in state else []
        if stack:
            state[id(s)] = 1
        while stack:
            node, it = stack[-1]
            nxt = next(it, None)
            if nxt is None:
                stack.pop()
                state[id(node)] = 2
                order.append(node)
            elif id(nxt) not in state:
                state[id(nxt)] = 1
                stack.append((nxt, iter([src.parent for src in nxt.inputs.values()])))
            elif state[id(nxt)] == 1:
                return None
    return order


def canon(g):
    """name -> (outputs, {iname: (parent name, output name)}, payload); None on duplicate names"""
    out = {}
    for n in topo_objects(g):
        if n.name in out:
            return None
        out[n.name] = (list(n.outputs), {k: (s.parent.name, s.name) for k, s in n.inputs.items()}, n.payload)
    return out


def coq_graph(g, tokens=None):
    objs = topo_objects(g)
    idx = {id(o): i for i, o in enumerate(objs)}
    nodes = []
    for o in objs:
        ins = clist([f"({cstr(k)}, ({cnat(idx[id(s.parent)])}, {cstr(s.name)}))" for k, s in o.inputs.items()])
        nodes.append(f"mkNode {cstr(o.name)} {clist(o.outputs, cstr)} {copt_pv(o.payload, tokens)} {ins}")
    return f"(@mkGraph pv {clist(nodes)} {clist([cnat(idx[id(s)]) for s in g.sinks])})"


def coq_src(s):
    if isinstance(s, str):
        return f"SBare {cstr(s)}"
    if isinstance(s, (tuple, list)) and len(s) == 2:
        return f"SPair {cbool(isinstance(s, tuple))} {cstr(s[0])} {cstr(s[1])}"
    raise ValueError(f"serialised source outside the modelled shape: {s!r}")


def coq_sgraph(d, tokens=None):
    items = []
    for name, nd in d.items():
        outs = copt(nd.get("outputs"), lambda o: clist(o, cstr)) if "outputs" in nd else "None"
        ins = ("(Some " + clist([f"({cstr(k)}, {coq_src(s)})" for k, s in nd["inputs"].items()]) + ")") if "inputs" in nd else "None"
        items.append(f"({cstr(name)}, mkS {outs} {ins} {copt_pv(nd.get('payload'), tokens)})")
    return f"({clist(items)} : sgraph pv)"


def coq_views(g, tokens=None):
    vs = []
    for n in g.nodes():
        ins = clist([f"({cstr(k)}, ({cstr(s.parent.name)}, {cstr(s.name)}))" for k, s in n.inputs.items()])
        vs.append(f"mkV {cstr(n.name)} {clist(n.outputs, cstr)} {copt_pv(n.payload, tokens)} {ins}")
    return f"({clist([s.name for s in g.sinks], cstr)}, ({clist(vs)} : list (vnode pv)))"


def py_order(d):
    """graphlib on the dependency dict exactly as deserialise builds it"""
    deps = {name: [inp if isinstance(inp, str) else inp[0] for inp in nd.get("inputs", {}).values()] for name, nd in d.items()}
    try:
        return list(graphlib.TopologicalSorter(deps).static_order())
    except graphlib.CycleError:
        return None


def deser_case(d, tokens=None, check_creation=None):
    """run the real deserialise on dict d; returns the Coq case term and the resulting graph (or None)"""
    from earthkit.workflows.graph import deserialise
    from earthkit.workflows.graph.export import default_node_factory
    order = py_order(d)
    created = []

    def recording(name, outputs, payload, **inputs):
        created.append(name)
        return default_node_factory(name, outputs, payload, **inputs)
    try:
        g2 = deserialise(d)
        exp = f"d_ok {coq_views(g2, tokens)}"
    except Exception as e:
        g2, exp = None, f"d_err {cstr(type(e).__name__)}"
    try:
        deserialise(d, node_factory=recording)
    except Exception:
        pass
    if check_creation is not None and order is not None and created != order[:len(created)]:
        check_creation.append((created, order))
    return f"({coq_sgraph(d, tokens)}, {copt(order, lambda o: clist(o, cstr))}, {exp})", g2


# ----------------------------------------------------------------------------- property oracle
def same_canon(c2, c1):
    """canonical form c2 (what came back) against c1 (what was there): nothing lost, nothing changed"""
    if c2 is None:
        return "result has duplicate names"
    if set(c1) != set(c2):
        return f"nodes lost={sorted(set(c1) - set(c2))[:4]} extra={sorted(set(c2) - set(c1))[:4]}"
    for name in c1:
        o1, i1, p1 = c1[name]
        o2, i2, p2 = c2[name]
        if o1 != o2:
            return f"outputs of {name!r} differ: {o2} vs {o1}"[:300]
        if i1 != i2:
            return f"inputs of {name!r} differ: {i2} vs {i1}"[:300]
        if p1 is not p2 and (p1 != p2 or type(p1) is not type(p2) or not deep_same(p1, p2)):
            return f"payload of {name!r} differs: {p2!r} vs {p1!r}"[:300]
    return None


def same_as(g2, g):
    """nothing lost, nothing changed: own traversal of both graphs"""
    return same_canon(canon(g2), canon(g))


def kind_of(why):
    return "nodes-lost" if why.startswith("nodes lost") else "nodes-differ"


def roundtrips(g, faithful_json=True, with_file=True):
    """yields (path, problem-or-None, kind)"""
    from earthkit.workflows import Cascade
    from earthkit.workflows.graph import deserialise, from_json, serialise, to_json
    paths = [("dict", lambda: deserialise(serialise(g)))]
    if faithful_json:
        paths.append(("json", lambda: from_json(to_json(g))))
    if with_file:
        def via_file():
            with tempfile.TemporaryDirectory(prefix="c12-") as d:
                f = os.path.join(d, "graph.dill")
                Cascade(g).serialise(f)
                return Cascade.from_serialised(f)._graph
        paths.append(("file", via_file))
    for path, fn in paths:
        try:
            g2 = fn()
        except Exception as e:
            yield path, f"raised {type(e).__name__}: {e}"[:300], "raises-" + type(e).__name__
            continue
        why = same_as(g2, g)
        if why:
            yield path, why, kind_of(why)
            continue
        if (g2 == g) is not True or (g == g2) is not True:
            yield path, "result has the same nodes, outputs, inputs and payloads but == is False", "eq-false"
            continue
        yield path, None, None


def classify(spec_or_desc, g, res, case, faithful_json=True, reserved=False, listed=()):
    bad = None
    for path, why, kind in roundtrips(g, faithful_json):
        res.evaluations += 1
        if why is None:
            continue
        if reserved and kind == "raises-TypeError":
            res.count("known-signature:" + SIG_RESERVED)
            if SIG_RESERVED in listed:
                res.fail(SIG_RESERVED, f"{path}: {why}", case)
            continue
        bad = bad or (f"{path}-roundtrip-{kind}", f"{path} path: {why}")
        res.fail(bad[0], bad[1], {**case, "path": path})
    return bad


def domain_of(spec):
    names = [nd["name"] for nd in spec["nodes"]]
    return {
        "plain": all(plain(nd["payload"]) for nd in spec["nodes"]),
        "json": all(json_faithful(nd["payload"]) for nd in spec["nodes"]),
        "modelled": all(modelled(nd["payload"]) for nd in spec["nodes"]),
    }


# ----------------------------------------------------------------------------- perturbations for ==
def perturb(rng, spec):
    """a spec that differs from `spec` in exactly one observable respect (or None)"""
    import copy
    s = copy.deepcopy(spec)
    if not s["nodes"]:
        s["nodes"].append({"name": "extra", "outputs": None, "payload": None, "inputs": []})
        s["sinks"] = [0]
        return s, "extra-node"
    i = rng.randrange(len(s["nodes"]))
    nd = s["nodes"][i]
    k = rng.randrange(7)
    if k == 0:
        nd["payload"] = 12345 if nd["payload"] != 12345 else None
        return s, "payload"
    if k == 1:
        nd["payload"] = list(nd["payload"]) if isinstance(nd["payload"], tuple) else ((nd["payload"],) if nd["payload"] is not None else "was-none")
        return s, "payload-type"
    if k == 2 and nd["inputs"]:
        nd["inputs"][0][0] = nd["inputs"][0][0] + "_"
        if len({x[0] for x in nd["inputs"]}) == len(nd["inputs"]):
            return s, "input-name"
    if k == 3 and nd["inputs"]:
        iname, j, o = nd["inputs"][-1]
        alts = [(jj, oo) for jj in range(i) for oo in (s["nodes"][jj]["outputs"] if s["nodes"][jj]["outputs"] is not None else ["0"]) if (jj, oo) != (j, o)
                and (s["nodes"][jj]["name"], oo) != (s["nodes"][j]["name"], o)]
        if alts:
            nd["inputs"][-1][1], nd["inputs"][-1][2] = rng.choice(alts)
            return s, "input-source"
    if k == 4 and not any(x[1] == i for n2 in s["nodes"] for x in n2["inputs"]):
        nd["outputs"] = (nd["outputs"] or ["0"]) + ["more"] if nd["outputs"] != [] else ["z"]
        return s, "outputs"
    if k == 5 and nd["inputs"]:
        nd["inputs"] = nd["inputs"][::-1]
        return s, "input-order(still equal)"
    if k == 6 and nd["inputs"] and len(nd["inputs"]) > 1:
        nd["inputs"].pop()
        return s, "input-dropped"
    nd["name"] = nd["name"] + "~"
    return s, "name"


# ----------------------------------------------------------------------------- malformed dicts
def mutate_dict(rng, d):
    import copy
    d = copy.deepcopy(d)
    names = list(d)
    if not names:
        return {"lonely": {}}, "bare-node"
    n = rng.choice(names)
    k = rng.randrange(8)
    if k == 0:
        d[n].pop("inputs", None)
        return d, "no-inputs-key"
    if k == 1:
        d[n].pop("outputs", None)
        return d, "no-outputs-key"
    if k == 2:
        d[n].setdefault("inputs", {})["ghost"] = "no-such-node"
        return d, "unknown-parent"
    if k == 3:
        d[n].setdefault("inputs", {})["o"] = (rng.choice(names), "no-such-output")
        return d, "unknown-output"
    if k == 4:
        d[n].setdefault("inputs", {})["loop"] = n
        return d, "self-loop"
    if k == 5 and len(names) > 1:
        a, b = rng.sample(names, 2)
        d[a].setdefault("inputs", {})["c1"] = b
        d[b].setdefault("inputs", {})["c2"] = (a, "0")
        return d, "cycle"
    if k == 6:
        d[n].setdefault("inputs", {})[rng.choice(RESERVED + ("data", "node_factory"))] = rng.choice(names)
        return d, "parameter-named-input"
    d[n]["outputs"] = []
    return d, "outputs-emptied"


# ----------------------------------------------------------------------------- fluent programs
def build_fluent(desc):
    return build_fluent_action(desc).graph()


def build_fluent_action(desc):
    import numpy as np
    from earthkit.workflows.fluent import Payload, from_source
    shape = desc["shape"]
    if len(shape) == 1:
        arr = np.fromiter([functools.partial(src_fn, i) for i in range(shape[0])], dtype=object)
        act = from_source(arr, dims=["x"])
    else:
        arr = [np.fromiter([functools.partial(src_fn, i * 10 + j) for j in range(shape[1])], dtype=object) for i in range(shape[0])]
        act = from_source(arr, dims=["x", "y"])
    for op in desc["ops"]:
        k = op[0]
        if k in ("mean", "min", "max", "sum", "std", "prod"):
            act = getattr(act, k)(op[1])
        elif k == "map":
            act = act.map(Payload(map_fn, kwargs={"a": op[1]}))
        elif k == "expand":
            act = act.expand("z", internal_dim=1, dim_size=op[1], axis=0)
        elif k == "add":
            act = act.add(op[1])
        elif k == "flatten":
            act = act.flatten()
        elif k == "join":
            act = act.join(act.map(Payload(map_fn, kwargs={"a": op[1]})), "w")
    return act


def gen_fluent(rng):
    shape = rng.choice([[1], [2], [3], [2, 2], [2, 3], [3, 2], [1, 4]])
    dims = ["x"] if len(shape) == 1 else ["x", "y"]
    ops = []
    for _ in range(rng.randrange(0, 4)):
        k = rng.choice(["mean", "min", "max", "sum", "map", "map", "expand", "add", "flatten", "join", "std", "prod"])
        if k in ("mean", "min", "max", "sum", "std", "prod"):
            ops.append([k, rng.choice(dims)])
        elif k in ("map", "add", "join"):
            ops.append([k, rng.randrange(1, 4)])
        elif k == "expand":
            ops.append([k, rng.choice([1, 2, 3])])
        else:
            ops.append([k])
    return {"shape": shape, "ops": ops}


# ----------------------------------------------------------------------------- sessions on Cascade objects
SIG_SESSION = "session-{path}-roundtrip-{kind}"


def prefix_spec(spec, pre):
    s = copy.deepcopy(spec)
    for nd in s["nodes"]:
        nd["name"] = pre + nd["name"]
    return s


def extend_spec(rng, spec, tag):
    """the same graph with a few more nodes on top: shares every old node with `spec`"""
    s = copy.deepcopy(spec)
    for k in range(rng.choice([1, 2, 3])):
        cands = [j for j, nd in enumerate(s["nodes"]) if nd["outputs"] is None or nd["outputs"]]
        ins = []
        if cands:
            for iname in gen_inames(rng)[:3]:
                j = rng.choice(cands)
                po = s["nodes"][j]["outputs"]
                ins.append([iname, j, "0" if po is None else rng.choice(po)])
        s["nodes"].append({"name": f"{tag}more{k}", "outputs": gen_outputs(rng), "payload": gen_payload(rng), "inputs": ins})
    consumed = {j for nd in s["nodes"] for (_, j, _) in nd["inputs"]}
    s["sinks"] = [i for i in range(len(s["nodes"])) if i not in consumed]
    return s


SESSION_SIZES = (1, 2, 2, 3, 3, 4, 5, 6, 8, 12)


def gen_session(rng, fluent=False):
    """{"fluent": bool, "steps": [...]}; objects are called o0, o1, ...; steps naming an object or
    a file that does not exist (after shrinking) are skipped by the executor:
      ["new", o, spec] ["newf", o, [desc, ...]] ["write", o, file] ["iadd", o, o2] ["add", o_new, o, o2]
      ["load", o_new, file] ["reload", o, "dict"|"json"] ["mutate", o, kind, k, arg]"""
    steps, objs, files = [], [], []

    def fresh():
        objs.append(f"o{len(objs)}")
        return objs[-1]
    if fluent:
        descs = []
        for _ in range(rng.choice([2, 3])):
            d = gen_fluent(rng)
            if descs and rng.random() < 0.6:        # a longer program over the same sources: shares nodes
                d = {"shape": descs[0]["shape"], "ops": descs[0]["ops"] + gen_fluent(rng)["ops"][:2] + [["mean", "x"]]}
            descs.append(d)
            steps.append(["newf", fresh(), [d] if rng.random() < 0.7 else [d, gen_fluent(rng)]])
    else:
        specs = []
        for k in range(rng.choice([2, 2, 3, 4])):
            r = rng.random()
            if specs and r < 0.3:
                sp = extend_spec(rng, rng.choice(specs), f"g{k}/")
            elif specs and r < 0.4:
                sp = copy.deepcopy(rng.choice(specs))                         # an equal graph built again
            else:
                sp = gen_spec(rng, rng.choice(["plain", "plain", "fluent-like"]), SESSION_SIZES)
                if rng.random() < 0.85:
                    sp = prefix_spec(sp, f"g{k}/")                            # else names may clash with another graph
            specs.append(sp)
            steps.append(["new", fresh(), spec_to_json(sp)])

    def write(o):
        f = f"{o}-{rng.randrange(3)}.dill"
        files.append(f)
        steps.append(["write", o, f])

    def grow(o):
        r = rng.random()
        others = [x for x in objs if x != o] or objs
        if r < 0.6:
            steps.append(["iadd", o, rng.choice(others)])
        elif r < 0.7:
            steps.append(["iadd", o, o])
        elif fluent:
            steps.append(["iadd", o, rng.choice(others)])
        else:
            kind = rng.choice(["payload", "payload", "add-sink", "append-output", "reverse-outputs", "graph-iadd", "swap-inputs"])
            arg = pay_to_json(gen_payload(rng)) if kind == "payload" else (rng.choice(others) if kind == "graph-iadd" else rng.choice(OUTNAMES))
            steps.append(["mutate", o, kind, rng.randrange(64), arg])
    # the backbone: one object is written, changed, and written again (same or another name)
    o = rng.choice(objs)
    if rng.random() < 0.8:
        write(o)
    for _ in range(rng.choice([1, 1, 2, 3])):
        grow(o)
        if rng.random() < 0.85:
            write(o)
    # and anything else around it
    for _ in range(rng.randrange(0, 7)):
        r = rng.random()
        o = rng.choice(objs)
        if r < 0.35:
            write(o)
        elif r < 0.6:
            grow(o)
        elif r < 0.7:
            steps.append(["add", fresh(), o, rng.choice(objs)])
        elif r < 0.8 and files:
            steps.append(["load", fresh(), rng.choice(files)])
        elif r < 0.9 and not fluent:
            steps.append(["reload", o, rng.choice(["dict", "json"])])
        else:
            write(o)
    k = rng.randrange(len(steps) + 1)          # sometimes interleave a late write of an early object
    if rng.random() < 0.3:
        steps.insert(k, ["write", objs[0], f"{objs[0]}-0.dill"])
    return {"fluent": fluent, "steps": steps}


def graph_domain(g, tokens):
    """(in the domain of the property?, JSON-faithful payloads?) for a live graph"""
    objs = topo_objects(g)
    if objs is None:
        return False, False
    names = [o.name for o in objs]
    if len(set(names)) != len(names):
        return False, False
    if not all(s.name in s.parent.outputs for o in objs for s in o.inputs.values()):
        return False, False
    if any(k in RESERVED for o in objs for k in o.inputs):
        return False, False
    if tokens is not None:
        return True, False
    return all(plain(o.payload) for o in objs), all(json_faithful(o.payload) for o in objs)


class SessionRun:
    """executes a session on real Cascade objects in a fresh directory"""

    def __init__(self, sess, with_model=True):
        self.sess = sess
        self.tokens = Tokens() if sess.get("fluent") else None
        self.failures = []        # (signature, what, step index)
        self.counts = {}
        self.evaluations = 0
        self.cases = []           # Coq terms for check_session, one per object that wrote
        self.with_model = with_model
        self.nontrivial = False

    def count(self, k):
        self.counts[k] = self.counts.get(k, 0) + 1

    def fail(self, path, kind, what, i):
        self.failures.append((SIG_SESSION.format(path=path, kind=kind), f"step {i} {self.sess['steps'][i][:3]}: {what}"[:400], i))

    def term(self, g):
        try:
            return coq_graph(g, self.tokens) if self.tokens is not None or all(modelled(o.payload) for o in topo_objects(g)) else None
        except Exception:
            return None

    def run(self):
        import warnings
        warnings.simplefilter("ignore")
        with tempfile.TemporaryDirectory(prefix="c12s-") as d:
            self.dir = d
            self._run()
        return self

    def _run(self):
        from earthkit.workflows import Cascade
        from earthkit.workflows.graph import deserialise, from_json, serialise, to_json
        import dill
        cas = {}          # object id -> Cascade
        model = {}        # object id -> {"g0": term, "ops": [terms], "last": term, "files": [names], "dead": bool, "err": str|None}
        written = {}      # file -> (canonical form of the writer's graph at the last write, in domain?)

        def born(o, c):
            cas[o] = c
            t = self.term(c._graph)
            model[o] = {"g0": t, "ops": [], "last": t, "files": [], "dead": t is None, "drop": t is None, "err": None}

        def path(f):
            return os.path.join(self.dir, f)
        def attempt(op, fn):
            """operations that build graphs (+, +=, de-duplication, loading) may refuse graphs outside the property"""
            try:
                return fn()
            except Exception as e:
                self.count("session-step-raised:" + op + ":" + type(e).__name__)
                return None
        for i, st in enumerate(self.sess["steps"]):
            op = st[0]
            if op == "new":
                born(st[1], Cascade(build_spec(spec_from_json(st[2]))))
            elif op == "newf":                    # programs the fluent API rejects are left out
                acts = [a for a in (attempt(op, lambda dd=dd: build_fluent_action(dd)) for dd in st[2]) if a is not None]
                c = attempt(op, lambda: Cascade.from_actions(acts)) if acts else None
                if c is not None:
                    born(st[1], c)
            elif op == "add" and st[2] in cas and st[3] in cas:
                c = attempt(op, lambda: cas[st[2]] + cas[st[3]])
                if c is not None:
                    born(st[1], c)
                    self.count("session-op:add")
            elif op == "load" and st[2] in written:
                c = attempt(op, lambda: Cascade.from_serialised(path(st[2])))
                if c is not None:
                    born(st[1], c)
                    self.count("session-op:load")
            elif op == "iadd" and st[1] in cas and st[2] in cas:
                def iadd():
                    c = cas[st[1]]
                    c += cas[st[2]]
                    return c
                c = attempt(op, iadd)
                if c is not None:
                    cas[st[1]] = c
                    self.count("session-op:iadd")
            elif op == "mutate" and st[1] in cas:
                self.mutate(cas, st)
            elif op == "reload" and st[1] in cas:
                c = cas[st[1]]
                g = c._graph
                ok, faithful = graph_domain(g, self.tokens)
                if st[2] == "json" and not faithful:
                    continue
                self.evaluations += 1
                try:
                    g2 = deserialise(serialise(g)) if st[2] == "dict" else from_json(to_json(g))
                except Exception as e:
                    if ok:
                        self.fail(st[2], "raises-" + type(e).__name__, f"raised {type(e).__name__}: {e}", i)
                    continue
                if ok:
                    why = same_as(g2, g)
                    if why:
                        self.fail(st[2], kind_of(why), why, i)
                    elif (g2 == g) is not True or (g == g2) is not True:
                        self.fail(st[2], "eq-false", "same nodes, outputs, inputs and payloads but == is False", i)
                c._graph = g2                     # the next generation lives on in the same object
                self.count("session-op:reload-" + st[2])
            elif op == "write" and st[1] in cas:
                self.write(cas, model, written, st, i, Cascade, path)
        # the end: every file against the graph its writer had at the last write of that name
        for f, (c1, ok) in written.items():
            if not ok:
                continue
            self.evaluations += 1
            try:
                g2 = Cascade.from_serialised(path(f))._graph
            except Exception as e:
                self.fail("file", "raises-" + type(e).__name__, f"reading {f} at the end raised {type(e).__name__}: {e}", len(self.sess["steps"]) - 1)
                continue
            why = same_canon(canon(g2), c1)
            if why:
                self.fail("file", kind_of(why), f"{f} read at the end, against the graph at its last write: {why}", len(self.sess["steps"]) - 1)
        # model: the directory as the model computes it against dill.load of every file
        if self.with_model:
            for o, m in model.items():
                if m["drop"] or not any(x.startswith("CWrite") for x in m["ops"]):
                    continue
                if m["err"] is not None:
                    exp = f"f_err {cstr(m['err'])}"
                else:
                    try:
                        items = []
                        for f in m["files"]:
                            with open(path(f), "rb") as fh:
                                items.append(f"({cstr(f)}, {coq_sgraph(dill.load(fh), self.tokens)})")
                        exp = f"f_ok {clist(items)}"
                    except Exception:
                        continue
                self.cases.append(f"({m['g0']}, {clist(m['ops'])}, {exp})")

    def mutate(self, cas, st):
        from earthkit.workflows.graph import Node
        _, o, kind, k, arg = st
        g = cas[o]._graph
        objs = topo_objects(g)
        if kind == "graph-iadd":
            if arg in cas:
                g += cas[arg]._graph            # Graph.__iadd__: the sink list grows in place, no de-duplication
                self.count("session-op:mutate-graph-iadd")
            return
        if not objs:
            return
        nd = objs[k % len(objs)]
        if kind == "payload":
            nd.payload = pay_from_json(arg)
        elif kind == "add-sink":
            if nd.outputs:
                g.sinks.append(Node(f"{o}/late{k}", payload=k, late=nd.get_output(nd.outputs[-1])))
        elif kind == "append-output":
            nd.outputs.append(arg)
        elif kind == "reverse-outputs":
            nd.outputs.reverse()
        elif kind == "swap-inputs":
            nd.inputs = dict(reversed(list(nd.inputs.items())))
        self.count("session-op:mutate-" + kind)

    def write(self, cas, model, written, st, i, Cascade, path):
        _, o, f = st
        c = cas[o]
        g = c._graph
        ok, _ = graph_domain(g, self.tokens)
        m = model[o]
        if not m["dead"]:
            t = self.term(g)
            if t is None:                         # a payload outside the model's value type: no model case for this object
                m["dead"] = m["drop"] = True
            else:
                if t != m["last"]:
                    m["ops"].append(f"CSet {t}")
                    m["last"] = t
                m["ops"].append(f"CWrite {cstr(f)}")
        self.evaluations += 1
        before = canon(g) if ok else None
        nprev = sum(1 for x in m["ops"] if x.startswith("CWrite")) if not m["dead"] else 0
        try:
            c.serialise(path(f))
        except Exception as e:
            if not m["dead"]:
                m["err"], m["dead"] = type(e).__name__, True
            if ok:
                self.fail("file", "raises-" + type(e).__name__, f"write raised {type(e).__name__}: {e}", i)
            else:
                self.count("session-write-outside-domain-raised:" + type(e).__name__)
            return
        if not m["dead"] and f not in m["files"]:
            m["files"].append(f)
        written[f] = (before, ok)
        self.count("session-op:write" + ("" if ok else "(outside-property-domain)"))
        if not ok:
            return
        if nprev >= 2 and any(x.startswith("CSet") for x in m["ops"]):
            self.nontrivial = True
        try:
            g2 = Cascade.from_serialised(path(f))._graph
        except Exception as e:
            self.fail("file", "raises-" + type(e).__name__, f"reading {f} back raised {type(e).__name__}: {e}", i)
            return
        why = same_canon(canon(g2), before)
        if why:
            self.fail("file", kind_of(why), f"{f} read back after the write, against the graph of {o} now: {why}", i)
        elif (g2 == g) is not True or (g == g2) is not True:
            self.fail("file", "eq-false", f"{f} read back: same nodes, outputs, inputs and payloads but == is False", i)


def shrink_session(sess, sig):
    """drop steps while the session still fails with the same signature"""
    def fails(ss):
        try:
            r = SessionRun(ss, with_model=False).run()
        except Exception:
            return None
        for x in r.failures:
            if x[0] == sig:
                return x
        return None
    best = sess
    bestf = fails(best)
    if bestf is None:
        return None, None
    changed = True
    while changed:
        changed = False
        for i in reversed(range(len(best["steps"]))):
            ss = {**best, "steps": best["steps"][:i] + best["steps"][i + 1:]}
            r = fails(ss)
            if r:
                best, bestf, changed = ss, r, True
                break
    return best, bestf


# ----------------------------------------------------------------------------- run
SAMPLES = ["empty", "linear:4", "simple:3:2", "multi:3:3:2", "multi:5:12:2", "multi:2:14:11", "simple:12:3", "linear:13", "disconnected:11:2", "comb:11:1"]


def build_sample(which):
    from earthkit.workflows.graph import samplegraphs
    name, *args = which.split(":")
    return getattr(samplegraphs, name)(*[int(a) for a in args])


FLAVOURS = ["plain"] * 6 + ["fluent-like", "fluent-like", "dup-names", "payload-serialise", "reserved-input", "bogus-ref", "opaque-payload"]


def run(ctx, res):
    import warnings
    warnings.simplefilter("ignore")
    from earthkit.workflows.graph import serialise
    listed = {f["signature"] for f in load_findings().get("open", []) if f.get("property") == "C12"}
    res.rule = ("generated Node graphs (0..30 nodes; names/input names from an adversarial pool incl. '.', prefixes, keywords, 'data', 'node_factory', numbered past ten; "
                "default/none/multi/duplicate outputs, named outputs in no particular order, 11..21 numbered outputs, up to 13 inputs; payloads incl. unordered sequences and, as opaque "
                "tokens of the model, bools/floats/bytes/dicts; terminal nodes with and without outputs; arbitrary sink lists) and graphs of generated fluent programs; "
                "each run through dict, JSON and Cascade-file round trips; sessions on several Cascade objects in one directory (repeated writes, +=, +, load, in-place round trips, "
                "mutation of nodes between writes). non-trivial = at least 2 reachable nodes and 1 edge (distinct = distinct canonical form), or a session in which an object is "
                "written, changed and written again")
    rng = ctx.sub_rng("graphs")
    ser_cases, ser_meta = [], []
    des_cases, des_meta = [], []
    eq_cases, eq_meta = [], []
    js_cases, js_meta = [], []
    creation = []

    def add_graph(g, case, tokens, dom, reserved, wf, unique):
        """correspondence cases + oracle for one real graph"""
        objs = topo_objects(g)
        key = None
        try:
            d = serialise(g)
            exp = f"s_ok {coq_sgraph(d, tokens)}"
        except Exception as e:
            d, exp = None, f"s_err {cstr(type(e).__name__)}"
        ser_cases.append(f"({coq_graph(g, tokens)}, {exp})")
        ser_meta.append(case)
        if d is not None:
            term, g2 = deser_case(d, tokens, creation)
            des_cases.append(term)
            des_meta.append({**case, "path": "dict"})
            if g2 is not None:
                try:
                    eq_cases.append(f"({coq_graph(g2, tokens)}, {coq_graph(g, tokens)}, {cbool((g2 == g) is True)}, {cbool((g == g2) is True)})")
                    eq_meta.append({**case, "pair": "deserialised-vs-original"})
                except Exception:
                    pass
            if tokens is None:
                try:
                    dj = json.loads(json.dumps(d))
                except Exception:
                    dj = None
                if dj is not None:
                    js_cases.append(f"({coq_sgraph(d)}, {coq_sgraph(dj)})")
                    js_meta.append({**case, "path": "jsonify"})
                    term, _ = deser_case(dj, None, creation)
                    des_cases.append(term)
                    des_meta.append({**case, "path": "json"})
        # property oracle: only inside the property's domain
        if unique and wf and dom["plain"]:
            classify(None, g, res, case, faithful_json=dom["json"], reserved=reserved, listed=listed)
        else:
            res.count("outside-property-domain(correspondence only)")
        if len(objs) >= 2 and any(o.inputs for o in objs):
            c = canon(g)
            res.nontrivial_keys.add(repr(sorted((k, v[0], sorted(v[1].items()), repr(v[2])) for k, v in c.items())) if c else repr(case)[:300])
        return d

    # the four sample graphs of the repository and their fluent-style variants
    n_graphs = ctx.n(260, 6000)
    for i in range(n_graphs):
        flavour = FLAVOURS[i % len(FLAVOURS)]
        spec = gen_spec(rng, flavour)
        try:
            g = build_spec(spec)
        except Exception as e:
            res.count("spec-not-constructible:" + type(e).__name__)
            continue
        objs = topo_objects(g)
        names = [o.name for o in objs]
        unique = len(set(names)) == len(names)
        wf = all(s.name in s.parent.outputs for o in objs for s in o.inputs.values())
        reserved = any(k in RESERVED for o in objs for k in o.inputs)
        term_out = any(o.outputs for o in g.sinks)
        res.count(f"nodes:{min(len(objs), 9)}{'+' if len(objs) >= 9 else ''}")
        res.count("flavour:" + flavour)
        res.count("terminal-node-with-outputs" if term_out else "terminal-nodes-without-outputs")
        if any(len(o.outputs) > 1 for o in objs):
            res.count("has-multi-output-node")
        case = {"kind": "spec", "spec": spec_to_json(spec), "flavour": flavour}
        dom = domain_of(spec)
        toks = None if dom["modelled"] else Tokens()
        if toks is not None:
            res.count("has-payload-outside-the-model-value-type(opaque token)")
        if any(o.outputs != sorted(o.outputs) for o in objs):
            res.count("has-node-with-outputs-not-in-sorted-order")
        if any(len(o.outputs) > 10 for o in objs):
            res.count("has-node-with-more-than-10-outputs")
        if any(len(o.inputs) > 10 for o in objs):
            res.count("has-node-with-more-than-10-inputs")
        d = add_graph(g, case, toks, dom, reserved, wf, unique)
        if len(res.samples) < 3 and len(objs) >= 3 and d is not None:
            res.samples.append({"flavour": flavour, "serialised": json.loads(json.dumps(d, default=repr)), "sinks": [s.name for s in g.sinks]})
        # == on perturbed pairs
        small = len(spec["nodes"]) <= 12     # the big graphs are there for the round trips; == and malformed dicts get the others
        if unique and wf and not reserved and small:
            ps = perturb(rng, spec)
            if ps:
                s2, what = ps
                try:
                    gp = build_spec(s2)
                    if topo_objects(gp) is not None:
                        eq_cases.append(f"({coq_graph(g, toks)}, {coq_graph(gp, toks)}, {cbool((g == gp) is True)}, {cbool((gp == g) is True)})")
                        eq_meta.append({"kind": "eq", "what": what, "a": spec_to_json(spec), "b": spec_to_json(s2)})
                        res.count("eq-perturbation:" + what)
                        res.evaluations += 1
                except Exception:
                    pass
        # malformed / hand-written dicts
        if d is not None and i % 2 == 0 and small:
            try:
                dm, what = mutate_dict(rng, d)
                term, _ = deser_case(dm, toks, creation)
                des_cases.append(term)
                des_meta.append({"kind": "dict", "what": what, "dict": json.loads(json.dumps(dm, default=repr))})
                res.count("malformed-dict:" + what)
                res.evaluations += 1
            except ValueError:
                pass

    # graphs of fluent programs
    frng = ctx.sub_rng("fluent")
    for i in range(ctx.n(40, 600)):
        desc = gen_fluent(frng)
        try:
            g = build_fluent(desc)
        except Exception as e:
            res.count("fluent-program-rejected:" + type(e).__name__)
            continue
        objs = topo_objects(g)
        names = [o.name for o in objs]
        res.count("flavour:fluent-program")
        res.count(f"nodes:{min(len(objs), 9)}{'+' if len(objs) >= 9 else ''}")
        res.count("terminal-node-with-outputs" if any(o.outputs for o in g.sinks) else "terminal-nodes-without-outputs")
        case = {"kind": "fluent", "desc": desc}
        if len(set(names)) != len(names):
            res.count("fluent-duplicate-names(outside C12, see C14)")
        add_graph(g, case, Tokens(), {"plain": True, "json": False}, False, True, len(set(names)) == len(names))
        if i == 0:
            res.samples.append({"fluent": desc, "nodes": len(objs), "sinks": len(g.sinks)})

    # repository sample graphs, also at sizes where numbered names pass ten
    for which in SAMPLES:
        res.count("flavour:repo-sample")
        add_graph(build_sample(which), {"kind": "sample", "which": which}, None, {"plain": True, "json": True}, False, True, True)

    # sessions on Cascade objects
    srng = ctx.sub_rng("sessions")
    ses_cases, ses_meta = [], []
    n_s, n_f = ctx.n(70, 1000), ctx.n(8, 100)
    for i in range(n_s + n_f):
        sess = gen_session(srng, fluent=(i >= n_s))
        r = SessionRun(sess).run()
        res.evaluations += r.evaluations
        for k, v in r.counts.items():
            res.count(k, v)
        res.count("flavour:session" + ("-fluent" if sess["fluent"] else ""))
        case = {"kind": "session", "session": sess}
        for sig, what, at in r.failures:
            res.fail(sig, what, {**case, "at": at})
        if r.nontrivial:
            res.count("session:object-written-changed-written-again")
            res.nontrivial_keys.add("session:" + json.dumps(sess, sort_keys=True, default=repr))
        for t in r.cases:
            ses_cases.append(t)
            ses_meta.append(case)
        if i == 0:
            res.samples.append({"session": [st[:2] + ["..."] if st[0] in ("new", "newf") else st for st in sess["steps"]]})

    # the closed witnesses of the _refuted theorems, replayed on the implementation
    w = {"nodes": [{"name": "a", "outputs": None, "payload": None, "inputs": []},
                   {"name": "b", "outputs": [], "payload": None, "inputs": [["payload", 0, "0"]]}], "sinks": [1]}
    gw = build_spec(w)
    res.evaluations += 1
    try:
        from earthkit.workflows.graph import deserialise
        deserialise(serialise(gw))
        res.disagree("witness of C12_roundtrip_any_input_name_refuted no longer fails on the implementation (model out of date)", {"kind": "spec", "spec": spec_to_json(w)})
    except TypeError:
        res.count("known-signature:" + SIG_RESERVED)
        if SIG_RESERVED in listed:
            res.fail(SIG_RESERVED, "input called 'payload' (set through node.inputs): deserialise(serialise(g)) raises TypeError", {"kind": "spec", "spec": spec_to_json(w), "flavour": "reserved-input"})
    except Exception as e:
        res.disagree(f"witness of C12_roundtrip_any_input_name_refuted fails with {type(e).__name__} instead of TypeError on the implementation", {"kind": "spec", "spec": spec_to_json(w)})
    w1 = {"nodes": [{"name": "a", "outputs": None, "payload": None, "inputs": []}], "sinks": [0]}
    classify(None, build_spec(w1), res, {"kind": "spec", "spec": spec_to_json(w1), "flavour": "witness:C12_sink_rule_before_fix_refuted"}, listed=listed)

    if creation:
        res.disagree("deserialise creates nodes in an order different from graphlib's static_order on the same dependencies", {"created": creation[0][0], "graphlib": creation[0][1]})

    groups = (
        ("ser", ser_cases, ser_meta, "check_ser", "serialise(g)", 150),
        ("deser", des_cases, des_meta, "check_deser", "deserialise(dict)", 150),
        ("eq", eq_cases, eq_meta, "check_eq_both", "Graph.__eq__", 100),
        ("json", js_cases, js_meta, "check_jsonify", "json.loads(json.dumps(serialised))", 150),
        ("session", ses_cases, ses_meta, "check_session", "a Cascade object over a session (files after repeated writes and +=)", 40),
    )
    for (tag, cases, metas, checker, what, shard), (r, logs) in zip(groups, coq_results_groups([(g[0], g[1], g[3], g[5]) for g in groups])):
        res.corr_checked += len(r)
        res.count("coq-cases:" + tag, len(r))
        for ok, meta in zip(r, metas):
            if ok is not True:
                res.disagree(f"Coq model of {what} disagrees with the implementation" + ("" if ok is False else " (cases file did not compile: " + (logs[0][-300:] if logs else "") + ")"), meta)
                break


def coq_results_groups(groups, timeout=900):
    """common.coq_results for several (tag, case terms, checker, shard size) at once: the same case files
    (build/C12/<tag>_<k>.v, `checker case : bool` for every case by vm_compute), but ONE pool of coqc
    processes over the shards of all groups instead of one group after the other.  -> [(results, logs)]"""
    from concurrent.futures import ThreadPoolExecutor
    d = BUILD / "C12"
    d.mkdir(parents=True, exist_ok=True)
    jobs = []
    for gi, (tag, case_terms, checker, shard) in enumerate(groups):
        for old in d.glob(f"{tag}_*"):
            old.unlink()
        for k in range(0, len(case_terms), shard):
            chunk = case_terms[k:k + shard]
            body = [HEADER, "", "Definition cases := [", ";\n".join("  " + c for c in chunk), "].",
                    f"Definition results := List.map ({checker}) cases.",
                    'Definition show (bs : list bool) : Coq.Strings.String.string := Coq.Strings.String.concat ""%string (List.map (fun b : bool => if b then "1"%string else "0"%string) bs).',
                    "Eval vm_compute in show results."]
            p = d / f"{tag}_{k // shard}.v"
            p.write_text("\n".join(body) + "\n")
            jobs.append((gi, k, p, len(chunk), sum(len(c) for c in chunk)))
    order = sorted(range(len(jobs)), key=lambda j: -jobs[j][4])          # big shards first
    with ThreadPoolExecutor(max_workers=8) as ex:
        outs = dict(zip(order, ex.map(lambda j: coq_eval_file(jobs[j][2], timeout), order)))
    per = [([], []) for _ in groups]
    for j, (gi, k, p, n, _) in enumerate(jobs):
        rc, out = outs[j]
        m = re.search(r'=\s*"([01]*)"', out.replace("\n", "").replace(" ", "")) if rc == 0 else None
        if rc != 0 or not m or len(m.group(1)) != n:
            per[gi][0].extend([None] * n)
            per[gi][1].append(f"{p.name}: rc={rc} {out[-1500:]}")
        else:
            per[gi][0].extend(c == "1" for c in m.group(1))
    return per


# ----------------------------------------------------------------------------- search / replay
def search(ctx, res):
    import warnings
    warnings.simplefilter("ignore")
    from common import Result
    rng = ctx.sub_rng("search")
    listed = {f["signature"] for f in load_findings().get("open", []) if f.get("property") == "C12"}
    for i in range(20000):
        flavour = ["plain", "fluent-like", "plain", "plain"][i % 4]
        spec = gen_spec(rng, flavour)
        try:
            g = build_spec(spec)
        except Exception:
            continue
        objs = topo_objects(g)
        if len({o.name for o in objs}) != len(objs):
            continue
        r2 = Result()
        dom = domain_of(spec)
        if not dom["plain"]:
            continue
        bad = classify(None, g, r2, {"kind": "spec", "spec": spec_to_json(spec), "flavour": flavour}, faithful_json=dom["json"], listed=listed)
        if bad:
            f = r2.failures[0]
            return {"signature": f["signature"], "what": f["what"], "case": f["case"]}
    for i in range(600):
        desc = gen_fluent(rng)
        try:
            g = build_fluent(desc)
        except Exception:
            continue
        objs = topo_objects(g)
        if len({o.name for o in objs}) != len(objs):
            continue
        r2 = Result()
        if classify(None, g, r2, {"kind": "fluent", "desc": desc}, faithful_json=False, listed=listed):
            f = r2.failures[0]
            return {"signature": f["signature"], "what": f["what"], "case": f["case"]}
    for which in SAMPLES:
        r2 = Result()
        if classify(None, build_sample(which), r2, {"kind": "sample", "which": which}, listed=listed):
            f = r2.failures[0]
            return {"signature": f["signature"], "what": f["what"], "case": f["case"]}
    for i in range(4000):
        sess = gen_session(rng, fluent=(i % 10 == 9))
        r = SessionRun(sess, with_model=False).run()
        if r.failures:
            sig, what, at = r.failures[0]
            return shrink(ctx, {"signature": sig, "what": what, "case": {"kind": "session", "session": sess, "at": at}})
    return None


def shrink(ctx, f):
    """drop nodes / inputs of a failing spec while it still fails with the same signature"""
    import copy
    import warnings
    warnings.simplefilter("ignore")
    from common import Result
    case = f["case"]
    sig = f["signature"]
    if case.get("kind") == "session":
        best, bf = shrink_session(case["session"], sig)
        if best is None:
            return f
        return {"signature": sig, "what": bf[1], "case": {"kind": "session", "session": best, "at": bf[2]}}
    if case.get("kind") != "spec":
        return f

    def fails(js):
        try:
            spec = spec_from_json(js)
            g = build_spec(spec)
            objs = topo_objects(g)
            if objs is None or len({o.name for o in objs}) != len(objs):
                return None
            r2 = Result()
            dom = domain_of(spec)
            classify(None, g, r2, {"kind": "spec", "spec": js, "flavour": case.get("flavour")}, faithful_json=dom["json"])
            for x in r2.failures:
                if x["signature"] == sig:
                    return x
        except Exception:
            return None
        return None
    best, bestf = case["spec"], f
    changed = True
    while changed:
        changed = False
        n = len(best["nodes"])
        for i in reversed(range(n)):
            if any(x[1] == i for nd in best["nodes"] for x in nd["inputs"]):
                continue
            js = copy.deepcopy(best)
            del js["nodes"][i]
            for nd in js["nodes"]:
                for x in nd["inputs"]:
                    if x[1] > i:
                        x[1] -= 1
            js["sinks"] = [s - (s > i) for s in js["sinks"] if s != i]
            r = fails(js)
            if r:
                best, bestf, changed = js, r, True
                break
        if changed:
            continue
        for i, nd in enumerate(best["nodes"]):
            for k in range(len(nd["inputs"])):
                js = copy.deepcopy(best)
                del js["nodes"][i]["inputs"][k]
                r = fails(js)
                if r:
                    best, bestf, changed = js, r, True
                    break
            if changed:
                break
            if nd["payload"] is not None:
                js = copy.deepcopy(best)
                js["nodes"][i]["payload"] = None
                r = fails(js)
                if r:
                    best, bestf, changed = js, r, True
                    break
    return bestf


def replay(ctx, case):
    import warnings
    warnings.simplefilter("ignore")
    from common import Result
    c = case.get("case", case)
    if c.get("kind") == "spec":
        spec = spec_from_json(c["spec"])
        g = build_spec(spec)
        dom = domain_of(spec)
        faithful = dom["json"]
    elif c.get("kind") == "fluent":
        g = build_fluent(c["desc"])
        faithful = False
    elif c.get("kind") == "sample":
        g = build_sample(c["which"])
        faithful = True
    elif c.get("kind") == "session":
        r = SessionRun(c["session"], with_model=False).run()
        return {"fails": bool(r.failures), "failures": [{"signature": x[0], "what": x[1]} for x in r.failures][:3]}
    else:
        return {"fails": None, "note": "this replay names a broken proof / correspondence: re-run ./check C12"}
    r2 = Result()
    classify(None, g, r2, c, faithful_json=faithful)
    return {"fails": bool(r2.failures), "failures": [{"signature": f["signature"], "what": f["what"]} for f in r2.failures][:3]}
