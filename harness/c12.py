"""C12 -- serialising a graph and reading it back gives an equal graph.

Real code driven: earthkit.workflows.graph.{serialise,deserialise,to_json,from_json},
Graph.__eq__, Graph.nodes, Node/Output, Cascade.serialise/from_serialised, and graphs built
by generated fluent programs.  The property oracle does its own identity-based traversal
(it trusts neither Graph.nodes nor Graph.__eq__) and additionally demands `==` to say True.
Correspondence: the Gallina model (coq/theories/Graph/Export.v) is evaluated inside Coq on
the same graphs / dicts: exact serialised dict (with insertion order), exact result of
deserialise (sink order, nodes() order, every field) or exception type, the value of `==`
on equal and on perturbed pairs, and json.loads(json.dumps(.)) of the serialised dict."""
import functools
import graphlib
import json
import os
import tempfile

from common import cZ, cbool, clist, cnat, copt, coq_results, cstr, load_findings

TRUSTED = [
    "harness/c12.py: identity-based numbering of Node objects in a topological order (Python object -> heap index), payload <-> pv conversion",
    "graphlib.TopologicalSorter, json, dill are outside the model: their contracts are Section hypotheses, validated per case (order checked topological in Coq; json/dill round-trips compared on every case)",
]
ASSUMPTIONS = [
    "graphlib: static_order returns a topological order of exactly the names that occur whenever one exists (Section hypotheses static_order_sound/complete); the order actually returned is read from the run and validated in Coq",
    "json.loads(json.dumps(d)) = jsonify d on serialised graphs (tuples become lists, payload p becomes jp p); dill.load(dill.dump(d)) = d (Section hypotheses json_roundtrip, dill_roundtrip)",
    "payloads: `!=` is modelled by peqb; theorem hypothesis: peqb (pser p) p = true for every payload (a payload without .serialise() that is equal to itself); JSON: peqb (jp (pser p)) p = true",
    "graph objects are numbered topologically (an input points to a smaller index): every acyclic pointer graph has such a numbering; cyclic Node structures are outside the property",
    "input names that are parameter names of Node.__init__/the node factory (self, name, outputs, payload) cannot be passed to Node(...); graphs that obtain such an input by assigning to node.inputs are excluded by hypothesis kw_ok (C12_roundtrip_any_input_name_refuted shows they do not round-trip)",
]

HEADER = """From Coq Require Import List String Bool Arith ZArith.
From EKW Require Import Graph.GStore Graph.Export Graph.ExportCheck.
Import ListNotations.
Open Scope string_scope.
Open Scope list_scope.
"""

SIG_RESERVED = "input-named-like-node-constructor-parameter"
RESERVED = ("self", "name", "outputs", "payload")


# ----------------------------------------------------------------------------- payloads
class WithSer:
    """a payload with its own serialise(): deserialise() hands back the serialised form"""

    def __init__(self, inner):
        self.inner = inner

    def serialise(self):
        return self.inner

    def __eq__(self, other):
        return isinstance(other, WithSer) and self.inner == other.inner

    def __hash__(self):
        return hash(repr(self.inner))

    def __repr__(self):
        return f"WithSer({self.inner!r})"


def src_fn(a=1):  # importable callables for fluent programs (dill pickles them by reference)
    return a


def map_fn(x, a=1):
    return x


def pay_to_json(p):
    if p is None:
        return None
    if isinstance(p, bool):
        raise ValueError("bool payload")
    if isinstance(p, int):
        return {"i": p}
    if isinstance(p, str):
        return {"s": p}
    if isinstance(p, list):
        return {"l": [pay_to_json(x) for x in p]}
    if isinstance(p, tuple):
        return {"t": [pay_to_json(x) for x in p]}
    if isinstance(p, WithSer):
        return {"ser": pay_to_json(p.inner)}
    raise ValueError(f"payload outside the modelled domain: {p!r}")


def pay_from_json(j):
    if j is None:
        return None
    if "i" in j:
        return j["i"]
    if "s" in j:
        return j["s"]
    if "l" in j:
        return [pay_from_json(x) for x in j["l"]]
    if "t" in j:
        return tuple(pay_from_json(x) for x in j["t"])
    return WithSer(pay_from_json(j["ser"]))


class Tokens:
    """opaque payloads (fluent: tuples holding callables) become PInt <index of equality class>"""

    def __init__(self):
        self.seen = []

    def tok(self, p):
        for i, q in enumerate(self.seen):
            try:
                if q is p or q == p:
                    return i
            except Exception:
                pass
        self.seen.append(p)
        return len(self.seen) - 1


def coq_pv(p, tokens=None):
    if tokens is not None:
        return f"PInt {cZ(1000 + tokens.tok(p))}"
    if isinstance(p, bool):
        raise ValueError("bool payload")
    if isinstance(p, int):
        return f"PInt {cZ(p)}"
    if isinstance(p, str):
        return f"PStr {cstr(p)}"
    if isinstance(p, (list, tuple)):
        return f"PSeq {cbool(isinstance(p, tuple))} " + clist([coq_pv(x) for x in p])
    if isinstance(p, WithSer):
        return f"PSer ({coq_pv(p.inner)})"
    raise ValueError(f"payload outside the modelled domain: {p!r}")


def copt_pv(p, tokens=None):
    return "None" if p is None else f"(Some ({coq_pv(p, tokens)}))"


def plain(p):
    """no .serialise() anywhere, equal to itself"""
    if p is None or isinstance(p, (int, str)):
        return True
    if isinstance(p, (list, tuple)):
        return all(plain(x) for x in p)
    return False


def json_faithful(p):
    if p is None or isinstance(p, (int, str)):
        return True
    if isinstance(p, list):
        return all(json_faithful(x) for x in p)
    return False


# ----------------------------------------------------------------------------- specs -> real graphs
NAMES = ["a", "b", "a.b", "a.b.c", "ab", "0", "1", "data", "node_factory", "name", "payload", "outputs", "inputs", "class", "def", "None",
         "", " ", "reader", "reader-0", "process-1", "writer", "x y", "n\"q", "a'b", "self", "A", "a.0", "0.a", "sink", "source:1", "k\\n"]
INAMES = ["input", "input0", "input1", "x", "y", "data", "node_factory", "a.b", "class", "0", "", "kw", "in put", "factory", "cls", "args", "kwargs", "inputs", "src"]
OUTS = [None, None, None, [], ["0"], ["a", "b"], ["0", "x"], ["out.1", "out.2", "out.3"], ["a", "a"], ["", "0"], ["output0", "output1"], ["name"]]


def gen_payload(rng, depth=0):
    k = rng.randrange(10)
    if k < 3:
        return None
    if k < 5:
        return rng.choice([0, 1, -1, 7, 2**40, -2**33])
    if k < 7:
        return rng.choice(["", "p", "a.b", "0", "x y"])
    if depth < 2:
        xs = [gen_payload(rng, depth + 1) for _ in range(rng.randrange(3))]
        xs = [0 if x is None or isinstance(x, WithSer) else x for x in xs]
        return xs if k < 9 else tuple(xs)
    return 3


def gen_spec(rng, flavour):
    """spec = {"nodes": [{"name","outputs","payload","inputs":[[iname, parent index, oname]]}], "sinks": [idx]}
    nodes are listed in creation order (parents first)."""
    n = rng.choice([0, 1, 1, 2, 2, 3, 3, 4, 5, 6, 8, 11])
    names = rng.sample(NAMES, min(n, len(NAMES)))
    if flavour == "dup-names" and n >= 2:
        names[rng.randrange(1, n)] = names[0]
    nodes = []
    for i in range(n):
        outs = rng.choice(OUTS)
        if flavour == "fluent-like":
            outs = None
        ins = []
        cands = [j for j in range(i) if (nodes[j]["outputs"] is None or nodes[j]["outputs"])]
        if cands and rng.random() < 0.8:
            for iname in rng.sample(INAMES, rng.choice([1, 1, 2, 3])):
                j = rng.choice(cands) if rng.random() < 0.6 else cands[-1]
                po = nodes[j]["outputs"]
                oname = "0" if po is None else rng.choice(po)
                ins.append([iname, j, oname])
        pay = gen_payload(rng)
        if flavour == "payload-serialise" and rng.random() < 0.5:
            pay = WithSer(rng.choice([1, "s", [1, 2]]))
        nodes.append({"name": names[i], "outputs": outs, "payload": pay, "inputs": ins})
    consumed = {j for nd in nodes for (_, j, _) in nd["inputs"]}
    terminal = [i for i in range(n) if i not in consumed]
    mode = rng.randrange(6)
    if mode <= 2:
        sinks = terminal
    elif mode == 3:
        sinks = terminal[::-1]
    elif mode == 4:
        sinks = [i for i in range(n) if rng.random() < 0.5]
    else:
        sinks = terminal + ([rng.randrange(n)] if n else [])
    if flavour == "reserved-input" and n >= 2:
        cand = [i for i in range(n) if nodes[i]["inputs"]]
        if cand:
            i = rng.choice(cand)
            _, j, o = nodes[i]["inputs"][0]
            nodes[i]["inputs"].append([rng.choice(RESERVED), j, o])   # injected after construction, see build_spec
    if flavour == "bogus-ref" and n >= 2:
        cand = [i for i in range(n) if nodes[i]["inputs"]]
        if cand:
            i = rng.choice(cand)
            nodes[i]["inputs"][-1][2] = rng.choice(["bogus", "0", "zz"])
    return {"nodes": nodes, "sinks": sinks}


def build_spec(spec):
    from earthkit.workflows.graph import Graph, Node
    from earthkit.workflows.graph.nodes import Output
    objs = []
    for nd in spec["nodes"]:
        kw, late = {}, []
        for iname, j, oname in nd["inputs"]:
            p = objs[j]
            if iname in RESERVED or oname not in p.outputs:
                late.append((iname, Output(p, oname)))     # only reachable by assigning to node.inputs
            else:
                kw[iname] = p if (oname == "0" and len(kw) % 2 == 0) else p.get_output(oname)
        if nd["outputs"] is None:
            o = Node(nd["name"], payload=nd["payload"], **kw)
        else:
            o = Node(nd["name"], list(nd["outputs"]), nd["payload"], **kw)
        for iname, out in late:
            o.inputs[iname] = out
        objs.append(o)
    return Graph([objs[i] for i in spec["sinks"]])


def spec_to_json(spec):
    return {"nodes": [{**nd, "payload": pay_to_json(nd["payload"])} for nd in spec["nodes"]], "sinks": list(spec["sinks"])}


def spec_from_json(j):
    return {"nodes": [{**nd, "payload": pay_from_json(nd["payload"])} for nd in j["nodes"]], "sinks": list(j["sinks"])}


# ----------------------------------------------------------------------------- own traversal (no Graph.nodes, no ==)
def topo_objects(g):
    """reachable Node objects, parents first, by identity.  None if cyclic."""
    order, state = [], {}
    for s in g.sinks:
        stack = [(s, iter([src.parent for src in s.inputs.values()]))] if id(s) not in state else []
        if stack:
            state[id(s)] = 1
        while stack:
            node, it = stack[-1]
            nxt = next(it, None)
            if nxt is None:
                stack.pop()
                state[id(node)] = 2
                order.append(node)
            elif id(nxt) not in state:
                state[id(nxt)] = 1
                stack.append((nxt, iter([src.parent for src in nxt.inputs.values()])))
            elif state[id(nxt)] == 1:
                return None
    return order


def canon(g):
    """name -> (outputs, {iname: (parent name, output name)}, payload); None on duplicate names"""
    out = {}
    for n in topo_objects(g):
        if n.name in out:
            return None
        out[n.name] = (list(n.outputs), {k: (s.parent.name, s.name) for k, s in n.inputs.items()}, n.payload)
    return out


def coq_graph(g, tokens=None):
    objs = topo_objects(g)
    idx = {id(o): i for i, o in enumerate(objs)}
    nodes = []
    for o in objs:
        ins = clist([f"({cstr(k)}, ({cnat(idx[id(s.parent)])}, {cstr(s.name)}))" for k, s in o.inputs.items()])
        nodes.append(f"mkNode {cstr(o.name)} {clist(o.outputs, cstr)} {copt_pv(o.payload, tokens)} {ins}")
    return f"(@mkGraph pv {clist(nodes)} {clist([cnat(idx[id(s)]) for s in g.sinks])})"


def coq_src(s):
    if isinstance(s, str):
        return f"SBare {cstr(s)}"
    if isinstance(s, (tuple, list)) and len(s) == 2:
        return f"SPair {cbool(isinstance(s, tuple))} {cstr(s[0])} {cstr(s[1])}"
    raise ValueError(f"serialised source outside the modelled shape: {s!r}")


def coq_sgraph(d, tokens=None):
    items = []
    for name, nd in d.items():
        outs = copt(nd.get("outputs"), lambda o: clist(o, cstr)) if "outputs" in nd else "None"
        ins = ("(Some " + clist([f"({cstr(k)}, {coq_src(s)})" for k, s in nd["inputs"].items()]) + ")") if "inputs" in nd else "None"
        items.append(f"({cstr(name)}, mkS {outs} {ins} {copt_pv(nd.get('payload'), tokens)})")
    return f"({clist(items)} : sgraph pv)"


def coq_views(g, tokens=None):
    vs = []
    for n in g.nodes():
        ins = clist([f"({cstr(k)}, ({cstr(s.parent.name)}, {cstr(s.name)}))" for k, s in n.inputs.items()])
        vs.append(f"mkV {cstr(n.name)} {clist(n.outputs, cstr)} {copt_pv(n.payload, tokens)} {ins}")
    return f"({clist([s.name for s in g.sinks], cstr)}, ({clist(vs)} : list (vnode pv)))"


def py_order(d):
    """graphlib on the dependency dict exactly as deserialise builds it"""
    deps = {name: [inp if isinstance(inp, str) else inp[0] for inp in nd.get("inputs", {}).values()] for name, nd in d.items()}
    try:
        return list(graphlib.TopologicalSorter(deps).static_order())
    except graphlib.CycleError:
        return None


def deser_case(d, tokens=None, check_creation=None):
    """run the real deserialise on dict d; returns the Coq case term and the resulting graph (or None)"""
    from earthkit.workflows.graph import deserialise
    from earthkit.workflows.graph.export import default_node_factory
    order = py_order(d)
    created = []

    def recording(name, outputs, payload, **inputs):
        created.append(name)
        return default_node_factory(name, outputs, payload, **inputs)
    try:
        g2 = deserialise(d)
        exp = f"d_ok {coq_views(g2, tokens)}"
    except Exception as e:
        g2, exp = None, f"d_err {cstr(type(e).__name__)}"
    try:
        deserialise(d, node_factory=recording)
    except Exception:
        pass
    if check_creation is not None and order is not None and created != order[:len(created)]:
        check_creation.append((created, order))
    return f"({coq_sgraph(d, tokens)}, {copt(order, lambda o: clist(o, cstr))}, {exp})", g2


# ----------------------------------------------------------------------------- property oracle
def same_as(g2, g):
    """nothing lost, nothing changed: own traversal of both graphs"""
    c1, c2 = canon(g), canon(g2)
    if c2 is None:
        return "result has duplicate names"
    if set(c1) != set(c2):
        return f"nodes lost={sorted(set(c1) - set(c2))[:4]} extra={sorted(set(c2) - set(c1))[:4]}"
    for name in c1:
        o1, i1, p1 = c1[name]
        o2, i2, p2 = c2[name]
        if o1 != o2:
            return f"outputs of {name!r} differ: {o2} vs {o1}"
        if i1 != i2:
            return f"inputs of {name!r} differ: {i2} vs {i1}"
        if p1 is not p2 and (p1 != p2 or type(p1) is not type(p2)):
            return f"payload of {name!r} differs: {p2!r} vs {p1!r}"
    return None


def roundtrips(g, faithful_json=True, with_file=True):
    """yields (path, problem-or-None, kind)"""
    from earthkit.workflows import Cascade
    from earthkit.workflows.graph import deserialise, from_json, serialise, to_json
    paths = [("dict", lambda: deserialise(serialise(g)))]
    if faithful_json:
        paths.append(("json", lambda: from_json(to_json(g))))
    if with_file:
        def via_file():
            with tempfile.TemporaryDirectory(prefix="c12-") as d:
                f = os.path.join(d, "graph.dill")
                Cascade(g).serialise(f)
                return Cascade.from_serialised(f)._graph
        paths.append(("file", via_file))
    for path, fn in paths:
        try:
            g2 = fn()
        except Exception as e:
            yield path, f"raised {type(e).__name__}: {e}"[:300], "raises-" + type(e).__name__
            continue
        why = same_as(g2, g)
        if why:
            yield path, why, ("nodes-lost" if why.startswith("nodes lost") else "nodes-differ")
            continue
        if (g2 == g) is not True or (g == g2) is not True:
            yield path, "result has the same nodes, outputs, inputs and payloads but == is False", "eq-false"
            continue
        yield path, None, None


def classify(spec_or_desc, g, res, case, faithful_json=True, reserved=False, listed=()):
    bad = None
    for path, why, kind in roundtrips(g, faithful_json):
        res.evaluations += 1
        if why is None:
            continue
        if reserved and kind == "raises-TypeError":
            res.count("known-signature:" + SIG_RESERVED)
            if SIG_RESERVED in listed:
                res.fail(SIG_RESERVED, f"{path}: {why}", case)
            continue
        bad = bad or (f"{path}-roundtrip-{kind}", f"{path} path: {why}")
        res.fail(bad[0], bad[1], {**case, "path": path})
    return bad


def domain_of(spec):
    names = [nd["name"] for nd in spec["nodes"]]
    return {
        "plain": all(plain(nd["payload"]) for nd in spec["nodes"]),
        "json": all(json_faithful(nd["payload"]) for nd in spec["nodes"]),
    }


# ----------------------------------------------------------------------------- perturbations for ==
def perturb(rng, spec):
    """a spec that differs from `spec` in exactly one observable respect (or None)"""
    import copy
    s = copy.deepcopy(spec)
    if not s["nodes"]:
        s["nodes"].append({"name": "extra", "outputs": None, "payload": None, "inputs": []})
        s["sinks"] = [0]
        return s, "extra-node"
    i = rng.randrange(len(s["nodes"]))
    nd = s["nodes"][i]
    k = rng.randrange(7)
    if k == 0:
        nd["payload"] = 12345 if nd["payload"] != 12345 else None
        return s, "payload"
    if k == 1:
        nd["payload"] = list(nd["payload"]) if isinstance(nd["payload"], tuple) else ((nd["payload"],) if nd["payload"] is not None else "was-none")
        return s, "payload-type"
    if k == 2 and nd["inputs"]:
        nd["inputs"][0][0] = nd["inputs"][0][0] + "_"
        if len({x[0] for x in nd["inputs"]}) == len(nd["inputs"]):
            return s, "input-name"
    if k == 3 and nd["inputs"]:
        iname, j, o = nd["inputs"][-1]
        alts = [(jj, oo) for jj in range(i) for oo in (s["nodes"][jj]["outputs"] if s["nodes"][jj]["outputs"] is not None else ["0"]) if (jj, oo) != (j, o)
                and (s["nodes"][jj]["name"], oo) != (s["nodes"][j]["name"], o)]
        if alts:
            nd["inputs"][-1][1], nd["inputs"][-1][2] = rng.choice(alts)
            return s, "input-source"
    if k == 4 and not any(x[1] == i for n2 in s["nodes"] for x in n2["inputs"]):
        nd["outputs"] = (nd["outputs"] or ["0"]) + ["more"] if nd["outputs"] != [] else ["z"]
        return s, "outputs"
    if k == 5 and nd["inputs"]:
        nd["inputs"] = nd["inputs"][::-1]
        return s, "input-order(still equal)"
    if k == 6 and nd["inputs"] and len(nd["inputs"]) > 1:
        nd["inputs"].pop()
        return s, "input-dropped"
    nd["name"] = nd["name"] + "~"
    return s, "name"


# ----------------------------------------------------------------------------- malformed dicts
def mutate_dict(rng, d):
    import copy
    d = copy.deepcopy(d)
    names = list(d)
    if not names:
        return {"lonely": {}}, "bare-node"
    n = rng.choice(names)
    k = rng.randrange(8)
    if k == 0:
        d[n].pop("inputs", None)
        return d, "no-inputs-key"
    if k == 1:
        d[n].pop("outputs", None)
        return d, "no-outputs-key"
    if k == 2:
        d[n].setdefault("inputs", {})["ghost"] = "no-such-node"
        return d, "unknown-parent"
    if k == 3:
        d[n].setdefault("inputs", {})["o"] = (rng.choice(names), "no-such-output")
        return d, "unknown-output"
    if k == 4:
        d[n].setdefault("inputs", {})["loop"] = n
        return d, "self-loop"
    if k == 5 and len(names) > 1:
        a, b = rng.sample(names, 2)
        d[a].setdefault("inputs", {})["c1"] = b
        d[b].setdefault("inputs", {})["c2"] = (a, "0")
        return d, "cycle"
    if k == 6:
        d[n].setdefault("inputs", {})[rng.choice(RESERVED + ("data", "node_factory"))] = rng.choice(names)
        return d, "parameter-named-input"
    d[n]["outputs"] = []
    return d, "outputs-emptied"


# ----------------------------------------------------------------------------- fluent programs
def build_fluent(desc):
    import numpy as np
    from earthkit.workflows.fluent import Payload, from_source
    shape = desc["shape"]
    if len(shape) == 1:
        arr = np.fromiter([functools.partial(src_fn, i) for i in range(shape[0])], dtype=object)
        act = from_source(arr, dims=["x"])
    else:
        arr = [np.fromiter([functools.partial(src_fn, i * 10 + j) for j in range(shape[1])], dtype=object) for i in range(shape[0])]
        act = from_source(arr, dims=["x", "y"])
    for op in desc["ops"]:
        k = op[0]
        if k in ("mean", "min", "max", "sum", "std", "prod"):
            act = getattr(act, k)(op[1])
        elif k == "map":
            act = act.map(Payload(map_fn, kwargs={"a": op[1]}))
        elif k == "expand":
            act = act.expand("z", internal_dim=1, dim_size=op[1], axis=0)
        elif k == "add":
            act = act.add(op[1])
        elif k == "flatten":
            act = act.flatten()
        elif k == "join":
            act = act.join(act.map(Payload(map_fn, kwargs={"a": op[1]})), "w")
    return act.graph()


def gen_fluent(rng):
    shape = rng.choice([[1], [2], [3], [2, 2], [2, 3], [3, 2], [1, 4]])
    dims = ["x"] if len(shape) == 1 else ["x", "y"]
    ops = []
    for _ in range(rng.randrange(0, 4)):
        k = rng.choice(["mean", "min", "max", "sum", "map", "map", "expand", "add", "flatten", "join", "std", "prod"])
        if k in ("mean", "min", "max", "sum", "std", "prod"):
            ops.append([k, rng.choice(dims)])
        elif k in ("map", "add", "join"):
            ops.append([k, rng.randrange(1, 4)])
        elif k == "expand":
            ops.append([k, rng.choice([1, 2, 3])])
        else:
            ops.append([k])
    return {"shape": shape, "ops": ops}


# ----------------------------------------------------------------------------- run
FLAVOURS = ["plain"] * 6 + ["fluent-like", "fluent-like", "dup-names", "payload-serialise", "reserved-input", "bogus-ref"]


def run(ctx, res):
    import warnings
    warnings.simplefilter("ignore")
    from earthkit.workflows.graph import serialise
    listed = {f["signature"] for f in load_findings().get("open", []) if f.get("property") == "C12"}
    res.rule = ("generated Node graphs (0..11 nodes; names/input names from an adversarial pool incl. '.', prefixes, keywords, 'data', 'node_factory'; "
                "default/none/multi/duplicate outputs; terminal nodes with and without outputs; arbitrary sink lists) and graphs of generated fluent programs; "
                "each run through dict, JSON and Cascade-file round trips. non-trivial = at least 2 reachable nodes and 1 edge; distinct = distinct canonical form")
    rng = ctx.sub_rng("graphs")
    ser_cases, ser_meta = [], []
    des_cases, des_meta = [], []
    eq_cases, eq_meta = [], []
    js_cases, js_meta = [], []
    creation = []

    def add_graph(g, case, tokens, dom, reserved, wf, unique):
        """correspondence cases + oracle for one real graph"""
        objs = topo_objects(g)
        key = None
        try:
            d = serialise(g)
            exp = f"s_ok {coq_sgraph(d, tokens)}"
        except Exception as e:
            d, exp = None, f"s_err {cstr(type(e).__name__)}"
        ser_cases.append(f"({coq_graph(g, tokens)}, {exp})")
        ser_meta.append(case)
        if d is not None:
            term, g2 = deser_case(d, tokens, creation)
            des_cases.append(term)
            des_meta.append({**case, "path": "dict"})
            if g2 is not None:
                for a, b in ((g2, g), (g, g2)):
                    try:
                        eq_cases.append(f"({coq_graph(a, tokens)}, {coq_graph(b, tokens)}, {cbool((a == b) is True)})")
                        eq_meta.append({**case, "pair": "deserialised-vs-original"})
                    except Exception:
                        pass
            if tokens is None:
                try:
                    dj = json.loads(json.dumps(d))
                except Exception:
                    dj = None
                if dj is not None:
                    js_cases.append(f"({coq_sgraph(d)}, {coq_sgraph(dj)})")
                    js_meta.append({**case, "path": "jsonify"})
                    term, _ = deser_case(dj, None, creation)
                    des_cases.append(term)
                    des_meta.append({**case, "path": "json"})
        # property oracle: only inside the property's domain
        if unique and wf and dom["plain"]:
            classify(None, g, res, case, faithful_json=dom["json"], reserved=reserved, listed=listed)
        else:
            res.count("outside-property-domain(correspondence only)")
        if len(objs) >= 2 and any(o.inputs for o in objs):
            c = canon(g)
            res.nontrivial_keys.add(repr(sorted((k, v[0], sorted(v[1].items()), repr(v[2])) for k, v in c.items())) if c else repr(case)[:300])
        return d

    # the four sample graphs of the repository and their fluent-style variants
    n_graphs = ctx.n(260, 6000)
    for i in range(n_graphs):
        flavour = FLAVOURS[i % len(FLAVOURS)]
        spec = gen_spec(rng, flavour)
        try:
            g = build_spec(spec)
        except Exception as e:
            res.count("spec-not-constructible:" + type(e).__name__)
            continue
        objs = topo_objects(g)
        names = [o.name for o in objs]
        unique = len(set(names)) == len(names)
        wf = all(s.name in s.parent.outputs for o in objs for s in o.inputs.values())
        reserved = any(k in RESERVED for o in objs for k in o.inputs)
        term_out = any(o.outputs for o in g.sinks)
        res.count(f"nodes:{min(len(objs), 9)}{'+' if len(objs) >= 9 else ''}")
        res.count("flavour:" + flavour)
        res.count("terminal-node-with-outputs" if term_out else "terminal-nodes-without-outputs")
        if any(len(o.outputs) > 1 for o in objs):
            res.count("has-multi-output-node")
        case = {"kind": "spec", "spec": spec_to_json(spec), "flavour": flavour}
        d = add_graph(g, case, None, domain_of(spec), reserved, wf, unique)
        if len(res.samples) < 3 and len(objs) >= 3 and d is not None:
            res.samples.append({"flavour": flavour, "serialised": json.loads(json.dumps(d, default=repr)), "sinks": [s.name for s in g.sinks]})
        # == on perturbed pairs
        if unique and wf and not reserved:
            ps = perturb(rng, spec)
            if ps:
                s2, what = ps
                try:
                    gp = build_spec(s2)
                    if topo_objects(gp) is not None:
                        for a, b in ((g, gp), (gp, g)):
                            eq_cases.append(f"({coq_graph(a)}, {coq_graph(b)}, {cbool((a == b) is True)})")
                            eq_meta.append({"kind": "eq", "what": what, "a": spec_to_json(spec), "b": spec_to_json(s2)})
                        res.count("eq-perturbation:" + what)
                        res.evaluations += 1
                except Exception:
                    pass
        # malformed / hand-written dicts
        if d is not None and i % 2 == 0:
            try:
                dm, what = mutate_dict(rng, d)
                term, _ = deser_case(dm, None, creation)
                des_cases.append(term)
                des_meta.append({"kind": "dict", "what": what, "dict": json.loads(json.dumps(dm, default=repr))})
                res.count("malformed-dict:" + what)
                res.evaluations += 1
            except ValueError:
                pass

    # graphs of fluent programs
    frng = ctx.sub_rng("fluent")
    for i in range(ctx.n(40, 600)):
        desc = gen_fluent(frng)
        try:
            g = build_fluent(desc)
        except Exception as e:
            res.count("fluent-program-rejected:" + type(e).__name__)
            continue
        objs = topo_objects(g)
        names = [o.name for o in objs]
        res.count("flavour:fluent-program")
        res.count(f"nodes:{min(len(objs), 9)}{'+' if len(objs) >= 9 else ''}")
        res.count("terminal-node-with-outputs" if any(o.outputs for o in g.sinks) else "terminal-nodes-without-outputs")
        case = {"kind": "fluent", "desc": desc}
        if len(set(names)) != len(names):
            res.count("fluent-duplicate-names(outside C12, see C14)")
        add_graph(g, case, Tokens(), {"plain": True, "json": False}, False, True, len(set(names)) == len(names))
        if i == 0:
            res.samples.append({"fluent": desc, "nodes": len(objs), "sinks": len(g.sinks)})

    # repository sample graphs
    from earthkit.workflows.graph import samplegraphs
    for label, g in (("empty", samplegraphs.empty()), ("linear", samplegraphs.linear(4)), ("simple", samplegraphs.simple(3, 2)), ("multi", samplegraphs.multi(3, 3, 2))):
        res.count("flavour:repo-sample")
        add_graph(g, {"kind": "sample", "which": label}, None, {"plain": True, "json": True}, False, True, True)

    # the closed witnesses of the _refuted theorems, replayed on the implementation
    w = {"nodes": [{"name": "a", "outputs": None, "payload": None, "inputs": []},
                   {"name": "b", "outputs": [], "payload": None, "inputs": [["payload", 0, "0"]]}], "sinks": [1]}
    gw = build_spec(w)
    res.evaluations += 1
    try:
        from earthkit.workflows.graph import deserialise
        deserialise(serialise(gw))
        res.disagree("witness of C12_roundtrip_any_input_name_refuted no longer fails on the implementation (model out of date)", {"kind": "spec", "spec": spec_to_json(w)})
    except TypeError:
        res.count("known-signature:" + SIG_RESERVED)
        if SIG_RESERVED in listed:
            res.fail(SIG_RESERVED, "input called 'payload' (set through node.inputs): deserialise(serialise(g)) raises TypeError", {"kind": "spec", "spec": spec_to_json(w), "flavour": "reserved-input"})
    except Exception as e:
        res.disagree(f"witness of C12_roundtrip_any_input_name_refuted fails with {type(e).__name__} instead of TypeError on the implementation", {"kind": "spec", "spec": spec_to_json(w)})
    w1 = {"nodes": [{"name": "a", "outputs": None, "payload": None, "inputs": []}], "sinks": [0]}
    classify(None, build_spec(w1), res, {"kind": "spec", "spec": spec_to_json(w1), "flavour": "witness:C12_sink_rule_before_fix_refuted"}, listed=listed)

    if creation:
        res.disagree("deserialise creates nodes in an order different from graphlib's static_order on the same dependencies", {"created": creation[0][0], "graphlib": creation[0][1]})

    for tag, cases, metas, checker, what in (
        ("ser", ser_cases, ser_meta, "check_ser", "serialise(g)"),
        ("deser", des_cases, des_meta, "check_deser", "deserialise(dict)"),
        ("eq", eq_cases, eq_meta, "check_eq", "Graph.__eq__"),
        ("json", js_cases, js_meta, "check_jsonify", "json.loads(json.dumps(serialised))"),
    ):
        r, logs = coq_results("C12", HEADER, cases, checker, shard=150, tag=tag)
        res.corr_checked += len(r)
        res.count("coq-cases:" + tag, len(r))
        for ok, meta in zip(r, metas):
            if ok is not True:
                res.disagree(f"Coq model of {what} disagrees with the implementation" + ("" if ok is False else " (cases file did not compile: " + (logs[0][-300:] if logs else "") + ")"), meta)
                break


# ----------------------------------------------------------------------------- search / replay
def search(ctx, res):
    import warnings
    warnings.simplefilter("ignore")
    from common import Result
    rng = ctx.sub_rng("search")
    listed = {f["signature"] for f in load_findings().get("open", []) if f.get("property") == "C12"}
    for i in range(20000):
        flavour = ["plain", "fluent-like", "plain", "plain"][i % 4]
        spec = gen_spec(rng, flavour)
        try:
            g = build_spec(spec)
        except Exception:
            continue
        objs = topo_objects(g)
        if len({o.name for o in objs}) != len(objs):
            continue
        r2 = Result()
        dom = domain_of(spec)
        if not dom["plain"]:
            continue
        bad = classify(None, g, r2, {"kind": "spec", "spec": spec_to_json(spec), "flavour": flavour}, faithful_json=dom["json"], listed=listed)
        if bad:
            f = r2.failures[0]
            return {"signature": f["signature"], "what": f["what"], "case": f["case"]}
    for i in range(600):
        desc = gen_fluent(rng)
        try:
            g = build_fluent(desc)
        except Exception:
            continue
        objs = topo_objects(g)
        if len({o.name for o in objs}) != len(objs):
            continue
        r2 = Result()
        if classify(None, g, r2, {"kind": "fluent", "desc": desc}, faithful_json=False, listed=listed):
            f = r2.failures[0]
            return {"signature": f["signature"], "what": f["what"], "case": f["case"]}
    return None


def shrink(ctx, f):
    """drop nodes / inputs of a failing spec while it still fails with the same signature"""
    import copy
    import warnings
    warnings.simplefilter("ignore")
    from common import Result
    case = f["case"]
    if case.get("kind") != "spec":
        return f
    sig = f["signature"]

    def fails(js):
        try:
            spec = spec_from_json(js)
            g = build_spec(spec)
            objs = topo_objects(g)
            if objs is None or len({o.name for o in objs}) != len(objs):
                return None
            r2 = Result()
            dom = domain_of(spec)
            classify(None, g, r2, {"kind": "spec", "spec": js, "flavour": case.get("flavour")}, faithful_json=dom["json"])
            for x in r2.failures:
                if x["signature"] == sig:
                    return x
        except Exception:
            return None
        return None
    best, bestf = case["spec"], f
    changed = True
    while changed:
        changed = False
        n = len(best["nodes"])
        for i in reversed(range(n)):
            if any(x[1] == i for nd in best["nodes"] for x in nd["inputs"]):
                continue
            js = copy.deepcopy(best)
            del js["nodes"][i]
            for nd in js["nodes"]:
                for x in nd["inputs"]:
                    if x[1] > i:
                        x[1] -= 1
            js["sinks"] = [s - (s > i) for s in js["sinks"] if s != i]
            r = fails(js)
            if r:
                best, bestf, changed = js, r, True
                break
        if changed:
            continue
        for i, nd in enumerate(best["nodes"]):
            for k in range(len(nd["inputs"])):
                js = copy.deepcopy(best)
                del js["nodes"][i]["inputs"][k]
                r = fails(js)
                if r:
                    best, bestf, changed = js, r, True
                    break
            if changed:
                break
            if nd["payload"] is not None:
                js = copy.deepcopy(best)
                js["nodes"][i]["payload"] = None
                r = fails(js)
                if r:
                    best, bestf, changed = js, r, True
                    break
    return bestf


def replay(ctx, case):
    import warnings
    warnings.simplefilter("ignore")
    from common import Result
    c = case.get("case", case)
    if c.get("kind") == "spec":
        spec = spec_from_json(c["spec"])
        g = build_spec(spec)
        dom = domain_of(spec)
        faithful = dom["json"]
    elif c.get("kind") == "fluent":
        g = build_fluent(c["desc"])
        faithful = False
    else:
        return {"fails": None, "note": "this replay names a broken proof / correspondence: re-run ./check C12"}
    r2 = Result()
    classify(None, g, r2, c, faithful_json=faithful)
    return {"fails": bool(r2.failures), "failures": [{"signature": f["signature"], "what": f["what"]} for f in r2.failures][:3]}
