"""C02 -- every task is dispatched exactly once, to a free suitable worker, after its inputs exist.
(a) real controller loop against the fake cluster, oracles on the Bridge trace, Coq replay;
(b) the real worker loop cascade.executor.runner.entrypoint.entrypoint driven by scripted
messages over a fake zmq socket, compared with Sched/Worker.v."""
import pickle

import sched_common as sc
from common import cN, clist, coq_results, cstr

TRUSTED = ["harness/sched_common.py: fake cluster behind the Bridge seam (mirrors coq/theories/Sched/Model.v)",
           "worker loop: zmq.Context, Memory, PackagesEnv, execute_sequence and callback of cascade.executor.runner.entrypoint replaced by recording fakes"]
ASSUMPTIONS = ["one task per TaskSequence", "every task declares at least one output",
               "the worker model covers the receive loop (which sequence starts when), not the task body (C10)"]

WHEADER = """From stdpp Require Import gmap.
From Coq Require Import NArith String.
From EKW Require Import Sched.Model Sched.Lit Sched.Worker Sched.WorkerCheck.
Local Open Scope N_scope.
Local Open Scope string_scope.
"""


class _Stop(Exception):
    pass


def worker_case(rng):
    """one scripted message sequence for one worker; returns (spec-ish, msgs)"""
    ntasks = rng.choice([1, 2, 3])
    nds = rng.choice([1, 2, 3, 4])
    dss = [(10 + i, rng.randrange(2)) for i in range(nds)]
    req = {t: sorted(set(rng.sample(dss, rng.randrange(0, nds + 1)))) for t in range(ntasks)}
    msgs = []
    pending = list(range(ntasks))
    rng.shuffle(pending)
    for _ in range(rng.randrange(2, 14)):
        k = rng.random()
        if k < 0.45:
            msgs.append(("pub", rng.choice(dss)))
        elif k < 0.6:
            msgs.append(("purge", rng.choice(dss)))
        elif pending and k < 0.9:
            msgs.append(("seq", pending.pop()))
        elif k < 0.93:
            msgs.append(("seq", rng.randrange(ntasks)))   # malformed stream: possibly a second sequence while one waits
        else:
            msgs.append(("pub", rng.choice(dss)))
    return req, msgs


def run_worker(req, msgs):
    """drive the REAL entrypoint loop; returns (log of started tasks with announcements so far, error)"""
    import cascade.executor.runner.entrypoint as ep
    from cascade.executor.msg import DatasetPublished, DatasetPurge, TaskSequence, WorkerShutdown
    from cascade.low.core import DatasetId, JobInstance, TaskDefinition, TaskInstance, WorkerId
    wid = WorkerId("h0", "w0")

    def did(d):
        return DatasetId(f"t{d[0]}", f"o{d[1]}")
    tasks = {}
    for t in req:
        tasks[f"t{t}"] = TaskInstance(definition=TaskDefinition(entrypoint="x", func=None, environment=[], input_schema={}, output_schema={"o0": "Any"}, needs_gpu=False),
                                      static_input_kw={}, static_input_ps={})
    for d in {d for ds in req.values() for d in ds}:
        tasks.setdefault(f"t{d[0]}", TaskInstance(definition=TaskDefinition(entrypoint="x", func=None, environment=[], input_schema={}, output_schema={"o0": "Any", "o1": "Any"}, needs_gpu=False),
                                                  static_input_kw={}, static_input_ps={}))
    job = JobInstance(tasks=tasks, edges=[])
    psrc = {f"t{t}": {i: did(d) for i, d in enumerate(ds)} for t, ds in req.items()}
    rc = ep.RunnerContext(workerId=wid, job=job, callback="cb", param_source=psrc)
    raw = []
    for m in msgs:
        if m[0] == "pub":
            raw.append(DatasetPublished(origin="h0", ds=did(m[1]), transmit_idx=None))
        elif m[0] == "purge":
            raw.append(DatasetPurge(ds=did(m[1])))
        else:
            raw.append(TaskSequence(worker=wid, tasks=[f"t{m[1]}"], publish=set()))
    raw.append(WorkerShutdown())
    seen, log = set(), []
    it = iter(raw)

    class Sock:
        def bind(self, a):
            pass

        def recv(self):
            m = next(it)
            if isinstance(m, DatasetPublished):
                seen.add((int(m.ds.task[1:]), int(m.ds.output[1:])))
            return pickle.dumps(m)

    class Ctx:
        def socket(self, k):
            return Sock()

    class Mem:
        def __init__(self, *a):
            pass

        def __enter__(self):
            return self

        def __exit__(self, *a):
            return False

        def provide(self, *a):
            pass

        def pop(self, *a):
            pass

    class Pk(Mem):
        pass
    saved = (ep.zmq, ep.Memory, ep.PackagesEnv, ep.execute_sequence, ep.callback, ep.logging)
    ep.zmq = type("Z", (), {"Context": staticmethod(lambda: Ctx()), "PULL": 0})
    ep.Memory, ep.PackagesEnv = Mem, Pk
    ep.execute_sequence = lambda ts, *a: log.append((int(ts.tasks[0][1:]), sorted(seen)))
    ep.callback = lambda *a: None
    import logging as _l
    ep.logging = type("L", (), {"config": type("C", (), {"dictConfig": staticmethod(lambda c: None)}), "getLogger": _l.getLogger})
    err = None
    try:
        ep.entrypoint(rc)
    except ValueError as e:
        err = str(e).split(":")[0]
    finally:
        ep.zmq, ep.Memory, ep.PackagesEnv, ep.execute_sequence, ep.callback, ep.logging = saved
    return log, err


def worker_part(ctx, res):
    rng = ctx.sub_rng("worker")
    terms, metas = [], []
    for i in range(ctx.n(250, 5000)):
        req, msgs = worker_case(rng)
        log, err = run_worker(req, msgs)
        res.evaluations += 1
        res.count("worker:" + ("error" if err else "ok"))
        case = {"part": "worker", "req": {str(k): v for k, v in req.items()}, "msgs": msgs}
        if len(msgs) >= 4:
            res.nontrivial_keys.add(("worker", repr(req), repr(msgs)))
        # property oracle: a started task had every required dataset announced before
        for t, seen in log:
            miss = [d for d in req[t] if tuple(d) not in {tuple(x) for x in seen}]
            if miss:
                res.fail("worker-started-before-arrival", f"task {t} started before {miss} were announced", case)
        if i == 0:
            res.samples.append(case)

        def cm(m):
            if m[0] == "pub":
                return f"WPub {sc.c_ds(m[1])}"
            if m[0] == "purge":
                return f"WPurge {sc.c_ds(m[1])}"
            return f"WSeq {cN(m[1])}"
        reqt = "mNsD " + clist(sorted(req.items()), lambda kv: f"({cN(kv[0])}, {clist(kv[1], sc.c_ds)})")
        exp = "inr " + cstr(err) if err else "inl " + clist(log, lambda p: f"({cN(p[0])}, sD {clist(p[1], sc.c_ds)})")
        terms.append(f"({reqt}, {clist(msgs, lambda m: '(' + cm(m) + ')')}, ({exp}))")
        metas.append(case)
    results, logs = coq_results("C02", WHEADER, terms, "check_worker", shard=60, tag="worker", case_type="gmap task (gset ds) * list wmsg * (list (task * gset ds) + string)")
    res.corr_checked += len(results)
    for ok, meta in zip(results, metas):
        if ok is not True:
            res.disagree("Coq model of the worker loop (Sched/Worker.v) disagrees with entrypoint.entrypoint" + (": " + logs[0][-300:] if logs and ok is None else ""), meta)
            break


def run(ctx, res):
    res.rule = ("(a) random DAGs x clusters x delivery modes through the real controller loop, every Bridge call checked; "
                "(b) scripted message sequences (publications, purges, task sequences, incl. a malformed stream) through the real worker loop; "
                "non-trivial = >= 2 tasks and >= 6 steps, or >= 4 worker messages; distinct by content")
    sc.run_family(ctx, res, "C02", ctx.n(200, 4000))
    if ctx.tier == "thorough":
        sc.run_family(ctx, res, "C02", 0, cases=sc.exhaustive_cases(ctx.sub_rng("exh")))
        res.extra["exhaustive_small_scope"] = "all jobs with <= 3 tasks (1-2 outputs, <= 2 inputs) x 4 cluster shapes x 3 requested-output sets x 2 delivery modes"
    worker_part(ctx, res)


def search(ctx, res):
    from common import Result
    r2 = Result()
    ctx2 = type(ctx)(ctx.pid, "thorough", ctx.seed + 101)
    sc.run_family(ctx2, r2, "C02", 1500, coq_every=10**9)
    return r2.failures[0] if r2.failures else None


def replay(ctx, case):
    c = case.get("case", case)
    if c.get("part") == "worker":
        req = {int(k): [tuple(d) for d in v] for k, v in c["req"].items()}
        msgs = [(m[0], tuple(m[1]) if isinstance(m[1], list) else m[1]) for m in c["msgs"]]
        log, err = run_worker(req, msgs)
        bad = [(t, d) for t, seen in log for d in req[t] if tuple(d) not in {tuple(x) for x in seen}]
        return {"fails": bool(bad), "bad": bad}
    return sc.replay_case(case)
