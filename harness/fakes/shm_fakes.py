"""Fakes for the seams of cascade.shm used by the C08/C09 harness:

* Registry      -- the world outside the Manager: named shared-memory segments and the files of the
                   page-out directory, both in memory
* FakeSharedMemory -- stand-in for multiprocessing.shared_memory.SharedMemory over the registry
                   (POSIX semantics: create fails if the name exists, open/unlink fail if it does not,
                   a mapping obtained before unlink stays usable)
* fake_open     -- the builtin open as used by disk.Disk._page_out/_page_in over the real temporary page-out directory;
                   an injected fault makes it raise OSError (disk full / unreadable file)
* ManualExecutor -- stand-in for ThreadPoolExecutor: submit() only records the job; the harness runs the
                   two halves of each job (the real Disk._page_out/_page_in body, then the real Manager
                   callback) when the op list says so
* Clock, UUIDs  -- scripted clocks / uuid.uuid4 (both only where the implementation still has the seam; the harness does not
                   depend on HOW reader ids are produced: it canonicalises the ids it observes).  Every clock of the `time` module
                   is a view of the one scripted `now`, each with its own epoch as on a real machine (wall clock: nanoseconds since
                   1970; monotonic: since boot; perf_counter: yet another origin), so that mixing clock domains shows
* Sched, Task    -- cooperative scheduling of the code that runs on the Disk threads (job bodies and Manager callbacks): such a
                   piece of code can be run as a Task in its own thread that the harness parks at the YIELD POINTS the code really has --
                   log calls, (blocking) lock acquisitions, every operation on a shared-memory segment, every operation on a page
                   file -- so that a request of the main thread or a step of another job can be run in between.  A task that holds a
                   watched lock is never parked (critical sections stay atomic, nobody else could enter them anyway)
* Hang, WatchedLock, wait_or_hang -- a check must never hang: every call into the implementation runs in a watched daemon thread;
                   a thread that takes a plain lock it already holds is reported at once (deterministically), any other blocking call
                   by a no-progress watchdog that looks at the scheduler state of the threads involved
"""
import io
import os
import sys
import threading
import time as _time
import types
import uuid as _uuid


class Hang(BaseException):
    """a call into the implementation blocks for ever (BaseException: `except Exception` in the implementation must not swallow it)"""


class TaskAbort(BaseException):
    """raised inside a parked task when its history ends (BaseException: no `except Exception` of the implementation swallows it)"""


class Task:
    """one piece of Disk-thread code (a job body or a Manager callback) in its own thread, run from yield point to yield point.
    Exactly one of {the history thread, this task} runs at any time: run_until hands over and waits for the task to park or end."""

    def __init__(self, fn, args, fault=False, name="task"):
        self.fn, self.args, self.fault, self.name = fn, args, fault, name
        self.thread = None
        self.done = False
        self.parked = False          # waiting for the harness (not for the implementation)
        self.parked_at = None        # label of the yield point it is about to pass
        self.passed = []             # labels of the yield points passed so far
        self.locks_held = 0
        self.stop = lambda label: False
        self.wake = threading.Event()
        self.report = threading.Event()
        self.abort = False
        self.exc = None
        self.hang = None

    def _main(self):
        SCHED.tasks[threading.get_ident()] = self
        try:
            self.fn(*self.args)
        except Hang as h:
            self.hang = str(h)
        except TaskAbort:
            pass
        except Exception as e:       # what a thread pool would park in the future object
            self.exc = e
        finally:
            SCHED.tasks.pop(threading.get_ident(), None)
            self.done = True
            self.parked_at = None
            self.report.set()

    def at_point(self, label):
        if self.locks_held > 0:
            return
        if self.abort:
            raise TaskAbort()
        if self.stop(label):
            self.parked_at = label
            self.parked = True
            self.report.set()
            self.wake.wait()
            self.wake.clear()
            self.parked = False
            if self.abort:
                raise TaskAbort()
            self.parked_at = None
        self.passed.append(label)

    def run_until(self, stop, timeout=60):
        """let the task run (start it if need be) until it is about to pass a yield point with stop(label), or ends; returns the
        labels it passed meanwhile"""
        n0 = len(self.passed)
        if self.done:
            return []
        self.stop = stop
        self.report.clear()
        if self.thread is None:
            self.thread = threading.Thread(target=self._main, daemon=True, name="verif-shm-" + self.name)
            self.thread.start()
        else:
            self.wake.set()
        if not self.report.wait(timeout):
            raise Hang(f"{self.name} neither reached a yield point nor ended within {timeout} s")
        if self.hang:
            raise Hang(self.hang)
        return self.passed[n0:]

    def finish(self):
        return self.run_until(lambda label: False)

    def kill(self):
        if self.thread is not None and not self.done:
            self.abort = True
            self.wake.set()
            self.thread.join(10)

    def busy(self):
        return self.thread is not None and self.thread.is_alive() and not self.parked


class Sched:
    def __init__(self):
        self.tasks = {}              # thread ident -> Task

    def current(self):
        return self.tasks.get(threading.get_ident())

    def point(self, label):
        t = self.tasks.get(threading.get_ident())
        if t is not None:
            t.at_point(label)


SCHED = Sched()


def counter_stop(n):
    """stop predicate: let n yield points pass, park at the next one"""
    left = [n]

    def stop(label):
        if left[0] <= 0:
            return True
        left[0] -= 1
        return False
    return stop


class YLogger:
    """stands in for the module-level `logger` of cascade.shm.dataset / disk: nothing is written, every call is a yield point
    (its arguments have been evaluated by then, as with the real logger)"""

    def _call(self, *a, **k):
        SCHED.point("log")

    debug = info = warning = warn = error = exception = critical = fatal = log = _call

    def isEnabledFor(self, *a, **k):
        return False

    def getEffectiveLevel(self):
        return 100

    def __getattr__(self, name):
        return lambda *a, **k: None


class YFile:
    """a page file whose every operation is a yield point"""

    def __init__(self, f):
        self._f = f

    def read(self, *a):
        SCHED.point("file:read")
        return self._f.read(*a)

    def readinto(self, *a):
        SCHED.point("file:read")
        return self._f.readinto(*a)

    def write(self, *a):
        SCHED.point("file:write")
        return self._f.write(*a)

    def close(self):
        SCHED.point("file:close")
        return self._f.close()

    def __enter__(self):
        return self

    def __exit__(self, *exc):
        self.close()
        return False

    def __iter__(self):
        return iter(self._f)

    def __getattr__(self, name):
        return getattr(self._f, name)


HANGS = {"seen": 0}
_LOCK_TYPE = type(threading.Lock())


class WatchedLock:
    """stands in for one plain threading.Lock attribute of the Manager, delegating to the real lock.  It records the events and
    turns the one deadlock a single thread can produce on its own -- a blocking acquire of a non-reentrant lock it holds --
    into a Hang raised in that thread instead of blocking it for ever"""

    def __init__(self, real, name, log):
        self._real, self._name, self._log, self._owner = real, name, log, None
        self._owner_task = None

    def acquire(self, blocking=True, timeout=-1):
        me = threading.get_ident()
        if blocking and self._owner != me:
            SCHED.point("lock:" + self._name)      # a Disk-thread task may be parked right before it takes the lock
        if blocking and (timeout is None or timeout < 0) and self._owner == me and self._real.locked():
            self._log.append((self._name, "reacquire"))
            raise Hang(f"a thread acquires the non-reentrant lock `{self._name}` while holding it: it would block for ever")
        ok = self._real.acquire(blocking, -1 if timeout is None else timeout)
        if ok:
            self._owner = me
            self._owner_task = SCHED.current()
            if self._owner_task is not None:
                self._owner_task.locks_held += 1
            self._log.append((self._name, "acq"))
        else:
            self._log.append((self._name, "busy"))
        return ok

    def release(self):
        self._owner = None
        if self._owner_task is not None:
            self._owner_task.locks_held -= 1
            self._owner_task = None
        self._log.append((self._name, "rel"))
        self._real.release()

    def locked(self):
        return self._real.locked()

    def __enter__(self):
        return self.acquire()

    def __exit__(self, *a):
        self.release()


def watch_locks(obj, log):
    """replace every plain-Lock attribute of obj by a WatchedLock (other lock kinds are left alone: the watchdog covers them)"""
    names = []
    for name, v in list(vars(obj).items()):
        if type(v) is _LOCK_TYPE:
            setattr(obj, name, WatchedLock(v, name, log))
            names.append(name)
    return names


def _thread_state(t):
    """(scheduler state letter, position of the innermost Python frame) of a thread; state None when /proc cannot tell"""
    st = None
    try:
        with open(f"/proc/self/task/{t.native_id}/stat") as f:
            st = f.read().rsplit(")", 1)[1].split()[0]
    except Exception:
        pass
    fr = sys._current_frames().get(t.ident)
    pos = None if fr is None else (fr.f_code.co_filename, fr.f_code.co_name, fr.f_lineno, fr.f_lasti)
    return st, pos


def wait_or_hang(done, beat, threads):
    """wait for `done`; report a hang (return a description) when there is no progress (beat() unchanged) and every thread involved
    (threads() -> the live threads working for this history that are not parked by the harness) has been asleep in the kernel at the
    same Python instruction for a while -- a merely slow or descheduled thread is runnable, not asleep.  The first hang of a process
    is confirmed over a longer time than later ones.  Last resort: no progress at all for several minutes."""
    first = HANGS["seen"] == 0
    need = 6.0 if first else 0.6
    hard = 240.0 if first else 45.0
    last, t_last, since, sig0 = beat(), _time.monotonic(), None, None
    while not done.wait(0.05):
        now = _time.monotonic()
        b = beat()
        if b != last:
            last, t_last, since, sig0 = b, now, None, None
            continue
        if now - t_last < 0.25:
            continue
        states = [_thread_state(t) for t in threads() if t.is_alive()]
        asleep = bool(states) and all(st in ("S", "t", "T") for st, _ in states)
        sig = tuple(pos for _, pos in states)
        if not asleep or sig != sig0:
            since, sig0 = now, (sig if asleep else None)
        elif now - since >= need:
            HANGS["seen"] += 1
            return f"no progress for {now - t_last:.1f} s, thread(s) asleep at {[p[1:3] if p else None for p in sig]}"
        if now - t_last > hard:
            HANGS["seen"] += 1
            return f"no progress for {now - t_last:.0f} s"
    return None


class Registry:
    def __init__(self):
        self.segs = {}     # name -> bytearray
        self.files = {}    # name -> bytes
        self.fault = False


WORLD = types.SimpleNamespace(reg=Registry(), avail=2 ** 62)


class FakeSharedMemory:
    def __init__(self, name=None, create=False, size=0, **kw):
        reg = WORLD.reg
        if name is None:
            raise ValueError("anonymous segments are not used by cascade.shm")
        SCHED.point("shm:create" if create else "shm:attach")
        if create:
            if not size > 0:
                raise ValueError("'size' must be a positive number different from zero")
            if name in reg.segs:
                raise FileExistsError(17, "File exists", name)
            reg.segs[name] = bytearray(size)
        else:
            if name not in reg.segs:
                raise FileNotFoundError(2, "No such file or directory", name)
        self._name = name
        self.name = name
        self._mem = reg.segs[name]
        self.size = len(self._mem)

    @property
    def buf(self):
        SCHED.point("shm:buf")
        return memoryview(self._mem)

    def close(self):
        SCHED.point("shm:close")

    def unlink(self):
        SCHED.point("shm:unlink")
        reg = WORLD.reg
        if self._name not in reg.segs:
            raise FileNotFoundError(2, "No such file or directory", self._name)
        del reg.segs[self._name]


def fake_open(path, mode="r", *a, **k):
    """the builtin open as seen by cascade.shm.disk: the page-out directory is a REAL temporary directory (so that whatever file API
    the code uses sees the same files); ours are the injected fault (per job) and the yield points"""
    t = SCHED.current()
    SCHED.point("file:open")
    if (t.fault if t is not None else WORLD.reg.fault):
        raise OSError(28, "injected disk fault", str(path))
    f = open(path, mode, *a, **k)
    return YFile(f) if t is not None else f


class Job:
    def __init__(self, jid, fn, args):
        self.jid, self.fn, self.args = jid, fn, args
        self.kind = "out" if fn.__name__ == "_page_out" else "in" if fn.__name__ == "_page_in" else fn.__name__
        self.shmid = args[0]
        self.size = args[1] if self.kind == "in" else None
        self.callback = args[-1]
        self.phase = "io"        # io -> (unlink, page-out only) -> cb -> done
        self.ok = None
        self.cb_exc = None
        self.got = []            # what the body reported through its callback argument
        self.btask = None        # the body, when it runs as a Task (page-out bodies always do)
        self.ctask = None        # the Manager callback, when it runs as a Task (fine-grained ops)
        self.fault = False

    def tasks(self):
        return [t for t in (self.btask, self.ctask) if t is not None]


class JobBoard:
    """all jobs submitted to either pool, in submission order.  Coarse steps (the op lists of every stream): io / unlink / cb.
    Fine-grained steps (stream conc): body_step, cb_part, cb_step run the same code as Tasks from yield point to yield point; the
    coarse steps finish whatever a fine-grained step has begun."""

    def __init__(self):
        self.jobs = []
        self.on_submit = None

    def submit(self, fn, *args):
        j = Job(len(self.jobs), fn, args)
        self.jobs.append(j)
        if self.on_submit:
            self.on_submit(j)
        return j

    def job(self, jid, *phases):
        if not (isinstance(jid, int) and 0 <= jid < len(self.jobs)) or self.jobs[jid].phase not in phases:
            return None
        return self.jobs[jid]

    # ---- bodies
    def _body_task(self, j, fault):
        if j.btask is None:
            j.fault = bool(fault)
            args = list(j.args[:-1]) + [lambda ok: j.got.append(bool(ok))]
            j.btask = Task(j.fn, args, fault=j.fault, name=f"body-{j.jid}")
        return j.btask

    def _after_body(self, j):
        t = j.btask
        if t.done:
            if t.exc is not None:
                raise RuntimeError(f"disk job body raised {t.exc!r}")
            if len(j.got) != 1:
                raise RuntimeError(f"disk job body called its callback {len(j.got)} times")
            j.ok, j.phase = j.got[0], "cb"
        elif j.kind == "out" and (t.parked_at == "shm:unlink" or "shm:unlink" in t.passed):
            j.phase = "unlink"

    def run_io(self, jid, fault=False):
        """page-in: the whole real body.  page-out: the real body up to (not including) its shm.unlink(): the body runs as a Task
        that is parked at the unlink until run_unlink"""
        j = self.job(jid, "io")
        if j is None:
            return False
        if j.kind != "out" and j.btask is None:
            reg = WORLD.reg          # (a thread abandoned after a hang must not touch the registry of a later history)
            reg.fault = j.fault = bool(fault)
            try:
                # the real Disk._page_in body; it reports through our deferred callback
                j.fn(*(list(j.args[:-1]) + [lambda ok: j.got.append(bool(ok))]))
            finally:
                reg.fault = False
            if len(j.got) != 1:
                raise RuntimeError(f"disk job body called its callback {len(j.got)} times")
            j.ok, j.phase = j.got[0], "cb"
            return True
        t = self._body_task(j, fault)
        t.run_until((lambda label: label == "shm:unlink") if j.kind == "out" else (lambda label: False))
        self._after_body(j)
        return True

    def run_unlink(self, jid):
        j = self.job(jid, "unlink")
        if j is None:
            return False
        j.btask.finish()
        self._after_body(j)
        return True

    def body_step(self, jid, fault, n):
        """fine-grained: start the body if need be (the fault flag counts only then) and let it pass n yield points; it parks at
        the next one or ends.  Returns the labels passed, or None when the job has no body to run"""
        j = self.job(jid, "io", "unlink")
        if j is None:
            return None
        t = self._body_task(j, fault)
        passed = t.run_until(counter_stop(n))
        self._after_body(j)
        return passed

    # ---- callbacks
    def _cb_task(self, j):
        if j.ctask is None:
            j.ctask = Task(j.callback, (j.ok,), name=f"cb-{j.jid}")
        return j.ctask

    def _after_cb(self, j):
        t = j.ctask
        if t.done:
            j.phase = "done"
            if t.exc is not None:
                j.cb_exc = type(t.exc).__name__

    def run_cb(self, jid):
        j = self.job(jid, "cb")
        if j is None:
            return False
        if j.ctask is not None:
            j.ctask.finish()
            self._after_cb(j)
            return True
        j.phase = "done"
        try:
            j.callback(j.ok)   # the real Manager callback (in the thread pool an exception would be parked in the future)
        except Exception as e:
            j.cb_exc = type(e).__name__
        return True

    def cb_part(self, jid):
        """fine-grained: run the callback up to its next blocking lock acquisition (parked right before it) or to its end"""
        j = self.job(jid, "cb")
        if j is None:
            return None
        passed = self._cb_task(j).run_until(lambda label: label.startswith("lock:"))
        self._after_cb(j)
        return passed

    def cb_step(self, jid, n):
        """fine-grained: let the callback pass n yield points of any kind"""
        j = self.job(jid, "cb")
        if j is None:
            return None
        passed = self._cb_task(j).run_until(counter_stop(n))
        self._after_cb(j)
        return passed

    def cb_in_flight(self):
        return [j for j in self.jobs if j.phase == "cb" and j.ctask is not None and not j.ctask.done]

    def busy_threads(self):
        """threads running real Disk-thread code that are not parked by the harness"""
        return [t.thread for j in self.jobs for t in j.tasks() if t.busy()]

    def abort_all(self):
        """end of a history: let parked bodies and callbacks die without touching anything"""
        for j in self.jobs:
            for t in j.tasks():
                if not t.done:
                    t.kill()
                    j.phase = "aborted"


BOARD = types.SimpleNamespace(board=JobBoard())


class ManualExecutor:
    def __init__(self, *a, **k):
        pass

    def submit(self, fn, *args, **kw):
        return BOARD.board.submit(fn, *args)

    def shutdown(self, *a, **k):
        pass


class Clock:
    """stands in for the `time` module (and for functions imported from it by name).  `now` is scripted by the history; the clocks
    are views of it with unrelated epochs: a stamp taken from one clock compared with a reading of another is off by decades"""
    WALL0 = 1_790_000_000_000_000_000      # ns since 1970 (September 2026)
    MONO0 = 263_000_000_000_000            # ns since boot (three days)
    PERF0 = 77_250_000_000

    def __init__(self):
        self.now = 1

    def time_ns(self):
        return self.WALL0 + self.now

    def time(self):
        return (self.WALL0 + self.now) / 1e9

    def sleep(self, *_):
        pass

    def monotonic_ns(self):
        return self.MONO0 + self.now

    def monotonic(self):
        return (self.MONO0 + self.now) / 1e9

    def perf_counter_ns(self):
        return self.PERF0 + self.now

    def perf_counter(self):
        return (self.PERF0 + self.now) / 1e9

    def __getattr__(self, name):
        return getattr(_time, name)


class UUIDs:
    """stands in for the `uuid` module where the implementation still draws reader ids from uuid.uuid4: the candidates scripted for
    the current request come first (to force collisions with ids of ongoing reads), then fresh deterministic ones; everything else
    is the real module.  Nothing depends on the implementation using it: ids are taken from the responses"""
    BASE = 0x70000000

    def __init__(self):
        self.script = []
        self.fresh = 0
        self.drawn = 0

    def uuid4(self):
        self.drawn += 1
        if self.script:
            n = self.script.pop(0)
        else:
            n = self.BASE + self.fresh
            self.fresh += 1
        return _uuid.UUID("%08x-0000-4000-8000-000000000000" % (n & 0xffffffff))

    def __getattr__(self, name):
        return getattr(_uuid, name)
