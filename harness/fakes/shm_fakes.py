"""Fakes for the seams of cascade.shm used by the C08/C09 harness:

* Registry      -- the world outside the Manager: named shared-memory segments and the files of the
                   page-out directory, both in memory
* FakeSharedMemory -- stand-in for multiprocessing.shared_memory.SharedMemory over the registry
                   (POSIX semantics: create fails if the name exists, open/unlink fail if it does not,
                   a mapping obtained before unlink stays usable)
* fake_open     -- the builtin open as used by disk.Disk._page_out/_page_in over the real temporary page-out directory;
                   an injected fault makes it raise OSError (disk full / unreadable file)
* ManualExecutor -- stand-in for ThreadPoolExecutor: submit() only records the job; the harness runs the
                   two halves of each job (the real Disk._page_out/_page_in body, then the real Manager
                   callback) when the op list says so
* Clock, UUIDs  -- scripted time.time_ns / uuid.uuid4
"""
import io
import threading
import types


class Registry:
    def __init__(self):
        self.segs = {}     # name -> bytearray
        self.files = {}    # name -> bytes
        self.fault = False


WORLD = types.SimpleNamespace(reg=Registry(), gates={})


class Gate:
    """holds the thread that runs a real Disk._page_out body just before its shm.unlink()"""

    def __init__(self):
        self.progress = threading.Event()   # set when the body reached the gate or ended
        self.go = threading.Event()
        self.at_gate = False
        self.passed = False
        self.abort = False


class FakeSharedMemory:
    def __init__(self, name=None, create=False, size=0, **kw):
        reg = WORLD.reg
        if name is None:
            raise ValueError("anonymous segments are not used by cascade.shm")
        if create:
            if not size > 0:
                raise ValueError("'size' must be a positive number different from zero")
            if name in reg.segs:
                raise FileExistsError(17, "File exists", name)
            reg.segs[name] = bytearray(size)
        else:
            if name not in reg.segs:
                raise FileNotFoundError(2, "No such file or directory", name)
        self._name = name
        self.name = name
        self._mem = reg.segs[name]
        self.size = len(self._mem)

    @property
    def buf(self):
        return memoryview(self._mem)

    def close(self):
        pass

    def unlink(self):
        g = WORLD.gates.get(threading.get_ident())
        if g is not None and not g.passed:
            g.passed = True
            g.at_gate = True
            g.progress.set()
            g.go.wait(60)
            if g.abort:
                raise FileNotFoundError(2, "history ended before the unlink step", self._name)
        reg = WORLD.reg
        if self._name not in reg.segs:
            raise FileNotFoundError(2, "No such file or directory", self._name)
        del reg.segs[self._name]


def fake_open(path, mode="r", *a, **k):
    """the builtin open as seen by cascade.shm.disk: the page-out directory is a REAL temporary directory (so that whatever file API
    the code uses sees the same files); only the injected fault is ours"""
    if WORLD.reg.fault:
        raise OSError(28, "injected disk fault", str(path))
    return open(path, mode, *a, **k)


class Job:
    def __init__(self, jid, fn, args):
        self.jid, self.fn, self.args = jid, fn, args
        self.kind = "out" if fn.__name__ == "_page_out" else "in" if fn.__name__ == "_page_in" else fn.__name__
        self.shmid = args[0]
        self.size = args[1] if self.kind == "in" else None
        self.callback = args[-1]
        self.phase = "io"        # io -> (unlink, page-out only) -> cb -> done
        self.ok = None
        self.cb_exc = None


class JobBoard:
    """all jobs submitted to either pool, in submission order"""

    def __init__(self):
        self.jobs = []
        self.on_submit = None

    def submit(self, fn, *args):
        j = Job(len(self.jobs), fn, args)
        self.jobs.append(j)
        if self.on_submit:
            self.on_submit(j)
        return j

    def run_io(self, jid, fault=False):
        """page-in: the whole real body.  page-out: the real body up to (not including) its shm.unlink(): the body runs in a
        helper thread that is parked at the unlink until run_unlink; the caller only continues once the thread is parked or done"""
        if not (0 <= jid < len(self.jobs)) or self.jobs[jid].phase != "io":
            return False
        j = self.jobs[jid]
        got = []
        args = list(j.args[:-1]) + [lambda ok: got.append(bool(ok))]
        j.got = got
        WORLD.reg.fault = bool(fault)
        try:
            if j.kind != "out":
                j.fn(*args)     # the real Disk._page_in body; it reports through our deferred callback
            else:
                gate = Gate()

                def body():
                    WORLD.gates[threading.get_ident()] = gate
                    try:
                        j.fn(*args)
                    finally:
                        WORLD.gates.pop(threading.get_ident(), None)
                        gate.at_gate = False
                        gate.progress.set()
                t = threading.Thread(target=body, daemon=True)
                j.gate, j.thread = gate, t
                t.start()
                if not gate.progress.wait(60):
                    raise RuntimeError("page-out body neither reached its unlink nor ended")
                if gate.at_gate:
                    j.phase = "unlink"
                    return True
                t.join(60)
        finally:
            WORLD.reg.fault = False
        if len(got) != 1:
            raise RuntimeError(f"disk job body called its callback {len(got)} times")
        j.ok, j.phase = got[0], "cb"
        return True

    def run_unlink(self, jid):
        if not (0 <= jid < len(self.jobs)) or self.jobs[jid].phase != "unlink":
            return False
        j = self.jobs[jid]
        j.gate.progress.clear()
        j.gate.go.set()
        j.thread.join(60)
        if len(j.got) != 1:
            raise RuntimeError(f"disk job body called its callback {len(j.got)} times")
        j.ok, j.phase = j.got[0], "cb"
        return True

    def abort_all(self):
        """end of a history: let parked page-out bodies die without touching anything"""
        for j in self.jobs:
            if j.phase == "unlink":
                j.gate.abort = True
                j.gate.go.set()
                j.thread.join(60)
                j.phase = "aborted"

    def run_cb(self, jid):
        if not (0 <= jid < len(self.jobs)) or self.jobs[jid].phase != "cb":
            return False
        j = self.jobs[jid]
        j.phase = "done"
        try:
            j.callback(j.ok)   # the real Manager callback (in the thread pool an exception would be parked in the future)
        except Exception as e:
            j.cb_exc = type(e).__name__
        return True


BOARD = types.SimpleNamespace(board=JobBoard())


class ManualExecutor:
    def __init__(self, *a, **k):
        pass

    def submit(self, fn, *args, **kw):
        return BOARD.board.submit(fn, *args)

    def shutdown(self, *a, **k):
        pass


class Clock:
    def __init__(self):
        self.now = 1

    def time_ns(self):
        return self.now

    def time(self):
        return self.now / 1e9

    def sleep(self, *_):
        pass


class UUIDs:
    """uuid.uuid4 scripted: str(uuid4())[:8] is the 8-hex-digit rendering of the next candidate"""

    def __init__(self):
        self.script = []
        self.exhausted = False

    def uuid4(self):
        if not self.script:
            self.exhausted = True
            raise RuntimeError("uuid script exhausted")
        n = self.script.pop(0)
        return "%08x-0000-4000-8000-000000000000" % n
