"""Fakes for the seams of cascade.shm used by the C08/C09 harness:

* Registry      -- the world outside the Manager: named shared-memory segments and the files of the
                   page-out directory, both in memory
* FakeSharedMemory -- stand-in for multiprocessing.shared_memory.SharedMemory over the registry
                   (POSIX semantics: create fails if the name exists, open/unlink fail if it does not,
                   a mapping obtained before unlink stays usable)
* fake_open     -- the builtin open as used by disk.Disk._page_out/_page_in over the real temporary page-out directory;
                   an injected fault makes it raise OSError (disk full / unreadable file)
* ManualExecutor -- stand-in for ThreadPoolExecutor: submit() only records the job; the harness runs the
                   two halves of each job (the real Disk._page_out/_page_in body, then the real Manager
                   callback) when the op list says so
* Clock, UUIDs  -- scripted time.time_ns / uuid.uuid4 (both only where the implementation still has the seam; the harness does not
                   depend on HOW reader ids are produced: it canonicalises the ids it observes)
* Hang, WatchedLock, wait_or_hang -- a check must never hang: every call into the implementation runs in a watched daemon thread;
                   a thread that takes a plain lock it already holds is reported at once (deterministically), any other blocking call
                   by a no-progress watchdog that looks at the scheduler state of the threads involved
"""
import io
import os
import sys
import threading
import time as _time
import types
import uuid as _uuid


class Hang(BaseException):
    """a call into the implementation blocks for ever (BaseException: `except Exception` in the implementation must not swallow it)"""


HANGS = {"seen": 0}
_LOCK_TYPE = type(threading.Lock())


class WatchedLock:
    """stands in for one plain threading.Lock attribute of the Manager, delegating to the real lock.  It records the events and
    turns the one deadlock a single thread can produce on its own -- a blocking acquire of a non-reentrant lock it holds --
    into a Hang raised in that thread instead of blocking it for ever"""

    def __init__(self, real, name, log):
        self._real, self._name, self._log, self._owner = real, name, log, None

    def acquire(self, blocking=True, timeout=-1):
        me = threading.get_ident()
        if blocking and (timeout is None or timeout < 0) and self._owner == me and self._real.locked():
            self._log.append((self._name, "reacquire"))
            raise Hang(f"a thread acquires the non-reentrant lock `{self._name}` while holding it: it would block for ever")
        ok = self._real.acquire(blocking, -1 if timeout is None else timeout)
        if ok:
            self._owner = me
            self._log.append((self._name, "acq"))
        else:
            self._log.append((self._name, "busy"))
        return ok

    def release(self):
        self._owner = None
        self._log.append((self._name, "rel"))
        self._real.release()

    def locked(self):
        return self._real.locked()

    def __enter__(self):
        return self.acquire()

    def __exit__(self, *a):
        self.release()


def watch_locks(obj, log):
    """replace every plain-Lock attribute of obj by a WatchedLock (other lock kinds are left alone: the watchdog covers them)"""
    names = []
    for name, v in list(vars(obj).items()):
        if type(v) is _LOCK_TYPE:
            setattr(obj, name, WatchedLock(v, name, log))
            names.append(name)
    return names


def _thread_state(t):
    """(scheduler state letter, position of the innermost Python frame) of a thread; state None when /proc cannot tell"""
    st = None
    try:
        with open(f"/proc/self/task/{t.native_id}/stat") as f:
            st = f.read().rsplit(")", 1)[1].split()[0]
    except Exception:
        pass
    fr = sys._current_frames().get(t.ident)
    pos = None if fr is None else (fr.f_code.co_filename, fr.f_code.co_name, fr.f_lineno, fr.f_lasti)
    return st, pos


def wait_or_hang(done, beat, threads):
    """wait for `done`; report a hang (return a description) when there is no progress (beat() unchanged) and every thread involved
    (threads() -> the live threads working for this history that are not parked by the harness) has been asleep in the kernel at the
    same Python instruction for a while -- a merely slow or descheduled thread is runnable, not asleep.  The first hang of a process
    is confirmed over a longer time than later ones.  Last resort: no progress at all for several minutes."""
    first = HANGS["seen"] == 0
    need = 6.0 if first else 0.6
    hard = 240.0 if first else 45.0
    last, t_last, since, sig0 = beat(), _time.monotonic(), None, None
    while not done.wait(0.05):
        now = _time.monotonic()
        b = beat()
        if b != last:
            last, t_last, since, sig0 = b, now, None, None
            continue
        if now - t_last < 0.25:
            continue
        states = [_thread_state(t) for t in threads() if t.is_alive()]
        asleep = bool(states) and all(st in ("S", "t", "T") for st, _ in states)
        sig = tuple(pos for _, pos in states)
        if not asleep or sig != sig0:
            since, sig0 = now, (sig if asleep else None)
        elif now - since >= need:
            HANGS["seen"] += 1
            return f"no progress for {now - t_last:.1f} s, thread(s) asleep at {[p[1:3] if p else None for p in sig]}"
        if now - t_last > hard:
            HANGS["seen"] += 1
            return f"no progress for {now - t_last:.0f} s"
    return None


class Registry:
    def __init__(self):
        self.segs = {}     # name -> bytearray
        self.files = {}    # name -> bytes
        self.fault = False


WORLD = types.SimpleNamespace(reg=Registry(), gates={})


class Gate:
    """holds the thread that runs a real Disk._page_out body just before its shm.unlink()"""

    def __init__(self):
        self.progress = threading.Event()   # set when the body reached the gate or ended
        self.go = threading.Event()
        self.at_gate = False
        self.passed = False
        self.abort = False
        self.parked = False                 # the body thread is waiting for the harness (not for the implementation)


class FakeSharedMemory:
    def __init__(self, name=None, create=False, size=0, **kw):
        reg = WORLD.reg
        if name is None:
            raise ValueError("anonymous segments are not used by cascade.shm")
        if create:
            if not size > 0:
                raise ValueError("'size' must be a positive number different from zero")
            if name in reg.segs:
                raise FileExistsError(17, "File exists", name)
            reg.segs[name] = bytearray(size)
        else:
            if name not in reg.segs:
                raise FileNotFoundError(2, "No such file or directory", name)
        self._name = name
        self.name = name
        self._mem = reg.segs[name]
        self.size = len(self._mem)

    @property
    def buf(self):
        return memoryview(self._mem)

    def close(self):
        pass

    def unlink(self):
        g = WORLD.gates.get(threading.get_ident())
        if g is not None and not g.passed:
            g.passed = True
            g.at_gate = True
            g.progress.set()
            g.parked = True
            g.go.wait(60)
            g.parked = False
            if g.abort:
                raise FileNotFoundError(2, "history ended before the unlink step", self._name)
        reg = WORLD.reg
        if self._name not in reg.segs:
            raise FileNotFoundError(2, "No such file or directory", self._name)
        del reg.segs[self._name]


def fake_open(path, mode="r", *a, **k):
    """the builtin open as seen by cascade.shm.disk: the page-out directory is a REAL temporary directory (so that whatever file API
    the code uses sees the same files); only the injected fault is ours"""
    if WORLD.reg.fault:
        raise OSError(28, "injected disk fault", str(path))
    return open(path, mode, *a, **k)


class Job:
    def __init__(self, jid, fn, args):
        self.jid, self.fn, self.args = jid, fn, args
        self.kind = "out" if fn.__name__ == "_page_out" else "in" if fn.__name__ == "_page_in" else fn.__name__
        self.shmid = args[0]
        self.size = args[1] if self.kind == "in" else None
        self.callback = args[-1]
        self.phase = "io"        # io -> (unlink, page-out only) -> cb -> done
        self.ok = None
        self.cb_exc = None


class JobBoard:
    """all jobs submitted to either pool, in submission order"""

    def __init__(self):
        self.jobs = []
        self.on_submit = None

    def submit(self, fn, *args):
        j = Job(len(self.jobs), fn, args)
        self.jobs.append(j)
        if self.on_submit:
            self.on_submit(j)
        return j

    def run_io(self, jid, fault=False):
        """page-in: the whole real body.  page-out: the real body up to (not including) its shm.unlink(): the body runs in a
        helper thread that is parked at the unlink until run_unlink; the caller only continues once the thread is parked or done"""
        if not (0 <= jid < len(self.jobs)) or self.jobs[jid].phase != "io":
            return False
        j = self.jobs[jid]
        got = []
        args = list(j.args[:-1]) + [lambda ok: got.append(bool(ok))]
        j.got = got
        reg = WORLD.reg          # (a thread abandoned after a hang must not touch the registry of a later history)
        reg.fault = bool(fault)
        try:
            if j.kind != "out":
                j.fn(*args)     # the real Disk._page_in body; it reports through our deferred callback
            else:
                gate = Gate()

                def body():
                    WORLD.gates[threading.get_ident()] = gate
                    try:
                        j.fn(*args)
                    except Hang as h:
                        j.hang = str(h)
                    finally:
                        WORLD.gates.pop(threading.get_ident(), None)
                        gate.at_gate = False
                        gate.progress.set()
                t = threading.Thread(target=body, daemon=True)
                j.gate, j.thread = gate, t
                t.start()
                if not gate.progress.wait(60):
                    raise Hang("page-out body neither reached its unlink nor ended within 60 s")
                if gate.at_gate:
                    j.phase = "unlink"
                    return True
                t.join(60)
        finally:
            reg.fault = False
        if getattr(j, "hang", None) or (j.kind == "out" and j.thread.is_alive()):
            raise Hang(getattr(j, "hang", None) or "page-out body did not end within 60 s")
        if len(got) != 1:
            raise RuntimeError(f"disk job body called its callback {len(got)} times")
        j.ok, j.phase = got[0], "cb"
        return True

    def run_unlink(self, jid):
        if not (0 <= jid < len(self.jobs)) or self.jobs[jid].phase != "unlink":
            return False
        j = self.jobs[jid]
        j.gate.progress.clear()
        j.gate.go.set()
        j.thread.join(60)
        if getattr(j, "hang", None) or j.thread.is_alive():
            raise Hang(getattr(j, "hang", None) or "page-out body did not end within 60 s of its unlink")
        if len(j.got) != 1:
            raise RuntimeError(f"disk job body called its callback {len(j.got)} times")
        j.ok, j.phase = j.got[0], "cb"
        return True

    def busy_threads(self):
        """threads running a real page-out body that are not parked at the gate by the harness"""
        return [j.thread for j in self.jobs if getattr(j, "thread", None) is not None and j.thread.is_alive() and not j.gate.parked]

    def abort_all(self):
        """end of a history: let parked page-out bodies die without touching anything"""
        for j in self.jobs:
            if j.phase == "unlink":
                j.gate.abort = True
                j.gate.go.set()
                j.thread.join(60)
                j.phase = "aborted"

    def run_cb(self, jid):
        if not (0 <= jid < len(self.jobs)) or self.jobs[jid].phase != "cb":
            return False
        j = self.jobs[jid]
        j.phase = "done"
        try:
            j.callback(j.ok)   # the real Manager callback (in the thread pool an exception would be parked in the future)
        except Exception as e:
            j.cb_exc = type(e).__name__
        return True


BOARD = types.SimpleNamespace(board=JobBoard())


class ManualExecutor:
    def __init__(self, *a, **k):
        pass

    def submit(self, fn, *args, **kw):
        return BOARD.board.submit(fn, *args)

    def shutdown(self, *a, **k):
        pass


class Clock:
    def __init__(self):
        self.now = 1

    def time_ns(self):
        return self.now

    def time(self):
        return self.now / 1e9

    def sleep(self, *_):
        pass

    def monotonic_ns(self):
        return self.now

    def monotonic(self):
        return self.now / 1e9

    def __getattr__(self, name):
        return getattr(_time, name)


class UUIDs:
    """stands in for the `uuid` module where the implementation still draws reader ids from uuid.uuid4: the candidates scripted for
    the current request come first (to force collisions with ids of ongoing reads), then fresh deterministic ones; everything else
    is the real module.  Nothing depends on the implementation using it: ids are taken from the responses"""
    BASE = 0x70000000

    def __init__(self):
        self.script = []
        self.fresh = 0
        self.drawn = 0

    def uuid4(self):
        self.drawn += 1
        if self.script:
            n = self.script.pop(0)
        else:
            n = self.BASE + self.fresh
            self.fresh += 1
        return _uuid.UUID("%08x-0000-4000-8000-000000000000" % (n & 0xffffffff))

    def __getattr__(self, name):
        return getattr(_uuid, name)
