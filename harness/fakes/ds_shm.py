"""The shm side of the C07 fakes, BELOW cascade.shm.client: the REAL client functions (allocate / get / purge /
close_callback / _send_command, AllocatedBuffer, api.ser / api.deser) run against

  * a fake DATAGRAM SOCKET (socket.socket is swapped for the duration of a case): connect / send / sendto / recv /
    recvfrom / settimeout / close ...; a datagram sent goes to the fake shm server of the host whose code is running,
    the server's answer goes to the receive buffer of the socket the request came from -- when that socket has been
    closed meanwhile the answer is lost, as a datagram to a closed port is; a socket that is kept keeps whatever
    arrives for it;
  * a fake shm SERVER per host: single threaded, serves the datagrams in arrival order, one answer per request
    (cascade.shm.server.LocalServer.start), with the rules of cascade.shm.dataset.Manager as far as a data server
    and a worker can tell (no capacity limit, so no page-out): add on an existing key -> conflict (whatever the
    state of that entry), get of an entry that is allocated but not closed yet -> wait, get of a missing key -> error,
    close of the writer created -> in_memory, reader ids and their close, purge delayed while readers are open.
    The trace makes the server SLOW: `busy(skip, ms)` = the (skip+1)-th request from now is answered ms later than
    it could be (a busy spell, a deep queue, a lock held by a page-out callback); requests behind it wait (one
    thread).  Nothing is lost, duplicated or reordered;
  * time: a client that waits for an answer lets the (fake, global) clock run until the answer is there or until the
    socket's timeout expires (then socket.timeout is raised); time.sleep lets the clock run too.  A recv that can never
    be satisfied (no timeout, nothing under way for that socket) is a thread blocked for ever: reported, the job
    never finishes;
  * the segments: multiprocessing.shared_memory.SharedMemory is an in-memory registry (POSIX rules: create fails on
    an existing name, open / unlink fail on a missing one, an open mapping survives unlink).

Every datagram event is logged per host (send / handle / recv / timeout / close): the harness turns the log into a
term for Net/ShmRpcCheck.v.  A stepped pool job can be made to pause after every request datagram it sends (and in
every time.sleep), so that the requests of the two pool threads interleave at the server as the trace says."""
import hashlib
import threading
import time as _time

REAL_SLEEP = _time.sleep
REAL_CLOCKS = {n: getattr(_time, n) for n in ("time", "monotonic", "perf_counter", "monotonic_ns", "perf_counter_ns")}
SOCK_TIMEOUT = TimeoutError   # socket.timeout


class ShmHang(BaseException):
    """a thread of the implementation waits for a datagram that nobody will ever send (BaseException: the
    implementation's `except Exception` must not turn a hang into an ordinary failure)"""


def cur_cluster():
    from ds_fakes import current_cluster
    return current_cluster()


# ----------------------------------------------------------------------------- segments
class FakeSharedMemory:
    def __init__(self, name=None, create=False, size=0, **kw):
        cl = cur_cluster()
        if name is None:
            raise ValueError("anonymous segments are not used by cascade.shm")
        segs = cl.segments
        if create:
            if not size > 0:
                raise ValueError("'size' must be a positive number different from zero")
            if name in segs:
                raise FileExistsError(17, "File exists", name)
            segs[name] = bytearray(size)
        elif name not in segs:
            raise FileNotFoundError(2, "No such file or directory", name)
        self._name = name
        self.name = name
        self._mem = segs[name]
        self.size = len(self._mem)
        self._buf = memoryview(self._mem)
        self._cluster = cl
        self.created_here = create
        cl.open_handles.append(self)

    @property
    def buf(self):
        return self._buf

    def close(self):
        if self._buf is not None:
            self._buf.release()
            self._buf = None
            if self in self._cluster.open_handles:
                self._cluster.open_handles.remove(self)

    def unlink(self):
        segs = self._cluster.segments
        if self._name not in segs:
            raise FileNotFoundError(2, "No such file or directory", self._name)
        del segs[self._name]


# ----------------------------------------------------------------------------- the server
class Entry:
    def __init__(self, shmid, size, deser_fun):
        self.shmid, self.size, self.deser_fun = shmid, size, deser_fun
        self.status = "created"
        self.readers = []
        self.delayed_purge = False


class ShmServer:
    def __init__(self, cluster, host):
        self.cluster, self.host = cluster, host
        self.entries = {}
        self.queue = []        # [data, sock, ready_at]: arrival order
        self.plan = []         # [[skip, ms]]: busy spells to come
        self.alloc_count = {}
        self.nrd = 0
        self.log = []          # datagram events of this host
        self.answered_late = []

    def shmid(self, key):
        return f"h{self.host}x" + hashlib.md5(key.encode()).hexdigest()[:18]

    def busy(self, skip, ms):
        self.plan.append([skip, ms])

    # --- datagrams
    def arrive(self, data, sock):
        now = self.cluster.clock.ns
        delay = 0
        for p in list(self.plan):
            if p[0] <= 0:
                delay += p[1] * 1_000_000
                self.plan.remove(p)
            else:
                p[0] -= 1
        start = max(now, self.queue[-1][2]) if self.queue else now
        self.queue.append([bytes(data), sock, start + delay, delay])
        self.log.append(("send", sock.sid, bytes(data), self.cluster.sender_tag()))
        self.work()

    def work(self):
        now = self.cluster.clock.ns
        while self.queue and self.queue[0][2] <= now:
            data, sock, _, delay = self.queue.pop(0)
            resp, seg = self.handle(data)
            self.log.append(("handle", sock.sid, data, resp, seg))
            if delay:
                self.answered_late.append(delay // 1_000_000)
            if not sock.closed:
                sock.rx.append(resp)
            else:
                self.cluster.shm_lost_answers.append((self.host, data, resp))

    def next_ready_for(self, sock):
        for data, s, ready_at, _ in self.queue:
            if s is sock:
                return ready_at
        return None

    # --- cascade.shm.server.LocalServer.start, one request; cascade.shm.dataset.Manager without capacity pressure
    def handle(self, data):
        api = self.cluster.shm_api
        seg = False
        try:
            req = api.deser(data)
        except Exception:   # the real server dies on an undecodable datagram; here: an error answer
            return api.ser(api.OkResponse(error="undecodable request")), seg
        try:
            if isinstance(req, api.AllocateRequest):
                if req.key in self.entries:
                    resp = api.AllocateResponse(shmid="", error="conflict")
                else:
                    self.entries[req.key] = Entry(self.shmid(req.key), req.l, req.deser_fun)
                    self.alloc_count[req.key] = self.alloc_count.get(req.key, 0) + 1
                    resp = api.AllocateResponse(shmid=self.entries[req.key].shmid, error="")
            elif isinstance(req, api.CloseCallback):
                e = self.entries[req.key]
                if not req.rdid:
                    if e.status != "created":
                        raise ValueError(f"invalid transition from {e.status} for {req.key} and {req.rdid}")
                    e.status = "in_memory"
                else:
                    if e.status != "in_memory":
                        raise ValueError(f"invalid transition from {e.status} for {req.key} and {req.rdid}")
                    if req.rdid in e.readers:
                        e.readers.remove(req.rdid)
                if e.delayed_purge and not e.readers:
                    seg = self.purge(req.key)
                resp = api.OkResponse()
            elif isinstance(req, api.GetRequest):
                e = self.entries[req.key]
                if e.status == "created":
                    resp = api.GetResponse(shmid="", l=0, rdid="", deser_fun="", error="wait")
                else:
                    self.nrd += 1
                    rdid = f"r{self.nrd}"
                    e.readers.append(rdid)
                    resp = api.GetResponse(shmid=e.shmid, l=e.size, rdid=rdid, deser_fun=e.deser_fun, error="")
            elif isinstance(req, api.PurgeRequest):
                seg = self.purge(req.key)
                resp = api.OkResponse()
            elif isinstance(req, api.DatasetStatusRequest):
                e = self.entries.get(req.key)
                st = api.DatasetStatus.ready if e is not None and e.status == "in_memory" else api.DatasetStatus.not_present
                resp = api.DatasetStatusResponse(status=st)
            elif isinstance(req, api.FreeSpaceRequest):
                resp = api.FreeSpaceResponse(free_space=1 << 40)
            elif isinstance(req, (api.StatusInquiry, api.ShutdownCommand)):
                resp = api.OkResponse()
            else:
                raise ValueError(f"unsupported: {type(req)}")
        except Exception as e:
            resp = api.OkResponse(error=repr(e))
        return api.ser(resp), seg

    def purge(self, key):
        """Manager.purge(key, False); -> did the segment exist (what the file system says, not the server)"""
        self.cluster.on_purge(self.host, key)
        e = self.entries.get(key)
        if e is None:
            return False          # KeyError, logged inside purge
        if e.readers:
            e.delayed_purge = True
            return False
        if e.shmid not in self.cluster.segments:
            return False          # SharedMemory(shmid) raises, logged: the entry stays
        del self.cluster.segments[e.shmid]
        del self.entries[key]
        return True


class HostView:
    """what the oracle reads of a host's shared memory"""

    def __init__(self, cluster, host, server):
        self.cluster, self.host, self.server = cluster, host, server

    @property
    def data(self):
        out = {}
        for key, e in self.server.entries.items():
            if e.status == "in_memory":
                seg = self.cluster.segments.get(e.shmid)
                out[key] = (bytes(seg[:e.size]) if seg is not None else None, e.deser_fun)
        return out

    @property
    def created(self):
        return {k for k, e in self.server.entries.items() if e.status == "created"}

    @property
    def alloc_count(self):
        return self.server.alloc_count

    @property
    def open_bufs(self):
        by_shmid = {e.shmid: k for k, e in self.server.entries.items()}
        out = []
        for hnd in self.cluster.open_handles:
            if hnd.name in by_shmid:
                out.append(_Open(by_shmid[hnd.name]))
        return out

    def describe(self, key):
        e = self.server.entries.get(key)
        if e is None:
            return "no entry"
        return f"entry {e.status}, {len(e.readers)} readers" + (", purge pending" if e.delayed_purge else "")


class _Open:
    def __init__(self, key):
        self.key = key


# ----------------------------------------------------------------------------- the socket
_NSOCK = [0]


class DgramSocket:
    """socket.socket(AF_INET, SOCK_DGRAM) as far as a client of the shm server uses it"""

    def __init__(self, family=-1, type=-1, proto=-1, fileno=None):
        _NSOCK[0] += 1
        self.sid = _NSOCK[0]
        self.made_in = cur_cluster()
        self.rx = []
        self.timeout = None
        self.closed = False
        self.peer = None
        self.family, self.type, self.proto = family, type, proto
        self.server = None

    # --- plumbing
    def _server(self):
        cl = cur_cluster()
        if self.made_in is not cl:     # a socket the code under test keeps in a module-level place outlives the case
            self.made_in, self.rx, self.server = cl, [], None
        srv = cl.shm_server[cl.cur_host()]
        self.server = srv
        return srv

    def connect(self, address, *a, **k):
        self.peer = address

    def connect_ex(self, address, *a, **k):
        self.peer = address
        return 0

    def bind(self, address, *a, **k):
        pass

    def getsockname(self):
        return ("127.0.0.1", 40000 + self.sid % 20000)

    def getpeername(self):
        return self.peer

    def settimeout(self, t):
        self.timeout = None if t is None else float(t)

    def gettimeout(self):
        return self.timeout

    def setblocking(self, flag):
        self.timeout = None if flag else 0.0

    def setsockopt(self, *a, **k):
        pass

    def getsockopt(self, *a, **k):
        return 0

    def fileno(self):
        return -1 if self.closed else 1000 + self.sid

    def shutdown(self, *a, **k):
        pass

    def __enter__(self):
        return self

    def __exit__(self, *a):
        self.close()

    def close(self):
        if not self.closed:
            self.closed = True
            if self.server is not None:
                self.server.log.append(("close", self.sid))

    # --- datagrams
    def send(self, data, flags=0, *a, **k):
        if self.closed:
            raise OSError(9, "Bad file descriptor")
        srv = self._server()
        srv.arrive(bytes(data), self)
        job = getattr(threading.current_thread(), "_verif_job", None)
        if job is not None:
            job.yield_point("shm")
        return len(data)

    def sendto(self, data, *rest):
        return self.send(data)

    sendall = send

    def recv(self, bufsize=65536, flags=0, *a, **k):
        if self.closed:
            raise OSError(9, "Bad file descriptor")
        srv = self._server()
        cl = srv.cluster
        while True:
            srv.work()
            if self.rx:
                data = self.rx.pop(0)
                srv.log.append(("recv", self.sid, data))
                return data[:bufsize]
            now = cl.clock.ns
            ready = srv.next_ready_for(self)
            if self.timeout is not None and self.timeout <= 0:
                raise BlockingIOError(11, "Resource temporarily unavailable")
            limit = None if self.timeout is None else now + int(self.timeout * 1e9)
            if ready is not None and (limit is None or ready <= limit):
                cl.advance_to(ready)
                continue
            if limit is not None:
                cl.advance_to(limit)
                srv.work()
                if self.rx:
                    continue
                srv.log.append(("timeout", self.sid))
                cl.shm_timeouts.append((cl.cur_host(), self.timeout))
                raise SOCK_TIMEOUT("timed out")
            # blocking for ever: nothing under way will ever answer this socket
            cl.shm_hangs.append((cl.cur_host(), "recv on a datagram socket for which no answer is under way"))
            raise ShmHang("recv blocks for ever")

    def recvfrom(self, bufsize=65536, flags=0, *a, **k):
        return self.recv(bufsize, flags), ("127.0.0.1", 12345)

    def recv_into(self, buffer, nbytes=0, flags=0):
        data = self.recv(nbytes or len(buffer), flags)
        buffer[:len(data)] = data
        return len(data)

    def recvfrom_into(self, buffer, nbytes=0, flags=0):
        return self.recv_into(buffer, nbytes, flags), ("127.0.0.1", 12345)


def fake_sleep(sec):
    """time.sleep of the code under test: the fake clock runs; a pool job on its own thread lets the scheduler know"""
    cl = cur_cluster()
    job = getattr(threading.current_thread(), "_verif_job", None)
    if not _impl_thread(cl):
        return REAL_SLEEP(sec)
    cl.shm_sleeps += 1
    cl.advance_to(cl.clock.ns + int(max(sec, 0.001) * 1e9))   # a loop of sleep(0) takes time too
    if job is not None:
        job.sleep_point()


def _impl_thread(cl):
    """does this thread run code under test of the case being run (a pool job on its own thread, or the harness thread inside a call)?"""
    t = threading.current_thread()
    return cl is not None and (getattr(t, "_verif_job", None) is not None or (t is threading.main_thread() and cl.current is not None))


def fake_clock(name):
    """time.time / monotonic / perf_counter (and _ns) of the code under test follow the fake clock, so that a deadline it computes
    passes when the trace lets time pass; every other thread of the process (watchdog, coqc runners) keeps the real ones"""
    real = REAL_CLOCKS[name]

    def clock():
        cl = cur_cluster()
        if not _impl_thread(cl):
            return real()
        return cl.clock.ns if name.endswith("_ns") else cl.clock.ns / 1e9
    return clock
