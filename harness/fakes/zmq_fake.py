"""In-process stand-in for the `zmq` module and the clock used by cascade.executor.comms.

One `Net` object is the whole network: every PUSH send appends a packet (destination address,
list of frames) to `net.wire_pool`; nothing reaches a PULL socket until the test driver says so
(`deliver`, `drop`, `dup`).  A bound PULL socket owns the FIFO `net.inbox[address]`.
`Poller.poll` never sleeps and never advances the clock: time only moves by `net.tick`.

Loop control: a blocking poll (timeout != 0) consumes one unit of `net.block_budget`; when the
budget is exhausted the poll raises `StopLoop` (a BaseException, so that `except Exception` in the
code under test does not swallow it).  This lets the driver run exactly one iteration of a
`while ...: recv_messages(timeout)` loop of the real code.
"""
from __future__ import annotations

import types
from collections import deque


class StopLoop(BaseException):
    pass


class Net:
    def __init__(self):
        self.pool: list[tuple[str, list[bytes]]] = []   # packets in transit (order = send order, dups appended)
        self.wire: list[tuple[str, list[bytes]]] = []   # every packet ever sent by an endpoint (ghost log)
        self.inbox: dict[str, deque] = {}
        self.now_ns = 1_000_000_000
        self.block_budget: int | None = None
        self.clock_reads = 0

    # ---- clock (stands for the `time` module inside comms)
    def time_ns(self):
        self.clock_reads += 1
        return self.now_ns

    def time(self):
        return self.now_ns / 1e9

    def tick(self, ns: int):
        self.now_ns += ns

    # ---- network control
    def send(self, address: str, frames) -> None:
        frames = [bytes(f) for f in frames]
        self.pool.append((address, frames))
        self.wire.append((address, list(frames)))

    def deliver(self, i: int) -> None:
        address, frames = self.pool.pop(i)
        self.inbox.setdefault(address, deque()).append(frames)

    def drop(self, i: int) -> None:
        self.pool.pop(i)

    def dup(self, i: int) -> None:
        address, frames = self.pool[i]
        self.pool.append((address, list(frames)))

    # ---- the module object
    def module(self):
        net = self

        class Socket:
            def __init__(self, kind):
                self.kind = kind
                self.address = None

            def set(self, *a, **k):
                pass

            setsockopt = set

            def connect(self, address):
                self.address = address

            def bind(self, address):
                self.address = address
                net.inbox.setdefault(address, deque())

            def send(self, byt, *a, **k):
                net.send(self.address, [byt])

            def send_multipart(self, frames, *a, **k):
                net.send(self.address, list(frames))

            def recv_multipart(self, *a, **k):
                return list(net.inbox[self.address].popleft())

            def close(self, *a, **k):
                pass

        class Context:
            def socket(self, kind):
                return Socket(kind)

            def term(self):
                pass

        class Poller:
            def __init__(self):
                self.socks = []

            def register(self, sock, flags=None):
                self.socks.append(sock)

            def unregister(self, sock):
                self.socks.remove(sock)

            def poll(self, timeout=None):
                ready = [(s, 1) for s in self.socks if net.inbox.get(s.address)]
                if timeout != 0:
                    if net.block_budget is not None:
                        if net.block_budget <= 0:
                            raise StopLoop()
                        net.block_budget -= 1
                return ready

        m = types.SimpleNamespace()
        m.Context, m.Poller, m.Socket = Context, Poller, Socket
        m.PUSH, m.PULL, m.POLLIN, m.LINGER = 8, 7, 1, 17
        return m

    def clock_module(self):
        m = types.SimpleNamespace()
        m.time_ns = self.time_ns
        m.time = self.time
        m.sleep = lambda s: None
        return m
