"""Fakes for the C07 check: an in-process cluster of REAL cascade.executor.data_server.DataServer objects
(built by their real __init__) and REAL comms.Listener objects over

  * a fake network: comms.get_socket returns a PUSH stub that appends (address, frames) to a bag, the PULL
    side is a queue the harness fills when the trace says "deliver";
  * a manual thread pool: jobs submitted to ds_proc_tp run when the trace says so; data_server.wait runs
    the jobs the trace picks (the loop may not proceed past wait() otherwise);
  * a fake shm client per host with the conflict-on-existing-key rule of cascade.shm (Manager.add / get / purge);
  * a fake clock.

Nothing in the repository is modified; module globals of data_server / comms are swapped for the duration
of one case and restored afterwards."""
import contextlib
import logging
import pickle
from concurrent.futures import Future


class Clock:
    def __init__(self, start_ns):
        self.ns = start_ns

    def time_ns(self):
        return self.ns


class Push:
    def __init__(self, cluster, address):
        self.cluster, self.address = cluster, address

    def send(self, byt, *a, **k):
        self.cluster.emit(self.address, [bytes(byt)])

    def send_multipart(self, frames, *a, **k):
        self.cluster.emit(self.address, [bytes(f) for f in frames])

    def set(self, *a, **k):
        pass

    def connect(self, *a, **k):
        pass

    def close(self, *a, **k):
        pass


class Pull:
    def __init__(self):
        self.queue = []

    def recv_multipart(self, *a, **k):
        return self.queue.pop(0)


class Poller:
    def __init__(self, sock):
        self.sock = sock

    def poll(self, timeout=None):
        return [(self.sock, 1)] if self.sock.queue else []

    def register(self, *a, **k):
        pass


class ManualExecutor:
    """jobs run when told; job ids = submission order"""

    def __init__(self, *a, **k):
        self.jobs = []  # [future, fn, args, ran]

    def submit(self, fn, *args, **kw):
        fut = Future()
        self.jobs.append([fut, fn, args, False])
        return fut

    def pending(self):
        return [i for i, j in enumerate(self.jobs) if not j[3]]

    def run(self, i):
        fut, fn, args, ran = self.jobs[i]
        assert not ran
        self.jobs[i][3] = True
        fut.set_running_or_notify_cancel()
        try:
            fut.set_result(fn(*args))
        except BaseException as e:  # the pool stores it in the future
            fut.set_exception(e)

    def index_of(self, fut):
        for i, j in enumerate(self.jobs):
            if j[0] is fut:
                return i
        raise KeyError("future not from this pool")

    def shutdown(self, *a, **k):
        pass


class ConflictError(Exception):
    pass


class Buf:
    def __init__(self, shm, key, data, deser_fun, create):
        self.shm, self.key, self.data, self.deser_fun, self.create = shm, key, data, deser_fun, create
        self.open = True
        shm.open_bufs.append(self)

    def view(self):
        if not self.open:
            raise ValueError("shm already closed!")
        mv = memoryview(self.data)
        return mv if self.create else mv.toreadonly()

    def close(self):
        if self.open:
            self.open = False
            self.shm.open_bufs.remove(self)
            if self.create:
                self.shm.data[self.key] = (bytes(self.data), self.deser_fun)
                self.shm.created.discard(self.key)


class HostShm:
    """cascade.shm.Manager as far as the data server can tell: add on an existing key -> conflict,
    get of a missing key -> error, purge of a missing key -> nothing"""

    def __init__(self, cluster, host):
        self.cluster, self.host = cluster, host
        self.data = {}       # key -> (bytes, deser_fun)
        self.created = set()  # allocated, not yet closed
        self.open_bufs = []
        self.alloc_count = {}

    def allocate(self, key, l, deser_fun, timeout_sec=60.0):
        if key in self.data or key in self.created:
            raise ConflictError()
        self.created.add(key)
        self.alloc_count[key] = self.alloc_count.get(key, 0) + 1
        return Buf(self, key, bytearray(l), deser_fun, True)

    def get(self, key, timeout_sec=60.0):
        if key not in self.data:
            raise ValueError(f"KeyError({key!r})")
        b, d = self.data[key]
        return Buf(self, key, bytearray(b), d, False)

    def purge(self, key):
        self.cluster.on_purge(self.host, key)
        self.data.pop(key, None)


class ShmDispatch:
    """stands in for the module cascade.shm.client inside data_server: routes to the shm of the host whose code is running"""
    ConflictError = ConflictError
    AllocatedBuffer = Buf

    def __init__(self, cluster):
        self.cluster = cluster

    def allocate(self, key, l, deser_fun, timeout_sec=60.0):
        return self.cluster.cur_shm().allocate(key, l, deser_fun)

    def get(self, key, timeout_sec=60.0):
        return self.cluster.cur_shm().get(key)

    def purge(self, key):
        return self.cluster.cur_shm().purge(key)


class Cluster:
    """n data servers ("h1".."hn", data address "d<i>", message address "m<i>") + the controller's listener "ctl" """

    def __init__(self, nhosts, start_ns=1_000_000_000_000):
        import cascade.executor.comms as comms
        import cascade.executor.data_server as dsm
        import cascade.shm.api as shm_api
        self.comms, self.dsm, self.shm_api = comms, dsm, shm_api
        self.clock = Clock(start_ns)
        self.net = []            # [(address, [frames])] in flight
        self.events = {}         # host index -> [message] callbacks to maddress, in order
        self.event_ctx = {}
        self.current = None      # host index whose code is running
        self.picks = []
        self.purge_violations = []
        self.nhosts = nhosts
        self.pull, self.listener, self.server, self.pool, self.shm, self.crashed = {}, {}, {}, {}, {}, {}
        self.ctl_received = []

    # --- addresses
    @staticmethod
    def daddr(i):
        return "ctl" if i == 0 else f"d{i}"

    @staticmethod
    def hname(i):
        return "controller" if i == 0 else f"h{i}"

    def emit(self, address, frames):
        if address.startswith("m"):
            h = int(address[1:])
            m = pickle.loads(frames[0])
            self.events[h].append(m)
            # what the host's shm holds, and how often each key was allocated, at the moment of the callback
            self.event_ctx[h].append((dict(self.shm[h].data), dict(self.shm[h].alloc_count)))
        else:
            self.net.append((address, frames))

    def cur_shm(self):
        return self.shm[self.current]

    def on_purge(self, host, key):
        # the property: a purge waits for reads (and stores) in progress on that dataset
        pend = []
        for i in self.pool[host].pending():
            a = self.pool[host].jobs[i][2][0]
            ds = a.ds if hasattr(a, "ds") else a.header.ds
            if self.dsm.ds2shmid(ds) == key:
                pend.append(i)
        openb = [b for b in self.shm[host].open_bufs if b.key == key]
        if pend or openb:
            self.purge_violations.append((host, key, pend, len(openb)))

    def _wait(self, fs, timeout=None, return_when="ALL_COMPLETED"):
        """data_server.wait: the loop blocks until the pool has finished enough; the trace picks which jobs finish"""
        fs = list(fs)
        pool = self.pool[self.current]

        def notdone():
            return [f for f in fs if not f.done()]
        if return_when == "FIRST_COMPLETED":
            nd = notdone()
            if nd and len(nd) == len(fs):
                p = self.picks.pop(0) if self.picks else 0
                pool.run(pool.index_of(nd[p % len(nd)]))
                self.used_picks.append(p)
        else:
            while True:
                nd = notdone()
                if not nd:
                    break
                p = self.picks.pop(0) if self.picks else 0
                pool.run(pool.index_of(nd[p % len(nd)]))
                self.used_picks.append(p)
        done = {f for f in fs if f.done()}
        import collections
        return collections.namedtuple("DoneAndNotDoneFutures", "done not_done")(done, set(fs) - done)

    @contextlib.contextmanager
    def patched(self):
        comms, dsm, shm_api = self.comms, self.dsm, self.shm_api
        saved = (comms.get_socket, dsm.shm_client, dsm.time_ns, dsm.wait, dsm.Listener, dsm.ThreadPoolExecutor,
                 shm_api.publish_client_port, dsm.logging.config.dictConfig)
        comms.get_socket = lambda address: Push(self, address)
        dsm.shm_client = ShmDispatch(self)
        dsm.time_ns = self.clock.time_ns
        dsm.wait = self._wait
        dsm.Listener = self._make_listener
        dsm.ThreadPoolExecutor = ManualExecutor
        shm_api.publish_client_port = lambda port: None
        dsm.logging.config.dictConfig = lambda cfg: None
        prev = logging.root.manager.disable
        logging.disable(logging.CRITICAL)
        try:
            self._build()
            yield self
        finally:
            logging.disable(prev)
            (comms.get_socket, dsm.shm_client, dsm.time_ns, dsm.wait, dsm.Listener, dsm.ThreadPoolExecutor,
             shm_api.publish_client_port, dsm.logging.config.dictConfig) = saved

    def _make_listener(self, address):
        l = object.__new__(self.comms.Listener)   # the real class; only the zmq socket/poller are stubs
        sock = Pull()
        l.address = address
        l.socket = sock
        l.poller = Poller(sock)
        l.acked = set()
        self._last_pull = sock
        return l

    def _build(self):
        self.listener[0] = self._make_listener("ctl")
        self.pull[0] = self._last_pull
        from cascade.executor.comms import ReliableSender
        self.sender = ReliableSender("ctl", 800)
        for i in range(1, self.nhosts + 1):
            self.events[i] = []
            self.event_ctx[i] = []
            self.shm[i] = HostShm(self, i)
            self.current = i
            srv = self.dsm.DataServer(f"m{i}", f"d{i}", f"h{i}", 12345, {"version": 1})
            self.server[i] = srv
            self.listener[i] = srv.dlistener
            self.pull[i] = srv.dlistener.socket
            self.pool[i] = srv.ds_proc_tp
            self.crashed[i] = None
            self.sender.add_host(f"data.h{i}", f"d{i}")
        self.current = None

    # --- operations
    def publish(self, host, ds, value, deser_fun):
        """what a worker's Memory.handle does with a published output"""
        self.current = host
        buf = self.dsm.shm_client.allocate(key=self.dsm.ds2shmid(ds), l=len(value), deser_fun=deser_fun)
        buf.view()[:len(value)] = value
        buf.close()
        self.current = None

    def command(self, cmd):
        """Bridge.transmit / Bridge.fetch: the controller's ReliableSender frames the command"""
        self.sender.send("data." + cmd.source, cmd)

    def purge(self, host, ds):
        """Executor.recv_loop: callback(self.daddress, DatasetPurge)"""
        from cascade.executor.msg import DatasetPurge
        self.comms.callback(f"d{host}", DatasetPurge(ds=ds))

    def deliver(self, i):
        address, frames = self.net.pop(i)
        idx = 0 if address == "ctl" else int(address[1:])
        self.pull[idx].queue.append(list(frames))

    def drop(self, i):
        self.net.pop(i)

    def dup(self, i):
        address, frames = self.net[i]
        self.net.append((address, list(frames)))

    def run_job(self, host, k):
        self.current = host
        try:
            self.pool[host].run(k)
        finally:
            self.current = None

    def iterate(self, host, picks):
        """one iteration of the real recv_loop (host >= 1) or one recv_messages of the controller's listener (host 0)"""
        self.picks = list(picks)
        self.used_picks = []
        if host == 0:
            got = self.listener[0].recv_messages(0)
            self.ctl_received.extend(got)
            return len(got)
        if self.crashed[host]:
            return None
        srv = self.server[host]
        self.current = host
        orig = srv.dlistener.recv_messages

        def once(timeout_ms=None):
            srv.terminating = True     # the loop body runs exactly once
            return orig(0)
        srv.dlistener.recv_messages = once
        srv.terminating = False
        try:
            srv.recv_loop()
        except Exception as e:  # the process would die here
            self.crashed[host] = type(e).__name__ + ": " + str(e)[:200]
        finally:
            del srv.dlistener.recv_messages
            self.current = None
        return None
