"""Fakes for the C07 check: an in-process cluster of REAL cascade.executor.data_server.DataServer objects
(built by their real __init__), REAL comms.Listener objects (real __init__), the REAL comms.callback / send_data /
get_socket / ReliableSender, over

  * a fake TRANSPORT at the level of the `zmq` module (zmq.Context / zmq.Poller are swapped, so it does not matter
    through which helper, with which optional arguments, or from which module the code under test opens and keeps its
    sockets): a PUSH socket ASSEMBLES a multipart message per socket, frame by frame (send(..., SNDMORE) appends to the
    socket's buffer, the frame without SNDMORE puts the assembled message on the wire; send_multipart is that sequence of
    sends, as in pyzmq).  The wire is a bag of messages the trace delivers / drops / duplicates; the PULL side is a
    queue filled when the trace says "deliver".  Every frame send is logged (socket id, who sent it, SNDMORE);
  * a manual thread pool: jobs submitted to the pool run when the trace says so; a job can also be STEPPED: it then runs
    on a thread of its own under a cooperative scheduler (exactly one thread runs at a time) and pauses after every
    non-final frame it sends, so that the frame sends of two pool jobs interleave exactly as the trace says (at most
    max_workers jobs are under way at a time).  concurrent.futures.wait runs the jobs the trace picks (the loop may
    not proceed past wait() otherwise);
  * the REAL cascade.shm.client over a fake datagram socket and a fake, single-threaded shm server per host that the
    trace can make slow (ds_shm.py: conflict on an existing key, wait on an unclosed one, reader ids, delayed purge);
    a stepped job can also be made to pause after every shm request it sends;
  * a fake clock (time.time_ns; time.sleep and waiting for a datagram let it run).

Nothing in the repository is modified; attributes of zmq / time / concurrent.futures / logging.config /
socket / multiprocessing.shared_memory / multiprocessing.resource_tracker / cascade.shm.api (and every name in a
loaded cascade.* module bound to one of the replaced objects) are swapped for the duration of one case and restored afterwards."""
import collections
import concurrent.futures
import contextlib
import logging
import logging.config
import multiprocessing.resource_tracker
import multiprocessing.shared_memory
import os
import pickle
import socket as socket_mod
import sys
import threading
import time
from concurrent.futures import Future

import ds_shm
from ds_shm import ShmHang

SNDMORE = 2   # zmq.SNDMORE
PULL = 7      # zmq.PULL
HANG_S = 20.0
BLOCKED_S = 3.0   # a job under way that does not come back for this long (real time) is taken to wait for a lock another paused job holds


class Clock:
    def __init__(self, start_ns):
        self.ns = start_ns

    def time_ns(self):
        return self.ns


# ----------------------------------------------------------------------------- transport
_CUR = None   # the cluster of the case being run


def current_cluster():
    return _CUR


_NSOCK = [0]


class Push:
    """zmq PUSH socket: one assembly buffer per socket.  A socket the code under test keeps in a module-level place
    outlives the case (as it would live as long as the process): it then works on the wire of the case being run"""

    def __init__(self, cluster):
        self.made_in = cluster
        self.address = None
        self.parts = []      # [(frame, sender tag)]
        _NSOCK[0] += 1
        self.sid = _NSOCK[0]
        self.closed = False

    @property
    def cluster(self):
        if _CUR is not None and _CUR is not self.made_in:
            self.made_in, self.parts = _CUR, []
        return self.made_in

    def connect(self, address, *a, **k):
        self.address = address

    def send(self, data, flags=0, *a, **k):
        cl = self.cluster
        more = bool(flags & SNDMORE)
        tag = cl.sender_tag()
        cl.wire_log.append((self.sid, tag, more, self.address))
        self.parts.append((bytes(data), tag))
        if not more:
            parts, self.parts = self.parts, []
            cl.emit(self.address, [p for p, _ in parts], [t for _, t in parts])
        else:
            job = getattr(threading.current_thread(), "_verif_job", None)
            if job is not None:
                job.yield_point("frame")

    def send_multipart(self, msg_parts, flags=0, *a, **k):
        parts = list(msg_parts)
        for p in parts[:-1]:
            self.send(p, SNDMORE | flags)
        return self.send(parts[-1], flags)

    def send_pyobj(self, obj, flags=0, *a, **k):
        return self.send(pickle.dumps(obj), flags)

    def set(self, *a, **k):
        pass

    setsockopt = set

    def close(self, *a, **k):
        self.closed = True


class Pull:
    def __init__(self, cluster):
        self.made_in = cluster
        self.queue = []
        self.address = None

    def bind(self, address, *a, **k):
        self.address = address
        self.made_in.pull_by_addr[address] = self

    def recv_multipart(self, *a, **k):
        return self.queue.pop(0)

    def recv(self, *a, **k):
        frames = self.queue.pop(0)
        return frames[0]

    def set(self, *a, **k):
        pass

    setsockopt = set

    def close(self, *a, **k):
        pass


class Context:
    def __init__(self, *a, **k):
        pass

    @classmethod
    def instance(cls, *a, **k):
        return cls()

    def socket(self, kind, *a, **k):
        return Pull(_CUR) if kind == PULL else Push(_CUR)

    def term(self, *a, **k):
        pass

    destroy = term


class Poller:
    def __init__(self, *a, **k):
        self.socks = []

    def register(self, sock, *a, **k):
        if sock not in self.socks:
            self.socks.append(sock)

    def unregister(self, sock):
        self.socks.remove(sock)

    def poll(self, timeout=None):
        return [(s, 1) for s in self.socks if getattr(s, "queue", None)]


# ----------------------------------------------------------------------------- thread pool
class JobHang(AssertionError):
    pass


class _Co:
    """a pool job on a thread of its own, advanced step by step by the harness thread (one of the two runs at a time)"""

    def __init__(self, fn, args, kwargs, tag):
        self.fn, self.args, self.kwargs = fn, args, kwargs
        self.resume = threading.Semaphore(0)
        self.yielded = threading.Semaphore(0)
        self.stepping = True       # False: run to the end; True: pause after every non-final frame sent; "all": also after every
        self.finished = False      # shm request sent and in every time.sleep
        self.asleep = False        # paused inside time.sleep because it cannot get on before another job does
        self.pool = None
        self.result, self.exc = None, None
        self.thread = threading.Thread(target=self._main, daemon=True, name="verif-pool-job")
        self.thread._verif_job = self
        self.thread._verif_tag = tag
        self.thread.start()

    def _main(self):
        self.resume.acquire()
        try:
            self.result = self.fn(*self.args, **self.kwargs)
        except BaseException as e:  # the pool stores it in the future
            self.exc = e
        self.finished = True
        self.yielded.release()

    def advance(self, stepping, timeout=HANG_S):
        """run until the next pause (stepping) or to the end; False = did not get there in time (blocked on something)"""
        self.stepping = stepping
        self.resume.release()
        return self.yielded.acquire(timeout=timeout)

    def still_running(self, timeout):
        return not self.yielded.acquire(timeout=timeout)

    def yield_point(self, kind="frame"):
        if self.stepping == "all" or (self.stepping and kind == "frame"):
            self.yielded.release()
            self.resume.acquire()

    def sleep_point(self):
        """time.sleep on this thread: the code waits for something another thread has to do (the shm server said `wait`).
        Stepped finely this is a pause like any other; otherwise, while another job of the pool is under way (paused), the
        scheduler is told so that it lets that job get on first -- under a real pool it would run meanwhile"""
        if self.stepping == "all":
            self.yielded.release()
            self.resume.acquire()
        elif self.pool is not None and any(k for k in self.pool.under_way() if self.pool.jobs[k][5] is not self):
            self.asleep = True
            self.yielded.release()
            self.resume.acquire()


class ManualExecutor:
    """jobs run when told; job ids = submission order"""

    def __init__(self, max_workers=None, *a, **k):
        self.max_workers = max_workers or 2
        self.jobs = []  # [future, fn, args, ran, kwargs, co]
        self.cluster = _CUR
        self.host = None
        if _CUR is not None:
            _CUR.created_pools.append(self)

    def submit(self, fn, *args, **kw):
        fut = Future()
        self.jobs.append([fut, fn, args, False, kw, None])
        return fut

    def pending(self):
        return [i for i, j in enumerate(self.jobs) if not j[3]]

    def hung(self):
        return [i for i, j in enumerate(self.jobs) if j[3] == "hung"]

    def _co(self, i):
        fut, fn, args, ran, kw, co = self.jobs[i]
        co = self.jobs[i][5] = _Co(fn, args, kw, ("job", self.host, i))
        co.pool = self
        return co

    def under_way(self):
        return [i for i, j in enumerate(self.jobs) if not j[3] and j[5] is not None]

    def _finish(self, i, result, exc):
        j = self.jobs[i]
        j[5] = None
        if isinstance(exc, ShmHang):   # the thread is blocked for ever: the future never completes
            j[3] = "hung"
            return
        j[3] = True
        fut = j[0]
        fut.set_running_or_notify_cancel()
        if exc is not None:
            fut.set_exception(exc)
        else:
            fut.set_result(result)

    def run(self, i):
        """job i runs to completion (from where it is)"""
        fut, fn, args, ran, kw, co = self.jobs[i]
        assert not ran
        if co is None and self.under_way():
            # another job is under way on its own thread (it may hold a lock this one needs): this one gets a thread too,
            # so that the scheduler notices when it cannot get on
            co = self._co(i)
        if co is None:
            tag = ("job", self.host, i)
            prev, self.cluster.sync_tag = self.cluster.sync_tag, tag
            try:
                try:
                    result, exc = fn(*args, **kw), None
                except BaseException as e:
                    result, exc = None, e
            finally:
                self.cluster.sync_tag = prev
            self._finish(i, result, exc)
            return True
        self._advance(i, False)
        return True

    def step(self, i, fine=False):
        """job i runs up to its next pause (fine: shm requests and sleeps are pauses too); True when it has finished"""
        fut, fn, args, ran, kw, co = self.jobs[i]
        assert not ran
        if co is None:
            assert len(self.under_way()) < self.max_workers, "no free worker"
            co = self._co(i)
        return self._advance(i, "all" if fine else True)

    def _advance(self, i, stepping):
        co = self.jobs[i][5]
        # a job that does not come back soon is taken to be blocked by another job that is under way; with no other job under
        # way there is nothing it could be blocked by (only a slow machine): wait for it
        ok = co.advance(stepping, timeout=BLOCKED_S if any(k != i for k in self.under_way()) else HANG_S)

        def others_finish():
            for k in self.under_way():
                if k != i:
                    o = self.jobs[k][5]
                    while True:
                        if not o.advance(False, timeout=HANG_S):
                            raise JobHang(f"pool job {k} does not finish")
                        if o.finished:
                            break
                        o.asleep = False    # it slept while this one is paused: both wait; the clock runs, it asks again
                    self._finish(k, o.result, o.exc)
                    self.cluster.finished_aside.append((self.host, k))
        if not ok:
            # blocked (e.g. on a lock held by another paused job): let the others finish, then it must get on
            others_finish()
            if co.still_running(HANG_S):
                raise JobHang(f"pool job {i} does not get on")
        guard = 0
        while co.asleep and not co.finished:
            # it waits (time.sleep) for what another, paused job has to do: that one gets on first
            co.asleep = False
            guard += 1
            if guard > 5000:
                raise JobHang(f"pool job {i} sleeps for ever")
            others_finish()
            if not co.advance(stepping, timeout=HANG_S):
                raise JobHang(f"pool job {i} does not get on")
        if co.finished:
            self._finish(i, co.result, co.exc)
            return True
        return False

    def index_of(self, fut):
        for i, j in enumerate(self.jobs):
            if j[0] is fut:
                return i
        raise KeyError("future not from this pool")

    def shutdown(self, *a, **k):
        pass


# ----------------------------------------------------------------------------- swapping names
_BINDINGS = {}


def _bindings(mod, name, old):
    """(module, attribute) pairs of loaded cascade.* modules bound to the object `old` (= mod.name before the swap)"""
    key = (mod.__name__, name)
    if key not in _BINDINGS:
        out = []
        for mname, m in list(sys.modules.items()):
            if m is None or not (mname == "cascade" or mname.startswith("cascade.")) or m is mod:
                continue
            for attr, val in list(vars(m).items()):
                if val is old:
                    out.append((m, attr))
        _BINDINGS[key] = out
    return _BINDINGS[key]


class Cluster:
    """n data servers ("h1".."hn", data address "d<i>", message address "m<i>") + the controller's listener "ctl" """

    def __init__(self, nhosts, start_ns=1_000_000_000_000):
        import cascade.executor.comms as comms
        import cascade.executor.data_server as dsm
        import cascade.shm.api as shm_api
        import cascade.shm.client as shm_client
        import zmq
        self.comms, self.dsm, self.shm_api, self.shm_client, self.zmq = comms, dsm, shm_api, shm_client, zmq
        self.ConflictError = shm_client.ConflictError
        self.clock = Clock(start_ns)
        # the shm side (ds_shm.py)
        self.segments = {}         # name -> bytearray: the shared-memory segments of all hosts (names carry the host)
        self.open_handles = []     # open mappings
        self.shm_server = {}       # host -> ShmServer
        self.shm_lost_answers = []  # answers sent to a socket that was closed meanwhile
        self.shm_timeouts = []     # (host, timeout): a recv that gave up
        self.shm_hangs = []        # (host, what): a thread waits for ever
        self.shm_sleeps = 0
        self.net = []            # [(address, [frames])] in flight
        self.net_tags = []       # parallel to net: who sent the frames of the message
        self.events = {}         # host index -> [message] callbacks to maddress, in order
        self.event_ctx = {}
        self.current = None      # host index whose code is running
        self.picks = []
        self.used_picks = []
        self.purge_violations = []
        self.nhosts = nhosts
        self.pull, self.listener, self.server, self.pool, self.shm, self.crashed = {}, {}, {}, {}, {}, {}
        self.ctl_received = []
        self.pull_by_addr = {}
        self.created_pools = []
        self.wire_log = []       # every frame send: (socket id, sender tag, SNDMORE, address)
        self.mixed = []          # messages put on the wire whose frames come from different senders
        self.sync_tag = None
        self.finished_aside = []
        self.nsock = 0
        self.ctl_crashed = None

    # --- addresses
    @staticmethod
    def daddr(i):
        return "ctl" if i == 0 else f"d{i}"

    @staticmethod
    def hname(i):
        return "controller" if i == 0 else f"h{i}"

    def sender_tag(self):
        """who is sending: a pool job (its own thread, or run in line by the harness), a loop, or the harness (controller)"""
        t = getattr(threading.current_thread(), "_verif_tag", None)
        if t is not None:
            return t
        if self.sync_tag is not None:
            return self.sync_tag
        return ("loop", self.current)

    def emit(self, address, frames, tags):
        if len(set(tags)) > 1:
            self.mixed.append((address, [len(f) for f in frames], list(tags)))
        if isinstance(address, str) and address.startswith("m"):
            h = int(address[1:])
            try:
                m = pickle.loads(frames[0])
            except Exception:
                m = ("undecodable", bytes(frames[0])[:20])
            self.events[h].append(m)
            # what the host's shm holds, and how often each key was allocated, at the moment of the callback
            self.event_ctx[h].append((dict(self.shm[h].data), dict(self.shm[h].alloc_count)))
        else:
            self.net.append((address, frames))
            self.net_tags.append(list(tags))

    def cur_host(self):
        """the host whose code is running on this thread"""
        t = getattr(threading.current_thread(), "_verif_tag", None)
        if t is not None and t[0] == "job":
            return t[1]
        if self.sync_tag is not None and self.sync_tag[0] == "job":
            return self.sync_tag[1]
        return self.current

    def advance_to(self, ns):
        """time passes (a tick of the trace, a client waiting for its answer, a sleep): the shm servers work meanwhile"""
        if ns > self.clock.ns:
            self.clock.ns = ns
        for srv in self.shm_server.values():
            srv.work()

    def on_purge(self, host, key):
        # the property: a purge waits for reads (and stores) in progress on that dataset
        pend = []
        for i in self.pool[host].pending():
            a = self.pool[host].jobs[i][2][0] if self.pool[host].jobs[i][2] else None
            ds = getattr(a, "ds", None) or getattr(getattr(a, "header", None), "ds", None)
            if ds is not None and self.dsm.ds2shmid(ds) == key:
                pend.append(i)
        openb = [b for b in self.shm[host].open_bufs if b.key == key]
        if pend or openb:
            self.purge_violations.append((host, key, pend, len(openb)))

    def _wait(self, fs, timeout=None, return_when="ALL_COMPLETED"):
        """concurrent.futures.wait: the loop blocks until the pool has finished enough; the trace picks which jobs finish"""
        fs = list(fs)
        pool = self.pool[self.current]

        def live():
            """the unfinished futures that can still finish; a wait that only a job blocked for ever could end never returns"""
            hung = {pool.jobs[k][0] for k in pool.hung()}
            nd = [f for f in fs if not f.done()]
            lv = [f for f in nd if f not in hung]
            if nd and not lv and (return_when != "FIRST_COMPLETED" or len(nd) == len(fs)):
                self.shm_hangs.append((self.current, "the loop waits in wait() for a job that is blocked for ever"))
                raise ShmHang("wait() blocks for ever")
            return lv
        if return_when == "FIRST_COMPLETED":
            nd = live()
            if nd and not any(f.done() for f in fs):
                p = self.picks.pop(0) if self.picks else 0
                pool.run(pool.index_of(nd[p % len(nd)]))
                self.used_picks.append(p)
        else:
            while True:
                nd = live()
                if not nd:
                    break
                p = self.picks.pop(0) if self.picks else 0
                pool.run(pool.index_of(nd[p % len(nd)]))
                self.used_picks.append(p)
        done = {f for f in fs if f.done()}
        return collections.namedtuple("DoneAndNotDoneFutures", "done not_done")(done, set(fs) - done)

    # --- the seams
    @contextlib.contextmanager
    def patched(self):
        global _CUR
        zmq, shm_client, shm_api = self.zmq, self.shm_client, self.shm_api
        swaps = [
            (zmq, "Context", Context), (zmq, "Poller", Poller),
            (time, "time_ns", self.clock.time_ns),
            (concurrent.futures, "wait", self._wait), (concurrent.futures, "ThreadPoolExecutor", ManualExecutor),
            (socket_mod, "socket", ds_shm.DgramSocket), (time, "sleep", ds_shm.fake_sleep),
            *[(time, n, ds_shm.fake_clock(n)) for n in ds_shm.REAL_CLOCKS],
            (multiprocessing.shared_memory, "SharedMemory", ds_shm.FakeSharedMemory),
            (multiprocessing.resource_tracker, "unregister", lambda *a, **k: None),
            (multiprocessing.resource_tracker, "register", lambda *a, **k: None),
            (shm_api, "publish_client_port", lambda port: None),
            (logging.config, "dictConfig", lambda cfg: None),
        ]
        saved = []
        for mod, name, new in swaps:
            old = getattr(mod, name)
            saved.append((mod, name, old))
            setattr(mod, name, new)
            # names bound by `from x import y` in the code under test
            for m, attr in _bindings(mod, name, old):
                saved.append((m, attr, old))
                setattr(m, attr, new)
        prev_cur, _CUR = _CUR, self
        prev_port = os.environ.get(shm_api.client_port_envvar)
        os.environ[shm_api.client_port_envvar] = "12345"
        prev = logging.root.manager.disable
        logging.disable(logging.CRITICAL)
        try:
            self._build()
            yield self
        finally:
            for pool in self.pool.values():       # no thread is left behind
                for k in pool.under_way():
                    try:
                        self.current = pool.host
                        pool.run(k)
                    except Exception:
                        pass
            self.current = None
            logging.disable(prev)
            _CUR = prev_cur
            if prev_port is None:
                os.environ.pop(shm_api.client_port_envvar, None)
            else:
                os.environ[shm_api.client_port_envvar] = prev_port
            for mod, name, old in reversed(saved):
                setattr(mod, name, old)

    def _build(self):
        self.listener[0] = self.comms.Listener("ctl")     # the controller's listener (real class, real __init__)
        self.pull[0] = self.pull_by_addr["ctl"]
        self.sender = self.comms.ReliableSender("ctl", 800)
        for i in range(1, self.nhosts + 1):
            self.events[i] = []
            self.event_ctx[i] = []
            self.shm_server[i] = ds_shm.ShmServer(self, i)
            self.shm[i] = ds_shm.HostView(self, i, self.shm_server[i])
            self.current = i
            npools = len(self.created_pools)
            srv = self.dsm.DataServer(f"m{i}", f"d{i}", f"h{i}", 12345, {"version": 1})
            self.server[i] = srv
            self.pull[i] = self.pull_by_addr[f"d{i}"]
            # the listener the server reads from: whichever attribute holds the Listener bound to its data address
            ls = [v for v in vars(srv).values() if getattr(v, "socket", None) is self.pull[i] and hasattr(v, "recv_messages")]
            if len(ls) != 1:
                raise RuntimeError(f"DataServer.__init__ made {len(ls)} listeners on its data address, the harness knows how to drive one")
            self.listener[i] = ls[0]
            pools = self.created_pools[npools:]
            if len(pools) != 1:
                raise RuntimeError(f"DataServer.__init__ created {len(pools)} thread pools, the harness knows how to drive one")
            self.pool[i] = pools[0]
            pools[0].host = i
            self.crashed[i] = None
            self.sender.add_host(f"data.h{i}", f"d{i}")
        self.current = None

    # --- operations
    def publish(self, host, ds, value, deser_fun):
        """what a worker's Memory.handle does with a published output"""
        self.current = host
        self.sync_tag = ("worker", host)
        try:
            buf = self.shm_client.allocate(self.dsm.ds2shmid(ds), len(value), deser_fun)   # the real client, as Memory.handle
            buf.view()[:len(value)] = value
            buf.close()
        finally:
            self.current = None
            self.sync_tag = None

    def command(self, cmd):
        """Bridge.transmit / Bridge.fetch: the controller's ReliableSender frames the command"""
        self.sync_tag = ("ctl",)
        try:
            self.sender.send("data." + cmd.source, cmd)
        finally:
            self.sync_tag = None

    def purge(self, host, ds):
        """Executor.recv_loop: callback(self.daddress, DatasetPurge)"""
        from cascade.executor.msg import DatasetPurge
        self.sync_tag = ("exe", host)
        try:
            self.comms.callback(f"d{host}", DatasetPurge(ds=ds))
        finally:
            self.sync_tag = None

    def deliver(self, i):
        address, frames = self.net.pop(i)
        self.net_tags.pop(i)
        self.pull_by_addr[address].queue.append(list(frames))

    def drop(self, i):
        self.net.pop(i)
        self.net_tags.pop(i)

    def dup(self, i):
        address, frames = self.net[i]
        self.net.append((address, list(frames)))
        self.net_tags.append(list(self.net_tags[i]))

    def run_job(self, host, k):
        self.current = host
        try:
            return self.pool[host].run(k)
        finally:
            self.current = None

    def step_job(self, host, k, fine=False):
        self.current = host
        try:
            return self.pool[host].step(k, fine)
        finally:
            self.current = None

    def iterate(self, host, picks):
        """one iteration of the real recv_loop (host >= 1) or one recv_messages of the controller's listener (host 0)"""
        self.picks = list(picks)
        self.used_picks = []
        if host == 0:
            if self.ctl_crashed:
                return None
            self.current = 0
            try:
                got = self.listener[0].recv_messages(0)
            except Exception as e:  # the controller would die here
                self.ctl_crashed = type(e).__name__ + ": " + str(e)[:200]
                return None
            finally:
                self.current = None
            self.ctl_received.extend(got)
            return len(got)
        if self.crashed[host]:
            return None
        srv = self.server[host]
        self.current = host
        lst = self.listener[host]
        orig = lst.recv_messages

        def once(timeout_ms=None, *a, **k):
            srv.terminating = True     # the loop body runs exactly once
            return orig(0)
        lst.recv_messages = once
        srv.terminating = False
        try:
            srv.recv_loop()
        except Exception as e:  # the process would die here
            self.crashed[host] = type(e).__name__ + ": " + str(e)[:200]
        except ShmHang as e:    # the loop never comes back: the host is wedged
            self.crashed[host] = "blocked for ever: " + str(e)[:200]
        finally:
            del lst.recv_messages
            self.current = None
        return None
